"""PROTO: codec I/O models extracted from the MIR of serialize / deserialize functions.

A model is the list of I/O sites of a function (with in-crate callees that receive the byte sink / cursor inlined) in
execution order; every site has a token kind (u8, u16le, ..., f64le, bytes), the provenance DAG of the value written (or the
tag of the value read), the branch conditions that guard it (as DAGs with the required outcome), and whether it sits in a loop.
Evaluating the guards and values under a valuation of the leaves (sketch state for writers, previously read preamble values
for readers) yields the concrete token sequence of that state, which is compared with the published layout (spec/*.py).
"""
import re

from . import ir, sym, formula
from .sym import Sym, show

W_RE = re.compile(r"codec::encode::SketchBytes::write_(u8|i8|u16|i16|u32|i32|u64|i64|f32|f64)(_le|_be)?$")
R_RE = re.compile(r"codec::decode::SketchSlice::<'_>::read_(u8|i8|u16|i16|u32|i32|u64|i64|f32|f64)(_le|_be)?$")
WIDTH = {"u8": 1, "i8": 1, "u16": 2, "i16": 2, "u32": 4, "i32": 4, "u64": 8, "i64": 8, "f32": 4, "f64": 8}


class Site:
    __slots__ = ("kind", "value", "guards", "loop", "fn", "span", "tag", "block", "extra")

    def __init__(self, kind, value, guards, loop, fn, span, tag=None, block=None, extra=None):
        self.kind = kind
        self.value = value
        self.guards = guards
        self.loop = loop
        self.fn = fn
        self.span = span
        self.tag = tag
        self.block = block
        self.extra = extra

    def __repr__(self):
        return "%s%s %s if %s" % (self.kind, "*" if self.loop else "", show(self.value)[:60] if self.value else (self.tag or ""),
                                  [[(show(c)[:40], tv) for c, tv in p][:4] for p in self.guards][:2])


def token_kind(m):
    base, end = m.group(1), m.group(2) or ""
    if WIDTH[base] == 1:
        return base
    return base + end.replace("_", "")


def loops_blocks(fn):
    s = Sym(fn.prog if hasattr(fn, "prog") else None, fn) if False else None
    out = set()
    for b in fn.reachable_blocks():
        for sx in fn.succs(b):
            if fn.dominates(sx, b):
                body = {sx}
                st = [b]
                while st:
                    x = st.pop()
                    if x in body:
                        continue
                    body.add(x)
                    st.extend(fn.preds(x))
                out |= body
    return out


def _subst_expr(e, mapping):
    if not isinstance(e, tuple):
        return e
    if e[0] == "param" and e[1] in mapping:
        return mapping[e[1]]
    return tuple(_subst_expr(x, mapping) if isinstance(x, tuple) and x and isinstance(x[0], str) else
                 (tuple(_subst_expr(y, mapping) for y in x) if isinstance(x, tuple) else x) for x in e)


def model(prog, fn, mode, binding=None, prefix=(), depth=0, in_loop=False, impl_choice=None):
    """mode 'w' (writer) or 'r' (reader). binding: param index -> caller expression. Returns list[Site]."""
    if depth > 6:
        return []
    s = Sym(prog, fn)
    lb = loops_blocks(fn)
    order = [b for b in fn.rpo() if not fn.blocks[b].cleanup]
    sites = []
    binding = binding or {}

    def bind(e):
        return _subst_expr(e, binding) if binding else e

    for b in order:
        t = fn.blocks[b].term
        if t[0] != "call":
            continue
        site = t[1]
        cal = site.get("callee") or ""
        guards = None

        def get_guards():
            pcs = s.path_conditions(b)
            if pcs is None:
                g = [[(bind(cond), tv) for cond, tv, _d in s.guards_at(b)]]
            else:
                g = [[(bind(c), tv) for c, tv in path] for path in pcs]
            # guards = disjunction (over paths) of conjunctions, each prefixed by the caller's alternatives
            if not prefix:
                return tuple(tuple(x) for x in g)
            return tuple(tuple(p) + tuple(x) for p in prefix for x in g)
        m = (W_RE if mode == "w" else R_RE).search(cal)
        loop = in_loop or (b in lb)
        if m:
            val = bind(s.at(b).operand(site["args"][1])) if mode == "w" else None
            tag = None
            extra = None
            if mode == "r":
                tag = "%s@%s#%s" % (cal.rsplit("::", 1)[-1], fn.id.rsplit("::", 1)[-1], b)
                extra = _landing_name(fn, site)
            sites.append(Site(token_kind(m), val, get_guards(), loop, fn.id, site["span"], tag, b, extra))
            continue
        if mode == "w" and cal.endswith("SketchBytes::write"):
            val = bind(s.at(b).operand(site["args"][1]))
            sites.append(Site("bytes", val, get_guards(), loop, fn.id, site["span"], None, b))
            continue
        if mode == "r" and cal.endswith("SketchSlice::<'_>::read_exact"):
            tag = "read_exact@%s#%s" % (fn.id.rsplit("::", 1)[-1], b)
            sites.append(Site("bytes", bind(s.at(b).operand(site["args"][1])), get_guards(), loop, fn.id, site["span"], tag, b))
            continue
        if mode == "r" and cal.endswith("SketchSlice::<'_>::advance"):
            sites.append(Site("skip", bind(s.at(b).operand(site["args"][1])), get_guards(), loop, fn.id, site["span"], "advance@%s#%s" % (fn.id.rsplit("::", 1)[-1], b), b))
            continue
        # in-crate callees that take part in the I/O
        targets = []
        if cal in prog.fns:
            targets = [cal]
        elif site.get("unresolved") and site.get("trait"):
            targets = prog.callees_of_site(fn, site)
            if impl_choice:
                targets = [x for x in targets if impl_choice in x] or targets[:1]
            else:
                targets = targets[:1]
        for tg in targets:
            cf = prog.fns[tg]
            if not _touches_io(prog, cf, mode, set()):
                continue
            args = [bind(s.at(b).operand(a)) for a in site["args"]]
            nb = {i + 1: a for i, a in enumerate(args)}
            sites.extend(model(prog, cf, mode, nb, get_guards(), depth + 1, loop, impl_choice))
        if not targets and cal not in prog.fns:
            # a library adaptor that runs a closure of this function (iter().for_each(|w| bytes.write_u64_le(*w)), try_for_each, map,
            # ..): the closure's I/O is this function's I/O, repeated once per element
            for a in site["args"]:
                try:
                    ea = s.at(b).operand(a)
                except Exception:
                    continue
                def closures_handed_over(x):
                    # the closure has to be the argument itself (possibly behind a borrow / wrapper aggregate), not something
                    # buried in the provenance of another call's result that merely flows through this call (`?` on the
                    # value try_for_each returned would otherwise replay the closure's reads)
                    if not isinstance(x, tuple) or not x:
                        return
                    if x[0] == "call":
                        return
                    if x[0] == "agg" and isinstance(x[1], str) and x[1].startswith("closure:"):
                        yield x
                        return
                    for y in x[1:]:
                        if isinstance(y, tuple):
                            if y and isinstance(y[0], str):
                                for z in closures_handed_over(y):
                                    yield z
                            else:
                                for w in y:
                                    for z in closures_handed_over(w):
                                        yield z
                for node in closures_handed_over(ea):
                    if node[0] == "agg" and isinstance(node[1], str) and node[1].startswith("closure:"):
                        cid = node[1][len("closure:"):]
                        cf = prog.fns.get(cid)
                        if cf is None or not _touches_io(prog, cf, mode, set()):
                            continue
                        short = cal.rsplit("::", 1)[-1]
                        rep_ = short in ("for_each", "try_for_each", "map", "fold", "try_fold", "for_each_mut", "all", "any", "filter_map", "flat_map", "inspect")
                        nb = {}
                        for ci, cv in enumerate(node[2]):
                            nb["cap%d" % ci] = bind(cv)
                        sites.extend(model(prog, cf, mode, {}, get_guards(), depth + 1, loop or rep_, impl_choice))
        if not targets and cal == "" and site.get("indirect") is not None and any(
                "Sketch" in ir.pl_ty(fn, ir.op_place(a)) for a in site["args"] if ir.op_place(a) is not None):
            # call through a function pointer parameter (frequent items): an opaque item group
            sites.append(Site("opaque", None, get_guards(), True, fn.id, site["span"], "indirect#%s" % b, b))
    return sites


_io_cache = {}


def _touches_io(prog, f, mode, seen):
    key = (f.id, mode)
    if key in _io_cache:
        return _io_cache[key]
    if f.id in seen:
        return False
    seen = seen | {f.id}
    r = False
    for b, site in f.calls():
        cal = site.get("callee") or ""
        if (mode == "w" and ("SketchBytes::write" in cal)) or (mode == "r" and ("SketchSlice::<'_>::read_" in cal or cal.endswith("::advance"))):
            r = True
            break
        if cal in prog.fns and cal.split("::")[0] not in ("error",) and _touches_io(prog, prog.fns[cal], mode, seen):
            r = True
            break
        if site.get("unresolved") and site.get("trait"):
            for tg in prog.callees_of_site(f, site):
                if _touches_io(prog, prog.fns[tg], mode, seen):
                    r = True
                    break
    _io_cache[key] = r
    return r


def guard_holds(cond, tv, env):
    """True / False / None(unknown) for one guard under env"""
    try:
        v = formula.evaluate(cond, env)
    except formula.Uneval:
        return None
    if isinstance(v, tuple):
        return None
    if tv[0] == "eq":
        return v == tv[1]
    return v not in tv[1]


def present(site, env, ignore=None):
    """three-valued: does some path to the site have all its decisions true?  `ignore(cond)` marks decisions that are
    to be treated as satisfiable (loop-iterator tests)."""
    if not site.guards:
        return True
    any_unknown = False
    for path in site.guards:
        ok = True
        unk = False
        for cond, tv in path:
            r = guard_holds(cond, tv, env)
            if r is False:
                ok = False
                break
            if r is None:
                if ignore is not None and ignore(cond):
                    continue
                unk = True
        if ok and not unk:
            return True
        if ok and unk:
            any_unknown = True
    return None if any_unknown else False


def concrete_tokens(sites, env, loop_counts=None):
    """token sequence of a writer model under env: list of (kind, value|None, site). Sites whose presence is unknown are
    reported with kind prefixed '?'"""
    out = []
    for st in sites:
        p = present(st, env, ignore=lambda c: "next(" in show(c) or "discr(next" in show(c))
        if p is False:
            continue
        if st.loop and _loop_is_empty(st, env):
            continue
        val = None
        if st.value is not None:
            try:
                val = formula.evaluate(st.value, env)
                if isinstance(val, tuple):
                    val = None
            except formula.Uneval:
                val = None
        out.append((("?" if p is None else "") + st.kind + ("*" if st.loop else ""), val, st))
    return out


ALIGN = []   # alignment (token index, reader site) of the last reader_accepts() run
LAST_ENV = {}   # the reader's valuation (tagged reads -> values) at the end of the last reader_accepts() run

ASSUMED = ("discr(read_", "compute_seed_hash", "next(", "discr(map_err", "position(", "get_ref(", "remaining(", "is_nan(", "is_infinite(", "discr(check_", "discr(try_from_bytes", "discr(entries_for_config")


def reader_accepts(sites, tokens, base_env):
    """simulate the reader model on an expected token list [(kind, value|None)].
    returns (verdict, detail): verdict True (all tokens consumed in order with matching kinds), False (definite
    mismatch), None (undecided: a site's presence depends on something unknown)."""
    env = dict(base_env)
    i = 0
    n = len(tokens)
    del ALIGN[:]

    def km(rk, tk):
        rk, tk = rk.rstrip("*"), tk.rstrip("*")
        if rk == tk:
            return True
        if tk in ("u16", "u32") and rk in (tk + "le", tk + "be"):
            return True
        if tk == "bytes" and rk == "bytes":
            return True
        return False
    for st in sites:
        p = present(st, env, ignore=lambda c: any(a in show(c) for a in ASSUMED))
        if p is False:
            continue
        if st.kind == "skip":
            if p is True:
                return (False, "the reader skips over %s bytes of input at %s without decoding them" % (show(st.value)[:40], st.fn))
            continue
        if st.loop:
            # a loop consumes the repeated group of the same kind, if it is next
            if i < n and tokens[i][0].endswith("*") and km(st.kind, tokens[i][0]):
                i += 1
            continue
        if p is None:
            unk = set()
            for path in st.guards:
                for c, tv in path:
                    if guard_holds(c, tv, env) is None and not any(a in show(c) for a in ASSUMED):
                        unk.add(show(c)[:110])
            return (None, "presence of %s in %s depends on unknown condition(s) %s" % (st.tag, st.fn, sorted(unk)[:3]))
        if i >= n:
            return (False, "the reader expects a further %s (%s) after the image ends (%d tokens)" % (st.kind, st.tag, n))
        tk, tv = tokens[i]
        if tk.endswith("*"):
            return (False, "the reader reads a single %s (%s) where the layout has a repeated %s group (position %d)" % (st.kind, st.tag, tk, i))
        same_width = WIDTH.get(re.sub(r"(le|be)$", "", st.kind.rstrip("*")), -1) == WIDTH.get(re.sub(r"(le|be)$", "", tk.rstrip("*")), -2)
        if not km(st.kind, tk) and same_width and tv == 0:
            pass  # an all-zero field has no byte order
        elif not km(st.kind, tk):
            return (False, "position %d: the reader reads %s (%s) where the layout has %s" % (i, st.kind, st.tag, tk))
        if tv is not None and not isinstance(tv, str):
            env[st.tag.split("@")[0] + "@" + st.tag.split("@", 1)[1] + "()"] = tv
        ALIGN.append((i, st))
        i += 1
    if i < n:
        return (False, "the reader stops after %d of %d tokens: %s is never read" % (i, n, [t[0] for t in tokens[i:]]))
    LAST_ENV.clear()
    LAST_ENV.update(env)
    return (True, "")


def _loop_is_empty(site, env):
    """the collection a loop site iterates over has length 0 under env (so the loop emits nothing)"""
    for path in site.guards:
        for cond, tv in path:
            if cond[0] == "discr":
                x = cond[1]
                hops = 0
                while isinstance(x, tuple) and x and x[0] == "call" and x[2] and hops < 8:
                    nm = x[1].rsplit("::", 1)[-1]
                    if nm in ("next", "iter", "iter_mut", "into_iter", "deref", "enumerate", "copied", "cloned", "by_ref"):
                        x = x[2][0]
                        hops += 1
                    else:
                        break
                try:
                    if formula.seq_len(x, env) == 0:
                        return True
                except formula.Uneval:
                    pass
    return False


def _landing_name(fn, site):
    """user variable the value of a read lands in (followed through `?`, map_err and copies), or None"""
    cur = ir.pl_local(site["dest"])
    for _ in range(10):
        n = fn.local_name(cur)
        if n and n not in ("val", "residual", "e", "err"):
            return n
        nxt = None
        for blk in fn.blocks:
            if blk.cleanup:
                continue
            for st in blk.stmts:
                if st[0] == "=" and isinstance(st[1], int):
                    for o in ir.rvalue_operands(st[2]):
                        pp = ir.op_place(o)
                        if pp is not None and ir.pl_local(pp) == cur:
                            nxt = st[1]
                            break
                if nxt is not None:
                    break
            if nxt is None and blk.term[0] == "call":
                c = blk.term[1]
                for o in c["args"]:
                    pp = ir.op_place(o)
                    if pp is not None and ir.pl_local(pp) == cur and isinstance(c["dest"], int):
                        nxt = c["dest"]
                        break
            if nxt is not None:
                break
        if nxt is None:
            return None
        cur = nxt
    return None


def value_label(e):
    """last field / accessor name of a written value (`self.mode.estimator.kxq0` -> kxq0), or None"""
    if e is None:
        return None
    x = e
    for _ in range(6):
        if x[0] == "field":
            return x[2]
        if x[0] == "cast":
            x = x[1]
            continue
        if x[0] == "call" and x[2] and x[1].rsplit("::", 1)[-1] in ("get", "len", "as_u8"):
            x = x[2][0]
            continue
        if x[0] == "len":
            x = x[1]
            continue
        break
    return None
