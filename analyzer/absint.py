"""Interprocedural interval + taint abstract interpretation over MIR facts (engines RANGE, TAINT, GUARD).

Abstract value  V = (lo, hi, taint, inlen)
   lo, hi : python ints (inclusive) for integer-like values, or None for non-numeric values
   taint  : frozenset of origin labels ("B:<fn>#<n>:<label>" bytes read, "A:<fn>:<param>" public API argument)
   inlen  : True when the value is known to be bounded by (a small multiple of) the length of the input
            byte slice (used for "allocation proportional to the input")

Numeric "carrier" types: Result<int,_>, Option<int>, ControlFlow<_,int>, (int,bool), &int, &mut int carry
the interval of their integer payload, so that `?`, checked arithmetic and by-reference comparisons keep
their ranges.

State: dict local -> V (absent = top of the local's type, untainted).  None = unreachable.
Non-relational; flow-sensitive on locals; flow-insensitive invariants on ADT fields (join of every store in
the crate); context-insensitive summaries for parameters, returns and callee post-conditions.
"""
import re
from . import ir
from .ir import INT_RANGES, INT_BITS, pl_local, pl_proj, op_place, op_const

EMPTY = frozenset()
RET_WIDEN_AFTER = 10   # return summaries legitimately grow over several interprocedural rounds (parameters settle first)
WIDEN_AFTER = 3
W = "W!"   # marker carried in the taint set: the interval was produced by widening (loop / summary), i.e. it is an
           # artefact of the abstraction and not positive evidence about attacker-controlled values
WSET = frozenset([W])
U = "U!"   # marker: value of unknown origin/range (foreign call result, run-time length, iterator item)
USET = frozenset([U])
UR = "UR!"  # marker: the range of this value was computed from an operand of unknown range
UR_SET = frozenset([UR])
REL = -2   # state key holding a frozenset of (a, b) facts: local a <= local b (single-definition integer locals)


def split_generics(s):
    """'A<B, C<D, E>>' -> ('A', ['B', 'C<D, E>'])"""
    i = s.find("<")
    if i < 0 or not s.endswith(">"):
        return s, []
    head = s[:i]
    body = s[i + 1:-1]
    out, depth, cur = [], 0, ""
    for ch in body:
        if ch in "<([":
            depth += 1
        elif ch in ">)]":
            depth -= 1
        if ch == "," and depth == 0:
            out.append(cur.strip())
            cur = ""
        else:
            cur += ch
    if cur.strip():
        out.append(cur.strip())
    return head, out


_payload_cache = {}


def tuple_elem_ty(ty, i):
    """i-th element type of a tuple type string `(A, B, ..)`, or None"""
    if not ty or not ty.startswith("(") or not ty.endswith(")"):
        return None
    depth, cur, parts = 0, "", []
    for ch in ty[1:-1]:
        if ch in "(<[":
            depth += 1
        elif ch in ")>]":
            depth -= 1
        if ch == "," and depth == 0:
            parts.append(cur.strip())
            cur = ""
        else:
            cur += ch
    if cur.strip():
        parts.append(cur.strip())
    return parts[i] if 0 <= i < len(parts) else None


def payload_ty(ty):
    """integer payload type of a (carrier) type, or None"""
    r = _payload_cache.get(ty)
    if r is not None or ty in _payload_cache:
        return r
    r = _payload_ty(ty)
    _payload_cache[ty] = r
    return r


def _payload_ty(ty):
    if ty in INT_RANGES:
        return ty
    if ty.startswith("&mut "):
        return payload_ty(ty[5:]) if ty[5:] in INT_RANGES else None
    if ty.startswith("&"):
        t = ty[1:]
        if t.startswith("'"):
            t = t.split(" ", 1)[1] if " " in t else t
        return t if t in INT_RANGES else None
    if ty.startswith("(") and ty.endswith(")"):
        parts = [p.strip() for p in ty[1:-1].split(",")]
        if len(parts) == 2 and parts[1] == "bool" and parts[0] in INT_RANGES:
            return parts[0]
        return None
    head, args = split_generics(ty)
    if head in ("std::result::Result", "core::result::Result") and args:
        return args[0] if args[0] in INT_RANGES else None
    if head in ("std::option::Option", "core::option::Option") and args:
        return args[0] if args[0] in INT_RANGES else None
    if head in ("std::ops::ControlFlow", "core::ops::ControlFlow") and len(args) == 2:
        return args[1] if args[1] in INT_RANGES else None
    if head in ("std::num::NonZero",) and args:
        return args[0] if args[0] in INT_RANGES else None
    if ty in ("std::num::NonZeroU64",):
        return "u64"
    if head in ("std::ops::Range", "std::ops::RangeInclusive", "core::ops::Range", "core::ops::RangeInclusive") and args:
        return args[0] if args[0] in INT_RANGES else None
    return None


def top_of(ty):
    p = payload_ty(ty)
    if p is None:
        return (None, None, EMPTY, False)
    lo, hi = INT_RANGES[p]
    return (lo, hi, EMPTY, False)


def _small(v):
    return isinstance(v[0], int) and isinstance(v[1], int) and v[0] >= 0 and v[1] <= 65536


def vjoin(a, b):
    if a is None:
        return b
    if b is None:
        return a
    if a[0] is None or b[0] is None:
        return (None, None, a[2] | b[2], False)
    if a[0] == "bot":
        return (b[0], b[1], a[2] | b[2], b[3])
    if b[0] == "bot":
        return (a[0], a[1], a[2] | b[2], a[3])
    # "bounded by the input length" survives a join with a value that is small in its own right (a count read from a 16-bit
    # field): either way an allocation of that many elements stays in proportion to the input or is small
    inlen = (a[3] and b[3]) or (a[3] and _small(b)) or (b[3] and _small(a))
    return (min(a[0], b[0]), max(a[1], b[1]), a[2] | b[2], inlen)


def clip(lo, hi, ty):
    """clip mathematical interval to type range; returns None when the result is certainly out of range"""
    tlo, thi = INT_RANGES[ty]
    if lo > thi or hi < tlo:
        return None
    return (max(lo, tlo), min(hi, thi))


def wrap_or_top(lo, hi, ty):
    tlo, thi = INT_RANGES[ty]
    if lo >= tlo and hi <= thi:
        return (lo, hi)
    return (tlo, thi)


def bits_hi(x):
    """smallest 2^n-1 >= x (x>=0)"""
    n = 0
    while (1 << n) - 1 < x:
        n += 1
    return (1 << n) - 1


class Obligation:
    __slots__ = ("fn", "block", "kind", "detail", "status", "operands", "taint", "span", "label", "reason")

    def __init__(self, fn, block, kind, detail, status, operands, taint, span, label, reason=""):
        self.fn = fn
        self.block = block
        self.kind = kind          # shift, overflow, bounds, divzero, alloc, panic, unwrap, index
        self.detail = detail      # e.g. "Overflow:Shl"
        self.status = status      # "safe" | "unsafe" | "undecided"
        self.operands = operands  # list of (label, lo, hi)
        self.taint = taint
        self.span = span
        self.label = label        # stable operand label (variable names), no line numbers
        self.reason = reason

    def key(self):
        return "%s|%s|%s|%s" % (self.kind, self.fn, self.detail, self.label)


READ_RE = re.compile(r"^codec::decode::SketchSlice::<'_>::read_(u8|i8|u16|i16|u32|i32|u64|i64|f32|f64)(_le|_be)?$")

ALLOC_FNS = {
    "std::vec::from_elem": 1,
    "std::vec::Vec::<T>::with_capacity": 0,
    "std::vec::Vec::<T, A>::with_capacity_in": 0,
    "std::vec::Vec::<T, A>::resize": 1,
    "std::vec::Vec::<T, A>::reserve": 1,
    "std::vec::Vec::<T, A>::reserve_exact": 1,
    "std::string::String::with_capacity": 0,
    "std::boxed::Box::<[T]>::new_zeroed_slice": 0,
    "std::boxed::Box::<[T]>::new_uninit_slice": 0,
    "std::collections::HashMap::<K, V>::with_capacity": 0,
    "std::collections::VecDeque::<T>::with_capacity": 0,
}
ALLOC_CAP_BYTES = 64 << 20

PANIC_FNS = ("std::rt::panic_fmt", "core::panicking::panic", "core::panicking::assert_failed", "core::panicking::panic_fmt",
             "core::panicking::unreachable_display", "core::panicking::panic_display", "core::panicking::panic_explicit",
             "std::rt::begin_panic", "core::panicking::panic_nounwind", "core::option::unwrap_failed", "core::result::unwrap_failed",
             "core::option::expect_failed", "core::panicking::panic_bounds_check", "core::slice::index::slice_index_fail")
UNWRAP_FNS = ("std::option::Option::<T>::expect", "std::option::Option::<T>::unwrap", "std::result::Result::<T, E>::expect",
              "std::result::Result::<T, E>::unwrap", "std::result::Result::<T, E>::expect_err", "std::result::Result::<T, E>::unwrap_err")
INDEX_FNS = ("<std::vec::Vec<T, A> as std::ops::Index<I>>::index", "<std::vec::Vec<T, A> as std::ops::IndexMut<I>>::index_mut",
             "core::slice::index::<impl std::ops::Index<I> for [T]>::index", "core::slice::index::<impl std::ops::IndexMut<I> for [T]>::index_mut",
             "std::array::<impl std::ops::Index<I> for [T; N]>::index", "std::array::<impl std::ops::IndexMut<I> for [T; N]>::index_mut",
             "<std::boxed::Box<[T], A> as std::ops::Index<I>>::index")


class Analysis:
    def __init__(self, prog, api_taint=False, scope=None, entry_param_top=True):
        self.closure_env = {}
        self.closure_built = set()      # closures whose construction has been analysed
        self._closure_sites = None      # closure id -> functions that build it
        self.prog = prog
        self.api_taint = api_taint
        self.scope = scope  # set of fn ids to analyse (None = all)
        self.param_in = {}   # fn -> list[V|None]
        self.ret = {}        # fn -> V|None (None = no normal return seen yet)
        self.post = {}       # fn -> {param_index: (lo,hi)} facts that hold whenever fn returns normally / returns Ok
        self.post_ok = {}    # fn -> {param_index: (lo,hi)} facts that hold when fn returns Ok(..)/Some(..)
        self.ret_tuple = {}  # fn -> {i: value} components of a returned tuple
        self.param_pow2 = {}  # fn -> set of parameter indices that are a power of two at every call site
        self.param_rel = {}  # fn -> set of (i, j): parameter i <= parameter j at every call site
        self.field = {}      # (adt, field) -> V
        self.field_widen = {}
        self.changed = True
        self.obligations = []
        self.report = False
        self.src_count = {}
        self.stats = {"fn_passes": 0}
        self.dirty = set()
        self._widen_count = {}

    # ------------------------------------------------------------------ summaries
    def _bump(self, key):
        c = self._widen_count.get(key, 0) + 1
        self._widen_count[key] = c
        return c

    def join_param(self, fid, i, v, ty):
        lst = self.param_in.setdefault(fid, {})
        old = lst.get(i)
        new = vjoin(old, v)
        if new != old:
            if old is not None and new[0] is not None and self._bump(("p", fid, i)) > WIDEN_AFTER:
                t = top_of(ty)
                new = (t[0], t[1], new[2] | WSET, False) if t[0] is not None else new
            lst[i] = new
            self.dirty.add(fid)
            self.changed = True

    def join_ret(self, fid, v, ty):
        old = self.ret.get(fid)
        new = vjoin(old, v)
        if new != old:
            if old is not None and new[0] is not None and self._bump(("r", fid)) > RET_WIDEN_AFTER:
                t = top_of(ty)
                new = (t[0], t[1], new[2] | WSET, False) if t[0] is not None else new
            self.ret[fid] = new
            self.changed = True
            for c in self.prog.callers().get(fid, ()):  # callers need re-analysis
                self.dirty.add(c)

    def join_ret_tuple(self, fid, comps, rty):
        old = self.ret_tuple.get(fid)
        new = dict(comps) if old is None else {i: vjoin(old[i], comps[i]) for i in comps if i in old}
        if new != old:
            if old is not None and self._bump(("rt", fid)) > WIDEN_AFTER:
                new = {i: ((lambda t, v: (t[0], t[1], v[2] | WSET, False))(top_of(tuple_elem_ty(rty, i)), v) if v[0] is not None else v) for i, v in new.items()}
            self.ret_tuple[fid] = new
            self.changed = True
            for c in self.prog.callers().get(fid, ()):
                self.dirty.add(c)

    def join_closure_env(self, cid, i, v, ty):
        """captured variable i of closure cid: join over every construction of the closure"""
        key = (cid, i)
        old = self.closure_env.get(key)
        new = vjoin(old, v)
        if new != old:
            if old is not None and new[0] is not None and self._bump(("c", cid, i)) > WIDEN_AFTER:
                t = top_of(ty)
                new = (t[0], t[1], new[2] | WSET, False) if t[0] is not None else new
            self.closure_env[key] = new
            self.changed = True
            if cid in self.prog.fns:
                self.dirty.add(cid)

    def join_field(self, key, v, ty):
        old = self.field.get(key)
        new = vjoin(old, v)
        if new != old:
            if old is not None and new[0] is not None and self._bump(("f",) + key) > WIDEN_AFTER:
                t = top_of(ty)
                new = (t[0], t[1], new[2] | WSET, False) if t[0] is not None else new
            self.field[key] = new
            self.changed = True
            self.field_dirty = True

    # ------------------------------------------------------------------ driver
    def run(self, entries=None, max_rounds=40):
        prog = self.prog
        fns = [f for f in prog.fns.values() if (self.scope is None or f.id in self.scope)]
        # seed: exported functions get top params (tainted as API args when api_taint)
        for f in fns:
            if f.promoted:
                continue
            seed = (f.id in entries) if entries is not None else f.exported
            if f.kind == "closure":
                seed = True  # closures: parameters come from unknown callers (iterators etc.)
            if seed:
                self.param_rel[f.id] = set()
                self.param_pow2[f.id] = set()
                for i in range(1, f.argc + 1):
                    ty = f.local_ty(i)
                    t = top_of(ty)
                    taint = EMPTY
                    if f.kind == "closure" and i >= 2:
                        # handed over by library code (fold, map, ..): unknown -- FnPass.run supplies that default for a parameter no
                        # call site has joined, so that a modelled adaptor (`(a..b).map(closure)`) can give it the range it really has
                        continue
                    if self.api_taint and f.kind != "closure" and f.local_name(i) != "self":
                        seq = ("[" in ty) or ("Vec<" in ty) or ty.endswith("str") or ("String" in ty)
                        taint = frozenset(["%s:%s:%s" % ("AS" if seq else "A", f.id, f.local_name(i) or i)])
                    self.join_param(f.id, i, (t[0], t[1], taint, False), ty)
                if f.argc == 0:
                    self.param_in.setdefault(f.id, {})
        rounds = 0
        self.dirty = set(f.id for f in fns)
        while rounds < max_rounds:
            rounds += 1
            self.changed = False
            self.field_dirty = False
            todo = [f for f in fns if f.id in self.dirty]
            self.dirty = set()
            for f in todo:
                if f.promoted or f.id not in self.param_in:
                    continue
                FnPass(self, f).run()
            if self.field_dirty:
                # field invariants changed: everything reading fields must be revisited
                self.dirty = set(f.id for f in fns)
            if not self.dirty:
                break
        self.stats["rounds"] = rounds
        # final reporting pass
        self.report = True
        self.obligations = []
        for f in fns:
            if f.promoted or f.id not in self.param_in:
                continue
            FnPass(self, f).run()
        self.report = False
        return self


class FnPass:
    def __init__(self, an, fn):
        self.an = an
        self.fn = fn
        self.prog = an.prog
        self.escaped = self._escaped_locals()
        self.read_ord = 0

    def _escaped_locals(self):
        """locals whose address is taken mutably (may change behind our back)"""
        esc = set()
        for b in self.fn.blocks:
            if b.cleanup:
                continue
            for s in b.stmts:
                if s[0] == "=" and s[2][0] in ("ref", "rawptr"):
                    rv = s[2]
                    kind = rv[1]
                    place = rv[2]
                    if (rv[0] == "rawptr" or kind == "mut") and not pl_proj(place):
                        lty = self.fn.local_ty(pl_local(place))
                        if lty.startswith(("std::ops::Range<", "std::ops::RangeInclusive<")):
                            continue  # the [start, end) interval over-approximates every yielded value
                        esc.add(pl_local(place))
        return esc

    # ------------------------------------------------------------------ values
    def default(self, l):
        if l == -1:
            return (0, 1, EMPTY, False)
        if isinstance(l, tuple):
            # ("T", local, i): the i-th component of a tuple-typed local
            return top_of(tuple_elem_ty(self.fn.local_ty(l[1]), l[2]) or "?")
        return top_of(self.fn.local_ty(l))

    def _clear_tuple(self, st, l):
        for k in [k for k in st if isinstance(k, tuple) and len(k) == 3 and k[0] == "T" and k[1] == l]:
            del st[k]

    def get(self, st, l):
        v = st.get(l)
        if v is None:
            return self.default(l)
        return v

    def const_val(self, k):
        ty = k["ty"]
        v = k.get("v")
        p = payload_ty(ty)
        if p is not None and isinstance(v, bool):
            return (int(v), int(v), EMPTY, False)
        if p is not None and isinstance(v, int):
            return (v, v, EMPTY, False)
        if p is not None:
            lo, hi = INT_RANGES[p]
            return (lo, hi, EMPTY, False)
        return (None, None, EMPTY, False)

    def read_operand(self, st, op):
        if op[0] == "k":
            return self.const_val(op[1])
        return self.read_place(st, op[1])

    def read_place(self, st, p):
        fn = self.fn
        if isinstance(p, int):
            return self.get(st, p)
        base = p[0]
        projs = p[1]
        fty = p[2]
        if len(projs) == 1 and projs[0][0] == "." and not projs[0][3] and ("T", base, projs[0][1]) in st and fn.local_ty(base).startswith("("):
            return st[("T", base, projs[0][1])]
        if base == 1 and fn.kind == "closure":
            # a captured variable: the closure environment is `_1` (FnOnce) or `*_1` (Fn / FnMut); field i is capture i, whose value
            # is the join over every place the closure is built
            pj = [e for e in projs]
            if pj and pj[0][0] == "*":
                pj = pj[1:]
            if pj and pj[0][0] == "." and (len(pj) == 1 or (len(pj) == 2 and pj[1][0] == "*")):
                cv = self.an.closure_env.get((fn.id, pj[0][1]))
                if cv is not None and cv[0] is not None and cv[0] != "bot" and payload_ty(fty) is not None:
                    return cv
        bv = self.get(st, base)
        taint = bv[2]
        pty = payload_ty(fty)
        # field invariants along the path contribute taint; the last ADT field gives the range
        last_field = None
        for e in projs:
            if e[0] == "." and e[3] and e[3] in self.prog.adts:
                fv = self.an.field.get((e[3], e[2]))
                if fv is not None:
                    taint = taint | fv[2]
                last_field = e
            elif e[0] == "[]":
                iv = self.get(st, e[1])
                taint = taint | iv[2]
                last_field_was_index = True
        last = projs[-1]
        if pty is None:
            return (None, None, taint, False)
        lo, hi = INT_RANGES[pty]
        # carrier payload access: (_x as Continue).0 / (_x as Some).0 / (_x as Ok).0 / _x.0 of (int,bool)
        if bv[0] is not None:
            only = [e for e in projs if e[0] not in ("as",)]
            if len(only) == 1 and only[0][0] == "." and only[0][1] == 0 and payload_ty(fn.local_ty(base)) == pty:
                hd = fn.local_ty(base)
                if not hd.startswith("&"):
                    return (bv[0], bv[1], taint, bv[3])
            if len(projs) == 1 and last[0] == "*" and payload_ty(fn.local_ty(base)) == pty and not fn.local_ty(base).startswith("&mut"):
                return (bv[0], bv[1], taint, bv[3])
            if len(projs) == 1 and last[0] == "*" and fn.local_ty(base).startswith("&mut"):
                # value behind a &mut: unknown range, but keep taint
                return (lo, hi, taint | USET, False)
        if last[0] == "." and last[3] and last[3] in self.prog.adts:
            fv = self.an.field.get((last[3], last[2]))
            if fv is not None and fv[0] is not None:
                return (fv[0], fv[1], taint, fv[3])
            if fv is None:
                # no store seen (yet): treat as unreachable-bottom -> use top to stay sound
                return (lo, hi, taint, False)
            return (lo, hi, taint, False)
        if any(e[0] in ("[]", "[c]") for e in projs):
            # indexing a static with known contents
            sid = self.static_of_local(base)
            if sid is not None:
                flat = []

                def walk(x):
                    if isinstance(x, list):
                        for y in x:
                            walk(y)
                    elif isinstance(x, bool):
                        flat.append(int(x))
                    elif isinstance(x, int):
                        flat.append(x)
                sv = self.static_value(sid)
                if sv is not None:
                    walk(sv)
                if flat:
                    return (min(flat), max(flat), taint, False)
        return (lo, hi, taint | USET, False)

    def static_of_local(self, l, depth=0):
        """static item a local refers to (through copies, derefs, reborrows), or None"""
        if depth > 6:
            return None
        fn = self.fn
        sd = fn.single_def(l)
        if not sd or sd[2] != "assign":
            return None
        rv = fn.blocks[sd[0]].stmts[sd[1]][2]
        if rv[0] == "use":
            k = op_const(rv[1])
            if k is not None:
                v = k.get("v")
                if isinstance(v, dict) and "static" in v:
                    return v["static"]
                return None
            return self.static_of_local(pl_local(op_place(rv[1])), depth + 1)
        if rv[0] in ("ref", "rawptr"):
            return self.static_of_local(pl_local(rv[2]), depth + 1)
        if rv[0] == "cast":
            pp = op_place(rv[2])
            if pp is not None:
                return self.static_of_local(pl_local(pp), depth + 1)
        return None

    def static_value(self, sid):
        s = self.prog.statics.get(sid)
        if not s or "v" not in s:
            return None
        return s["v"]

    def _static_elems_of_place_OLD(self, p):
        # base local defined as a reference to a static: `_5 = const {alloc: &[T; N]}` is printed with def path
        fn = self.fn
        base = p[0]
        sd = fn.single_def(base)
        if not sd or sd[2] != "assign":
            return None
        rv = fn.blocks[sd[0]].stmts[sd[1]][2]
        if rv[0] != "use" or rv[1][0] != "k":
            return None
        k = rv[1][1]
        v = k.get("v")
        sid = None
        if isinstance(v, dict) and "static" in v:
            sid = v["static"]
        if sid is None:
            return None
        s = self.prog.statics.get(sid)
        if not s or "v" not in s:
            return None
        flat = []

        def walk(x):
            if isinstance(x, list):
                for y in x:
                    walk(y)
            elif isinstance(x, bool):
                flat.append(int(x))
            elif isinstance(x, int):
                flat.append(x)
        walk(s["v"])
        if not flat:
            return None
        return (min(flat), max(flat))

    # ------------------------------------------------------------------ alias chase
    def alias_of(self, op, depth=0):
        """If operand is (a copy / widening cast / shared ref of) a local, return that root local, else None."""
        if op[0] == "k" or depth > 6:
            return None
        p = op[1]
        if not isinstance(p, int):
            if len(p[1]) == 1 and p[1][0][0] == "*":
                # deref of a shared ref local
                l = p[0]
                sd = self.fn.single_def(l)
                if sd and sd[2] == "assign":
                    rv = self.fn.blocks[sd[0]].stmts[sd[1]][2]
                    if rv[0] == "ref" and rv[1] != "mut" and isinstance(rv[2], int):
                        return rv[2]
                    if rv[0] == "use":
                        return self.alias_of(["c", [pl_local(op_place(rv[1])), [["*"]], p[2]]], depth + 1) if op_place(rv[1]) is not None and isinstance(op_place(rv[1]), int) else None
            return None
        return p

    def roots(self, l, depth=0, seen=None):
        """locals that `l` (a reference / iterator / wrapper) may point into (syntactic backward chase)."""
        if seen is None:
            seen = set()
        if l in seen or depth > 14:
            return seen
        seen.add(l)
        fn = self.fn
        for d in fn.defs().get(l, []):
            if d[2] == "arg":
                continue
            if d[1] == "t":
                site = fn.blocks[d[0]].term[1]
                for a in site["args"]:
                    pa = op_place(a)
                    if pa is not None:
                        al = pl_local(pa)
                        ty = fn.local_ty(al)
                        if payload_ty(ty) is None or ty.startswith("&"):
                            self.roots(al, depth + 1, seen)
            else:
                s = fn.blocks[d[0]].stmts[d[1]]
                if s[0] != "=":
                    continue
                rv = s[2]
                if rv[0] in ("ref", "rawptr"):
                    self.roots(pl_local(rv[2]), depth + 1, seen)
                elif rv[0] in ("use", "cast"):
                    o = rv[1] if rv[0] == "use" else rv[2]
                    pa = op_place(o)
                    if pa is not None:
                        self.roots(pl_local(pa), depth + 1, seen)
                elif rv[0] == "agg":
                    for o in rv[2]:
                        pa = op_place(o)
                        if pa is not None:
                            self.roots(pl_local(pa), depth + 1, seen)
        return seen

    # ------------------------------------------------------------------ transfer
    def eval_rvalue(self, st, rv, dest_ty):
        k = rv[0]
        if k == "use":
            return self.read_operand(st, rv[1])
        if k == "cast":
            v = self.read_operand(st, rv[2])
            to = rv[4]
            pt = payload_ty(to)
            if pt is None or to not in INT_RANGES:
                return (None, None, v[2], False) if pt is None else (INT_RANGES[pt][0], INT_RANGES[pt][1], v[2], False)
            tlo, thi = INT_RANGES[to]
            if v[0] is None:
                # float -> int etc.
                return (tlo, thi, v[2] | USET, False)
            if rv[1] in ("IntToInt",):
                if v[0] >= tlo and v[1] <= thi:
                    return (v[0], v[1], v[2], v[3])
                return (tlo, thi, v[2], False)
            return (tlo, thi, v[2], False)
        if k == "bin":
            return self.eval_bin(st, rv[1], rv[2], rv[3], dest_ty)
        if k == "un":
            v = self.read_operand(st, rv[2])
            if rv[1] == "Not":
                if dest_ty == "bool" and v[0] is not None:
                    return (1 - v[1], 1 - v[0], v[2], False)
                t = top_of(dest_ty)
                return (t[0], t[1], v[2], False)
            if rv[1] == "Neg" and v[0] is not None and dest_ty in INT_RANGES:
                w = wrap_or_top(-v[1], -v[0], dest_ty)
                return (w[0], w[1], v[2], False)
            if rv[1] == "PtrMetadata":
                pp = op_place(rv[2])
                if pp is not None:
                    sid = self.static_of_local(pl_local(pp))
                    sv = self.static_value(sid) if sid else None
                    if isinstance(sv, list):
                        return (len(sv), len(sv), EMPTY, False)
                return (0, 2**63 - 1, v[2] | USET, False) if dest_ty == "usize" else top_of(dest_ty)
            t = top_of(dest_ty)
            return (t[0], t[1], v[2], False)
        if k == "ref":
            place = rv[2]
            v = self.read_place(st, place)
            if rv[1] == "mut":
                # pointee may change: unknown range behind the reference
                t = top_of(dest_ty)
                return (t[0], t[1], v[2], False)
            return v
        if k == "agg":
            taint = EMPTY
            vals = []
            for o in rv[2]:
                v = self.read_operand(st, o)
                vals.append(v)
                taint = taint | v[2]
            kk = rv[1]
            pt = payload_ty(dest_ty)
            if kk[0] == "closure":
                if kk[1] not in self.an.closure_built:
                    self.an.closure_built.add(kk[1])
                    self.an.changed = True
                    if kk[1] in self.prog.fns:
                        self.an.dirty.add(kk[1])
                for i_, (o, v) in enumerate(zip(rv[2], vals)):
                    oty = self._operand_ty(o)
                    if payload_ty(oty) is not None and not oty.startswith("&mut"):
                        self.an.join_closure_env(kk[1], i_, v if v[0] is not None else top_of(oty)[:2] + (v[2], False), oty)
            if kk[0] == "adt":
                adt, variant = kk[1], kk[2]
                if adt in self.prog.adts:
                    names = kk[4]
                    for name, o, v in zip(names, rv[2], vals):
                        fty = self._field_ty(adt, variant, name)
                        self.an.join_field((adt, name), self._fit(v, fty), fty or "?")
                if pt is not None:
                    if variant in ("Ok", "Some", "Continue") and vals and vals[0][0] is not None:
                        return (vals[0][0], vals[0][1], taint, vals[0][3])
                    if variant in ("Err", "None", "Break"):
                        return ("bot", "bot", taint, False)
            if kk[0] == "adt" and kk[1] in ("std::ops::Range", "core::ops::Range") and len(vals) == 2 and pt is not None:
                a, c = vals
                if a[0] is not None and c[0] is not None and a[0] != "bot" and c[0] != "bot":
                    lo, hi = a[0], c[1] - 1
                    if hi < lo:
                        hi = lo
                    return (lo, hi, taint, False)
            if kk[0] == "tuple" and pt is not None and vals and vals[0][0] is not None:
                return (vals[0][0], vals[0][1], taint, vals[0][3])
            if pt is not None:
                t = top_of(dest_ty)
                return (t[0], t[1], taint, False)
            return (None, None, taint, False)
        if k == "discr":
            v = self.read_place(st, rv[1])
            ety = ir.pl_ty(self.fn, rv[1])
            a = self.prog.adts.get(ety)
            if a and a.get("discrs"):
                ds = a["discrs"]
                return (min(ds), max(ds), v[2], False)
            return (0, 2**63 - 1 if dest_ty not in INT_RANGES else INT_RANGES[dest_ty][1], v[2] | USET, False)
        if k == "repeat":
            v = self.read_operand(st, rv[1])
            return (None, None, v[2], False)
        t = top_of(dest_ty)
        return t

    def _field_ty(self, adt, variant, name):
        a = self.prog.adts.get(adt)
        if not a:
            return None
        for v in a["variants"]:
            if v["name"] == variant or a["kind"] != "enum":
                for fname, fty in v["fields"]:
                    if fname == name:
                        return fty
        return None

    def _fit(self, v, fty):
        """normalise a value for storage into a field of type fty"""
        if fty is None or payload_ty(fty) is None:
            return (None, None, v[2], False)
        if v[0] is None or v[0] == "bot":
            lo, hi = INT_RANGES[payload_ty(fty)]
            return (lo, hi, v[2], False)
        return v

    def eval_bin(self, st, op, a, b, dest_ty):
        va = self.read_operand(st, a)
        vb = self.read_operand(st, b)
        taint = va[2] | vb[2]
        pt = payload_ty(dest_ty)
        if pt is None:
            return (None, None, taint, False)
        tlo, thi = INT_RANGES[pt]
        if va[0] is None or vb[0] is None or va[0] == "bot" or vb[0] == "bot":
            if op in ("Lt", "Le", "Gt", "Ge", "Eq", "Ne"):
                return (0, 1, taint, False)
            return (tlo, thi, taint, False)
        al, ah, bl, bh = va[0], va[1], vb[0], vb[1]
        checked = op.endswith("WithOverflow")
        base = op[:-12] if checked else op
        base = base.replace("Unchecked", "")
        if base in ("Add", "Mul", "Shl"):
            # the upper end of the result is only as good as the operand of unknown range (a run-time length, an iterator item)
            # that took part in it: remember that, so that a size derived from it is not presented as attacker-chosen
            for v_ in (va, vb):
                if U in v_[2] and not any(x.startswith("B:") for x in v_[2]) and v_[1] is not None and v_[1] >= 2 ** 31:
                    taint = taint | UR_SET
        inlen = False
        res = None
        if base == "Add":
            res = (al + bl, ah + bh)
            inlen = (va[3] and bl == bh and abs(bl) < 4096) or (vb[3] and al == ah and abs(al) < 4096) or (va[3] and vb[3])
        elif base == "Sub":
            res = (al - bh, ah - bl)
            inlen = va[3] and bl >= 0
        elif base == "Mul":
            c = [al * bl, al * bh, ah * bl, ah * bh]
            res = (min(c), max(c))
            inlen = (va[3] and bl >= 0 and bh <= 64) or (vb[3] and al >= 0 and ah <= 64)
        elif base == "Div":
            if bl > 0 and al >= 0:
                res = (al // bh, ah // bl)
                inlen = va[3]
            elif bl > 0:
                res = (min(al // bl, al // bh, -(-al // bl)), max(ah // bl, ah // bh))
                res = (min(res[0], -abs(al)), max(res[1], abs(ah)))
            else:
                res = (tlo, thi)
        elif base == "Rem":
            if bl > 0 and al >= 0:
                res = (0, min(ah, bh - 1))
                inlen = va[3] or vb[3]
            else:
                res = (tlo, thi)
        elif base == "BitAnd":
            if al >= 0 and bl >= 0:
                res = (0, min(ah, bh))
                inlen = va[3] or vb[3]
            elif al >= 0:
                res = (0, ah)
                inlen = va[3]
            elif bl >= 0:
                res = (0, bh)
                inlen = vb[3]
            else:
                res = (tlo, thi)
        elif base in ("BitOr", "BitXor"):
            if al >= 0 and bl >= 0:
                res = (max(al, bl) if base == "BitOr" else 0, bits_hi(max(ah, bh)))
            else:
                res = (tlo, thi)
        elif base == "Shl":
            if bl >= 0 and bh < 256 and al >= 0:
                res = (al << bl, ah << bh)
            else:
                res = (tlo, thi)
        elif base == "Shr":
            if bl >= 0 and al >= 0:
                res = (al >> min(bh, 200), ah >> bl)
                inlen = va[3]
            else:
                res = (tlo, thi)
        elif base in ("Lt", "Le", "Gt", "Ge", "Eq", "Ne"):
            r = self.decide_cmp(base, al, ah, bl, bh)
            if r is None:
                return (0, 1, taint, False)
            return (int(r), int(r), taint, False)
        elif base == "Cmp":
            return (-1, 1, taint, False)
        elif base == "Offset":
            return (None, None, taint, False)
        else:
            res = (tlo, thi)
        if checked:
            c = clip(res[0], res[1], pt)
            if c is None:
                # certainly overflows: keep type range (assert will flag)
                return (tlo, thi, taint, False)
            return (c[0], c[1], taint, inlen)
        w = wrap_or_top(res[0], res[1], pt)
        if w != res:
            inlen = False
        return (w[0], w[1], taint, inlen)

    @staticmethod
    def decide_cmp(op, al, ah, bl, bh):
        if op == "Lt":
            if ah < bl:
                return True
            if al >= bh:
                return False
        elif op == "Le":
            if ah <= bl:
                return True
            if al > bh:
                return False
        elif op == "Gt":
            if al > bh:
                return True
            if ah <= bl:
                return False
        elif op == "Ge":
            if al >= bh:
                return True
            if ah < bl:
                return False
        elif op == "Eq":
            if al == ah == bl == bh:
                return True
            if ah < bl or bh < al:
                return False
        elif op == "Ne":
            if ah < bl or bh < al:
                return True
            if al == ah == bl == bh:
                return False
        return None

    # ------------------------------------------------------------------ conditions
    def cond_of_operand(self, op, depth=0):
        """Symbolic condition for a boolean operand: returns a tree
             ('cmp', op, A, B) | ('not', c) | ('range', X, lo, hi) | ('bool', X) | None
           where A, B, X are operands (raw)"""
        if depth > 6 or op[0] == "k":
            return None
        p = op[1]
        if not isinstance(p, int):
            return None
        fn = self.fn
        sd = fn.single_def(p)
        if not sd:
            return ("bool", op)
        if sd[2] == "assign":
            rv = fn.blocks[sd[0]].stmts[sd[1]][2]
            if rv[0] == "bin" and rv[1] in ("Lt", "Le", "Gt", "Ge", "Eq", "Ne"):
                return ("cmp", rv[1], rv[2], rv[3])
            if rv[0] == "un" and rv[1] == "Not":
                c = self.cond_of_operand(rv[2], depth + 1)
                return ("not", c) if c else None
            if rv[0] == "use":
                return self.cond_of_operand(rv[1], depth + 1)
            return ("bool", op)
        if sd[2] == "call":
            site = fn.blocks[sd[0]].term[1]
            callee = site.get("callee", "")
            args = site["args"]
            if callee in ("std::ops::RangeInclusive::<Idx>::contains", "std::ops::Range::<Idx>::contains", "std::ops::RangeBounds::contains") and len(args) == 2:
                rng = self.range_const(args[0])
                if rng:
                    return ("range", args[1], rng[0], rng[1])
            if callee.startswith("std::cmp::impls::<impl std::cmp::PartialEq") and callee.endswith("::eq") and len(args) == 2:
                return ("cmp", "Eq", args[0], args[1])
            if callee.startswith("std::cmp::impls::<impl std::cmp::PartialEq") and callee.endswith("::ne") and len(args) == 2:
                return ("cmp", "Ne", args[0], args[1])
            if callee.startswith("std::cmp::impls::<impl std::cmp::PartialOrd") and len(args) == 2:
                m = {"lt": "Lt", "le": "Le", "gt": "Gt", "ge": "Ge"}.get(callee.rsplit("::", 1)[-1])
                if m:
                    return ("cmp", m, args[0], args[1])
            if callee.endswith("::is_power_of_two") and len(args) == 1 and self.is_pow2(args[0]):
                return ("const", True)
            if callee in ("std::vec::Vec::<T, A>::is_empty", "core::slice::<impl [T]>::is_empty"):
                return ("bool", op)
            return ("bool", op)
        return ("bool", op)

    def range_const(self, op):
        """decode a constant/locally built Range(Inclusive) operand -> (lo, hi) inclusive"""
        fn = self.fn
        k = op_const(op)
        if k is None:
            # a local built by RangeInclusive::new(a, b) or aggregate
            p = op[1]
            l = pl_local(p)
            sd = fn.single_def(l)
            if not sd:
                return None
            if sd[2] == "assign":
                rv = fn.blocks[sd[0]].stmts[sd[1]][2]
                if rv[0] == "ref":
                    return self.range_const(["c", rv[2]])
                if rv[0] == "use":
                    return self.range_const(rv[1])
                if rv[0] == "agg" and rv[1][0] == "adt" and rv[1][1] in ("std::ops::Range", "core::ops::Range"):
                    a = self._const_int(rv[2][0])
                    b = self._const_int(rv[2][1])
                    if a is not None and b is not None:
                        return (a, b - 1)
                return None
            if sd[2] == "call":
                site = fn.blocks[sd[0]].term[1]
                if site.get("callee") == "std::ops::RangeInclusive::<Idx>::new":
                    a = self._const_int(site["args"][0])
                    b = self._const_int(site["args"][1])
                    if a is not None and b is not None:
                        return (a, b)
            return None
        if "promoted" in k:
            pid = "%s::promoted[%d]" % (k["def"], k["promoted"])
            pf = self.prog.fns.get(pid)
            if not pf:
                return None
            # find the RangeInclusive aggregate / call in the promoted body
            for b in pf.blocks:
                for s in b.stmts:
                    if s[0] == "=" and s[2][0] == "agg" and s[2][1][0] == "adt":
                        nm = s[2][1][1]
                        ops = s[2][2]
                        if nm.endswith("RangeInclusive") and len(ops) >= 2:
                            a, c = op_const(ops[0]), op_const(ops[1])
                            if a and c and isinstance(a.get("v"), int) and isinstance(c.get("v"), int):
                                return (a["v"], c["v"])
                        if nm.endswith("::Range") and len(ops) == 2:
                            a, c = op_const(ops[0]), op_const(ops[1])
                            if a and c and isinstance(a.get("v"), int) and isinstance(c.get("v"), int):
                                return (a["v"], c["v"] - 1)
                if b.term[0] == "call" and b.term[1].get("callee") == "std::ops::RangeInclusive::<Idx>::new":
                    args = b.term[1]["args"]
                    a, c = op_const(args[0]), op_const(args[1])
                    if a and c and isinstance(a.get("v"), int) and isinstance(c.get("v"), int):
                        return (a["v"], c["v"])
        v = k.get("v")
        if isinstance(v, dict) and "start" in v and "end" in v and isinstance(v["start"], int):
            if "exhausted" in v:
                return (v["start"], v["end"])
            return (v["start"], v["end"] - 1)
        return None

    def _const_int(self, op):
        k = op_const(op)
        if k and isinstance(k.get("v"), int) and not isinstance(k.get("v"), bool):
            return k["v"]
        if k is None:
            l = self.alias_of(op)
            if l is not None:
                sd = self.fn.single_def(l)
                if sd and sd[2] == "assign":
                    rv = self.fn.blocks[sd[0]].stmts[sd[1]][2]
                    if rv[0] == "use":
                        return self._const_int(rv[1])
                    if rv[0] == "cast":
                        return self._const_int(rv[2])
        return None

    def refine_operand(self, st, op, lo, hi, depth=0, inlen=None):
        """Constrain the value of `op` to [lo,hi] (None = unbounded): updates the operand's local and what it
        was copied / cast / offset from. Returns False if the state became infeasible."""
        if op[0] == "k" or depth > 6:
            v = self.read_operand(st, op)
            if v[0] is None or v[0] == "bot":
                return True
            if (lo is not None and v[1] < lo) or (hi is not None and v[0] > hi):
                return False
            return True
        p = op[1]
        fn = self.fn
        if not isinstance(p, int):
            # (.0) of a checked-arithmetic tuple / carrier payload: refine the carrier local
            if len(p[1]) == 1 and p[1][0][0] == "." and p[1][0][1] == 0 and payload_ty(fn.local_ty(p[0])) is not None \
                    and not fn.local_ty(p[0]).startswith("&"):
                return self.refine_operand(st, ["c", p[0]], lo, hi, depth + 1, inlen)
            # deref of a shared reference to a local: refine the referent
            if len(p[1]) == 1 and p[1][0][0] == "*":
                l = p[0]
                ok = self._refine_local(st, l, lo, hi, inlen)
                if not ok:
                    return False
                sd = fn.single_def(l)
                if sd and sd[2] == "assign":
                    rv = fn.blocks[sd[0]].stmts[sd[1]][2]
                    if rv[0] == "ref" and rv[1] != "mut" and isinstance(rv[2], int):
                        return self.refine_operand(st, ["c", rv[2]], lo, hi, depth + 1, inlen)
                    if rv[0] == "use" and op_place(rv[1]) is not None and isinstance(op_place(rv[1]), int):
                        return self.refine_operand(st, ["c", [op_place(rv[1]), [["*"]], p[2]]], lo, hi, depth + 1, inlen)
            return True
        l = p
        if not self._refine_local(st, l, lo, hi, inlen):
            return False
        sd = fn.single_def(l)
        if sd and sd[2] == "call" and hi is not None:
            site = fn.blocks[sd[0]].term[1]
            cal = site.get("callee") or ""
            if cal.endswith("::div_ceil") and len(site["args"]) == 2:
                c = self._const_int(site["args"][1])
                if c is not None and c > 0 and self._stable_between(op_place(site["args"][0]), sd):
                    return self.refine_operand(st, site["args"][0], None, hi * c, depth + 1, inlen)
            return True
        if not sd or sd[2] != "assign":
            return True
        s = fn.blocks[sd[0]].stmts[sd[1]]
        rv = s[2]
        if rv[0] == "use":
            src = rv[1]
            sp = op_place(src)
            if sp is not None and self._stable_between(sp, sd):
                return self.refine_operand(st, src, lo, hi, depth + 1, inlen)
        elif rv[0] == "ref" and rv[1] != "mut" and isinstance(rv[2], int):
            return self.refine_operand(st, ["c", rv[2]], lo, hi, depth + 1, inlen)
        elif rv[0] == "ref" and rv[1] != "mut" and not isinstance(rv[2], int) and len(rv[2][1]) == 1 and rv[2][1][0][0] == "*":
            # reborrow &*_x : same payload as _x
            return self.refine_operand(st, ["c", rv[2][0]], lo, hi, depth + 1, inlen)
        elif rv[0] == "cast" and rv[1] == "IntToInt":
            src = rv[2]
            fr, to = rv[3], rv[4]
            if fr in INT_RANGES and to in INT_RANGES:
                sv = self.read_operand(st, src)
                if sv[0] is not None and sv[0] != "bot":
                    flo, fhi = INT_RANGES[fr]
                    tlo, thi = INT_RANGES[to]
                    # value-preserving when the source's current interval fits in the target type
                    if sv[0] >= tlo and sv[1] <= thi and self._stable_between(op_place(src), sd):
                        return self.refine_operand(st, src, lo, hi, depth + 1, inlen)
        elif rv[0] == "bin":
            opn = rv[1].replace("WithOverflow", "")
            a, b = rv[2], rv[3]
            ca, cb = self._const_int(a), self._const_int(b)
            if opn == "Add" and cb is not None and self._stable_between(op_place(a), sd):
                return self.refine_operand(st, a, None if lo is None else lo - cb, None if hi is None else hi - cb, depth + 1, inlen)
            if opn == "Add" and ca is not None and self._stable_between(op_place(b), sd):
                return self.refine_operand(st, b, None if lo is None else lo - ca, None if hi is None else hi - ca, depth + 1, inlen)
            if opn == "Sub" and cb is not None and self._stable_between(op_place(a), sd):
                return self.refine_operand(st, a, None if lo is None else lo + cb, None if hi is None else hi + cb, depth + 1, inlen)
            if opn == "Mul" and cb is not None and cb > 0 and self._stable_between(op_place(a), sd):
                return self.refine_operand(st, a, None if lo is None else -((-lo) // cb), None if hi is None else hi // cb, depth + 1, inlen)
            if opn == "Mul" and ca is None and cb is None and hi is not None and rv[1].endswith("WithOverflow"):
                # x * y <= hi with y >= 1  =>  x <= hi  (and symmetrically)
                va_, vb_ = self.read_operand(st, a), self.read_operand(st, b)
                ok = True
                if vb_[0] is not None and vb_[0] != "bot" and vb_[0] >= 1 and va_[0] is not None and va_[0] != "bot" and va_[0] >= 0 and self._stable_between(op_place(a), sd):
                    ok = self.refine_operand(st, a, None, hi, depth + 1, inlen)
                if ok and va_[0] is not None and va_[0] != "bot" and va_[0] >= 1 and vb_[0] is not None and vb_[0] != "bot" and vb_[0] >= 0 and self._stable_between(op_place(b), sd):
                    ok = self.refine_operand(st, b, None, hi, depth + 1, inlen)
                return ok
        # tuple field .0 of checked op: `_6 = move (_7.0)`
        return True

    def _stable_between(self, place, sd):
        """the source place is a local that is not reassigned (single definition, not escaped)"""
        if place is None:
            return False
        if not isinstance(place, int):
            # (_7.0) of a checked-op tuple
            if len(place[1]) == 1 and place[1][0][0] == "." and self.fn.single_def(place[0]):
                return True
            return False
        if place in self.escaped:
            return False
        d = self.fn.defs().get(place, [])
        if len(d) == 1:
            return True
        # mutable local.  When the refinement is applied at a known branch block: stable if no (re)definition lies on a path from
        # the copy to that branch that does not execute the copy again (a loop that redefines the local and comes back to the
        # copy re-reads it, so the refinement is still about the current value)
        cb, ci = sd[0], sd[1]
        ub = getattr(self, "_use_block", None)
        if ub is not None and ci != "t":
            def defs_in(bb, lo, hi):
                """a definition of `place` in block bb at an index in (lo, hi) ('t' = terminator = beyond all statements)"""
                for (db, di, _k) in d:
                    if db != bb:
                        continue
                    pos = 10 ** 9 if di == "t" else di
                    if lo < pos < hi:
                        return True
                return False
            if ub == cb:
                return not defs_in(cb, ci, 10 ** 9)
            if defs_in(cb, ci, 10 ** 9 + 1):
                return False
            # blocks on paths cb -> ub that do not re-enter cb
            fwd = set()
            stack = [x for x in self.fn.succs(cb) if x != cb]
            while stack:
                x = stack.pop()
                if x in fwd:
                    continue
                fwd.add(x)
                if x == ub:
                    continue
                stack.extend(y for y in self.fn.succs(x) if y != cb)
            if ub not in fwd:
                return False
            back = set()
            stack = [ub]
            while stack:
                x = stack.pop()
                if x in back:
                    continue
                back.add(x)
                stack.extend(y for y in self.fn.preds(x) if y != cb and y in fwd)
            for x in fwd & back:
                if x == ub:
                    if defs_in(x, -1, 10 ** 9):
                        return False
                elif defs_in(x, -1, 10 ** 9 + 1):
                    return False
            return True
        reach = self._reach_from(cb)
        for (db, di, _k) in d:
            if db == -1:
                continue
            if db == cb:
                if cb in reach:          # block is in a loop with itself
                    return False
                if di == "t" or (ci != "t" and di > ci):
                    return False
                continue
            if db in reach:
                return False
        return True

    def _reach_from(self, b):
        """blocks reachable from the successors of b (b itself only if it lies on a cycle)"""
        cache = self.__dict__.setdefault("_reach_cache", {})
        r = cache.get(b)
        if r is None:
            r = set()
            st = list(self.fn.succs(b))
            while st:
                x = st.pop()
                if x in r:
                    continue
                r.add(x)
                st.extend(self.fn.succs(x))
            cache[b] = r
        return r

    def _refine_local(self, st, l, lo, hi, inlen=None):
        ty = self.fn.local_ty(l)
        if payload_ty(ty) is None:
            return True
        if l in self.escaped:
            return True
        v = self.get(st, l)
        if v[0] is None or v[0] == "bot":
            return True
        nlo = v[0] if lo is None else max(v[0], lo)
        nhi = v[1] if hi is None else min(v[1], hi)
        if nlo > nhi:
            return False
        st[l] = (nlo, nhi, v[2], v[3] or bool(inlen))
        return True

    def rel_root(self, op, depth=0):
        """operand -> (root_local, transforms) where transforms is a tuple of monotone non-decreasing maps applied to
        the root: ('max', c) ('min', c) ('add', c) ('widen',).  Root locals are single-definition, non-escaped."""
        if op[0] == "k" or depth > 8:
            return None
        p = op[1]
        fn = self.fn
        if not isinstance(p, int):
            if len(p[1]) == 1 and p[1][0][0] == "*":
                return self.rel_root(["c", p[0]], depth + 1)
            if len(p[1]) == 1 and p[1][0][0] == "." and p[1][0][1] == 0 and payload_ty(fn.local_ty(p[0])) is not None:
                return self.rel_root(["c", p[0]], depth + 1)
            return None
        if payload_ty(fn.local_ty(p)) is None or p in self.escaped:
            return None
        d = fn.defs().get(p, [])
        if len(d) != 1:
            return None
        sd = d[0]
        if sd[2] == "arg":
            return (p, ())
        if sd[2] == "assign":
            rv = fn.blocks[sd[0]].stmts[sd[1]][2]
            if rv[0] == "use":
                r = self.rel_root(rv[1], depth + 1)
                return r if r is not None else (p, ())
            if rv[0] == "ref" and rv[1] != "mut":
                r = self.rel_root(["c", rv[2]], depth + 1)
                return r if r is not None else (p, ())
            if rv[0] == "cast" and rv[1] == "IntToInt" and rv[3] in INT_RANGES and rv[4] in INT_RANGES:
                flo, fhi = INT_RANGES[rv[3]]
                tlo, thi = INT_RANGES[rv[4]]
                if flo >= tlo and fhi <= thi:
                    r = self.rel_root(rv[2], depth + 1)
                    if r is not None:
                        return r
                return (p, ())
            if rv[0] == "bin":
                opn = rv[1].replace("WithOverflow", "")
                ca, cb = self._const_int(rv[2]), self._const_int(rv[3])
                if opn == "Add" and cb is not None and rv[1].endswith("WithOverflow"):
                    r = self.rel_root(rv[2], depth + 1)
                    if r is not None:
                        return (r[0], r[1] + (("add", cb),))
                if opn == "Sub" and cb is not None and rv[1].endswith("WithOverflow"):
                    r = self.rel_root(rv[2], depth + 1)
                    if r is not None:
                        return (r[0], r[1] + (("add", -cb),))
            return (p, ())
        if sd[2] == "call":
            site = fn.blocks[sd[0]].term[1]
            callee = site.get("callee") or ""
            name = callee.rsplit("::", 1)[-1]
            args = site["args"]
            if name in ("max", "min") and len(args) == 2 and callee.startswith(("std::cmp::", "core::cmp::")):
                c1 = self._const_int(args[1])
                c0 = self._const_int(args[0])
                if c1 is not None:
                    r = self.rel_root(args[0], depth + 1)
                    if r is not None:
                        return (r[0], r[1] + ((name, c1),))
                if c0 is not None:
                    r = self.rel_root(args[1], depth + 1)
                    if r is not None:
                        return (r[0], r[1] + ((name, c0),))
            if callee in ("std::convert::Into::into",) or (callee.endswith("::from") and len(args) == 1) or name == "clone":
                r = self.rel_root(args[0], depth + 1)
                if r is not None:
                    return r
            return (p, ())
        return (p, ())

    def is_pow2(self, op, depth=0):
        """operand is certainly a power of two: constant 2^n, `1 << x`, pow2 * pow2 constant, or a parameter that is
        a power of two at every call site"""
        if depth > 6:
            return False
        if op[0] == "k":
            v = op[1].get("v")
            return isinstance(v, int) and not isinstance(v, bool) and v > 0 and (v & (v - 1)) == 0
        p = op[1]
        fn = self.fn
        if not isinstance(p, int):
            if len(p[1]) == 1 and p[1][0][0] == "." and p[1][0][1] == 0:
                return self.is_pow2(["c", p[0]], depth + 1)
            return False
        d = fn.defs().get(p, [])
        if len(d) != 1 or p in self.escaped:
            return False
        sd = d[0]
        if sd[2] == "arg":
            return p in (self.an.param_pow2.get(fn.id) or ())
        if sd[2] == "assign":
            rv = fn.blocks[sd[0]].stmts[sd[1]][2]
            if rv[0] == "use":
                return self.is_pow2(rv[1], depth + 1)
            if rv[0] == "cast" and rv[1] == "IntToInt":
                return self.is_pow2(rv[2], depth + 1)
            if rv[0] == "bin":
                opn = rv[1].replace("WithOverflow", "")
                if opn == "Shl" and self._const_int(rv[2]) == 1:
                    return True
                if opn == "Mul":
                    return self.is_pow2(rv[2], depth + 1) and self.is_pow2(rv[3], depth + 1)
        return False

    def _copy_root(self, op):
        """the local an operand is a plain copy of (through single-definition `_t = copy x` temporaries)"""
        pl = op_place(op)
        for _ in range(6):
            if pl is None or not isinstance(pl, int):
                return pl if isinstance(pl, int) else None
            d = self.fn.single_def(pl)
            if d is None or d[2] != "assign":
                return pl
            rv = self.fn.blocks[d[0]].stmts[d[1]][2]
            if rv[0] == "use" and op_place(rv[1]) is not None and isinstance(op_place(rv[1]), int):
                pl = op_place(rv[1])
                continue
            return pl
        return pl

    def _derived_below(self, b, a, depth=0):
        """is the unsigned value b *computed from* a by an operation that cannot exceed it -- `a % k`, `a & m`, `a >> k`, `a / k`,
        `a - x` (itself overflow-checked) -- so that `a - b` cannot wrap?  (single-definition locals, copies looked through)"""
        ra = self._copy_root(a)
        rb = self._copy_root(b)
        if ra is None or rb is None or depth > 3:
            return False
        d = self.fn.single_def(rb)
        if d is None or d[2] != "assign":
            return False
        rv = self.fn.blocks[d[0]].stmts[d[1]][2]
        if rv[0] == "use":
            # the `.0` of a checked operation's (value, overflowed) pair
            pl = op_place(rv[1])
            if pl is not None and not isinstance(pl, int) and len(pl_proj(pl)) == 1 and pl_proj(pl)[0][0] == ".":
                d2 = self.fn.single_def(pl_local(pl))
                if d2 is not None and d2[2] == "assign":
                    rv = self.fn.blocks[d2[0]].stmts[d2[1]][2]
        if rv[0] == "bin":
            opn = rv[1].replace("WithOverflow", "").replace("Unchecked", "")
            if opn in ("Rem", "BitAnd", "Shr", "Div", "Sub") and self._copy_root(rv[2]) == ra:
                return True
            if opn == "BitAnd" and self._copy_root(rv[3]) == ra:
                return True
        return False

    def prove_le(self, st, a, b):
        """is `a <= b` certain at this point? (intervals, or a recorded fact root(a) <= root(b) under the same
        monotone transform chain)"""
        va, vb = self.read_operand(st, a), self.read_operand(st, b)
        if va[0] is not None and vb[0] is not None and va[0] != "bot" and vb[0] != "bot" and va[1] <= vb[0]:
            return True
        ra, rb = self.rel_root(a), self.rel_root(b)
        if ra is None or rb is None:
            return False
        if ra[1] != rb[1]:
            return False
        if ra[0] == rb[0]:
            return True
        facts = st.get(REL) or ()
        return (ra[0], rb[0]) in facts

    def apply_cond(self, st, cond, truth):
        """returns refined copy of st or None if infeasible"""
        if cond is None:
            return st
        k = cond[0]
        if k == "not":
            return self.apply_cond(st, cond[1], not truth)
        if k == "const":
            return st if truth == cond[1] else None
        st = dict(st)
        if k == "bool":
            ok = self.refine_operand(st, cond[1], 1 if truth else 0, 1 if truth else 0)
            return st if ok else None
        if k == "range":
            x, lo, hi = cond[1], cond[2], cond[3]
            if truth:
                ok = self.refine_operand(st, x, lo, hi)
                return st if ok else None
            # outside [lo,hi]: only representable when at a type boundary
            v = self.read_operand(st, x)
            if v[0] is None or v[0] == "bot":
                return st
            if v[0] >= lo and v[1] <= hi:
                return None
            if v[0] >= lo:
                ok = self.refine_operand(st, x, hi + 1, None)
                return st if ok else None
            if v[1] <= hi:
                ok = self.refine_operand(st, x, None, lo - 1)
                return st if ok else None
            return st
        if k == "cmp":
            op, a, b = cond[1], cond[2], cond[3]
            if not truth:
                op = {"Lt": "Ge", "Le": "Gt", "Gt": "Le", "Ge": "Lt", "Eq": "Ne", "Ne": "Eq"}[op]
            va = self.read_operand(st, a)
            vb = self.read_operand(st, b)
            if va[0] is None or vb[0] is None or va[0] == "bot" or vb[0] == "bot":
                return st
            al, ah, bl, bh = va[0], va[1], vb[0], vb[1]
            d = self.decide_cmp(op, al, ah, bl, bh)
            if d is False:
                return None
            # relational facts (a <= b between two non-constant values)
            if a[0] != "k" and b[0] != "k":
                if op in ("Gt",) and self.prove_le(st, a, b):
                    return None
                if op in ("Lt",) and self.prove_le(st, b, a):
                    return None
                ra, rb = self.rel_root(a), self.rel_root(b)
                if ra is not None and rb is not None and ra[1] == () and rb[1] == () and ra[0] != rb[0]:
                    facts = set(st.get(REL) or ())
                    if op in ("Lt", "Le", "Eq"):
                        facts.add((ra[0], rb[0]))
                    if op in ("Gt", "Ge", "Eq"):
                        facts.add((rb[0], ra[0]))
                    if facts:
                        st[REL] = frozenset(facts)
            ok = True
            if op == "Lt":
                ok = self.refine_operand(st, a, None, bh - 1, inlen=vb[3]) and self.refine_operand(st, b, al + 1, None)
            elif op == "Le":
                ok = self.refine_operand(st, a, None, bh, inlen=vb[3]) and self.refine_operand(st, b, al, None)
            elif op == "Gt":
                ok = self.refine_operand(st, a, bl + 1, None) and self.refine_operand(st, b, None, ah - 1, inlen=va[3])
            elif op == "Ge":
                ok = self.refine_operand(st, a, bl, None) and self.refine_operand(st, b, None, ah, inlen=va[3])
            elif op == "Eq":
                lo, hi = max(al, bl), min(ah, bh)
                ok = self.refine_operand(st, a, lo, hi, inlen=vb[3]) and self.refine_operand(st, b, lo, hi, inlen=va[3])
            elif op == "Ne":
                if bl == bh:
                    if al == bl:
                        ok = self.refine_operand(st, a, al + 1, None)
                    elif ah == bl:
                        ok = self.refine_operand(st, a, None, ah - 1)
                if ok and al == ah:
                    if bl == al:
                        ok = self.refine_operand(st, b, bl + 1, None)
                    elif bh == al:
                        ok = self.refine_operand(st, b, None, bh - 1)
            return st if ok else None
        return st

    # ------------------------------------------------------------------ main loop
    def run(self):
        fn = self.fn
        an = self.an
        if fn.kind == "closure" and fn.id not in an.closure_built:
            # a closure body runs only after the closure was built: until a construction site (inside the analysed scope) has been
            # seen, its captured variables are unknown and analysing it would only smear type-wide ranges into its callees
            if an._closure_sites is None:
                an._closure_sites = {}
                for g in self.prog.fns.values():
                    if g.promoted or (an.scope is not None and g.id not in an.scope):
                        continue
                    for bb in g.blocks:
                        for st_ in bb.stmts:
                            if st_[0] == "=" and st_[2][0] == "agg" and st_[2][1][0] == "closure":
                                an._closure_sites.setdefault(st_[2][1][1], set()).add(g.id)
            if an._closure_sites.get(fn.id):
                return
        an.stats["fn_passes"] += 1
        init = {}
        pin = an.param_in.get(fn.id, {})
        for i in range(1, fn.argc + 1):
            v = pin.get(i)
            if v is None:
                if fn.argc > 0 and not pin:
                    return
                # a parameter no analysed call site supplies (closure arguments handed over by library code such as fold): its
                # value is unknown, which is not the same as "derived from constants only"
                t_ = top_of(fn.local_ty(i))
                init[i] = (t_[0], t_[1], USET, False)
                continue
            init[i] = v
        prel = an.param_rel.get(fn.id)
        if prel:
            init[REL] = frozenset(prel)
        self.cond_facts = {}   # local (Result carrier) -> list of (arg_local_operand, lo, hi) valid when Ok
        nb = len(fn.blocks)
        IN = [None] * nb
        self._IN = IN
        IN[0] = init
        visits = [0] * nb
        order = fn.rpo()
        pos = {b: i for i, b in enumerate(order)}
        work = set([0])
        loop_heads = set()
        for b in order:
            for s in fn.succs(b):
                if s in pos and pos[s] <= pos[b]:
                    loop_heads.add(s)
        self.ret_val = None
        self.post_params = None
        self.post_ok_params = None
        self._obl = {}
        # blocks that only lead to the return (no assignments; goto/drop chains): a state flowing into one is a return state of
        # its own path, so Ok-ness and the facts about the parameters are not blurred by the join at the shared return block
        ret_like = set()
        grew = True
        while grew:
            grew = False
            for blk in fn.blocks:
                if blk.idx in ret_like or blk.cleanup or any(s_[0] in ("=", "setdiscr") for s_ in blk.stmts):
                    continue
                t_ = blk.term
                if t_[0] == "return" or (t_[0] == "goto" and t_[1] in ret_like) or (t_[0] == "drop" and t_[2] in ret_like):
                    ret_like.add(blk.idx)
                    grew = True
        ret_like.discard(0)
        iters = 0
        while work:
            iters += 1
            if iters > 20000:
                break
            b = min(work, key=lambda x: pos.get(x, 1 << 30))
            work.discard(b)
            st = IN[b]
            if st is None:
                continue
            self.read_ord_block = b
            outs = self.transfer_block(b, dict(st))
            for succ, sst in outs:
                if sst is None:
                    continue
                if succ in ret_like:
                    self.on_return(sst)
                    if IN[succ] is None:
                        IN[succ] = {}       # reached (statistics only)
                    continue
                old = IN[succ]
                if old is None:
                    IN[succ] = sst
                    work.add(succ)
                    continue
                new = self.join_states(old, sst)
                if new != old:
                    visits[succ] += 1
                    if succ in loop_heads and visits[succ] > WIDEN_AFTER:
                        new = self.widen(old, new)
                    if new != old:
                        IN[succ] = new
                        work.add(succ)
        # publish summaries
        if self.ret_val is not None:
            an.join_ret(fn.id, self.ret_val, fn.local_ty(0))
        if self.post_params is not None:
            old = an.post.get(fn.id)
            if old != self.post_params:
                an.post[fn.id] = self.post_params
                an.changed = True
                for c in an.prog.callers().get(fn.id, ()):
                    an.dirty.add(c)
        if self.post_ok_params is not None:
            old = an.post_ok.get(fn.id)
            if old != self.post_ok_params:
                an.post_ok[fn.id] = self.post_ok_params
                an.changed = True
                for c in an.prog.callers().get(fn.id, ()):
                    an.dirty.add(c)
        if an.report:
            an.obligations.extend(self._obl.values())
            an.stats.setdefault("blocks_reached", 0)
            an.stats["blocks_reached"] += sum(1 for x in IN if x is not None)

    def join_states(self, a, b):
        out = {}
        ra, rb = a.get(REL), b.get(REL)
        if ra and rb:
            r = ra & rb
            if r:
                out[REL] = r
        for l in set(a) | set(b):
            if l == REL:
                continue
            va = a.get(l)
            vb = b.get(l)
            if va is None:
                va = self.default(l)
            if vb is None:
                vb = self.default(l)
            if va[0] == "bot":
                v = vb if vb[0] != "bot" else va
                v = (v[0], v[1], va[2] | vb[2], v[3])
            elif vb[0] == "bot":
                v = (va[0], va[1], va[2] | vb[2], va[3])
            else:
                v = vjoin(va, vb)
            if v != self.default(l):
                out[l] = v
        return out

    def widen(self, old, new):
        out = {}
        for l, v in new.items():
            if l == REL:
                out[l] = v
                continue
            o = old.get(l)
            if o is None:
                o = self.default(l)
            if v[0] is None or v[0] == "bot" or o[0] is None or o[0] == "bot":
                out[l] = v
                continue
            d = self.default(l)
            lo = v[0] if v[0] >= o[0] else d[0]
            hi = v[1] if v[1] <= o[1] else d[1]
            nv = (lo, hi, v[2] | WSET, False) if (lo, hi) != (v[0], v[1]) else v
            if nv != d:
                out[l] = nv
        return out

    # ------------------------------------------------------------------ block transfer
    def transfer_block(self, b, st):
        fn = self.fn
        blk = fn.blocks[b]
        for s in blk.stmts:
            if s[0] == "=":
                self.assign(st, s[1], s[2], s[3])
        t = blk.term
        k = t[0]
        if k == "goto":
            return [(t[1], st)]
        if k == "drop":
            return [(t[2], st)]
        if k == "return":
            self.on_return(st)
            return []
        if k == "assert":
            return self.on_assert(b, st, t)
        if k == "switch":
            return self.on_switch(b, st, t)
        if k == "call":
            return self.on_call(b, st, t[1])
        return []

    def assign(self, st, place, rv, span):
        fn = self.fn
        if isinstance(place, int):
            dty = fn.local_ty(place)
            v = self.eval_rvalue(st, rv, dty)
            if place in self.escaped and payload_ty(dty) is not None:
                t = top_of(dty)
                old = st.get(place)
                v = (t[0], t[1], v[2] | USET | (old[2] if old else EMPTY), False)
            if v == self.default(place):
                st.pop(place, None)
            else:
                st[place] = v
            if dty.startswith("("):
                self._clear_tuple(st, place)
                if rv[0] == "agg" and rv[1][0] == "tuple":
                    for i_, o_ in enumerate(rv[2]):
                        if payload_ty(tuple_elem_ty(dty, i_) or "") is not None:
                            cv = self.read_operand(st, o_)
                            if cv[0] is not None and cv[0] != "bot":
                                st[("T", place, i_)] = cv
                elif rv[0] == "use" and isinstance(op_place(rv[1]), int):
                    src_ = op_place(rv[1])
                    for k_ in [k for k in st if isinstance(k, tuple) and len(k) == 3 and k[0] == "T" and k[1] == src_]:
                        st[("T", place, k_[2])] = st[k_]
            if place == 0:
                st.pop(-1, None)
                if rv[0] == "agg" and rv[1][0] == "adt":
                    if rv[1][2] in ("Ok", "Some"):
                        st[-1] = (1, 1, EMPTY, False)
                    elif rv[1][2] in ("Err", "None"):
                        st[-1] = (0, 0, EMPTY, False)
            # conditional facts travel with moves of Result carriers
            if rv[0] == "use" and op_place(rv[1]) is not None and isinstance(op_place(rv[1]), int):
                src = op_place(rv[1])
                if src in self.cond_facts:
                    self.cond_facts[place] = self.cond_facts[src]
            return
        base = place[0]
        projs = place[1]
        dty = place[2]
        v = self.eval_rvalue(st, rv, dty)
        last = projs[-1]
        if last[0] == "." and last[3] and last[3] in self.prog.adts:
            self.an.join_field((last[3], last[2]), self._fit(v, last[4]), last[4])
        # weak taint update of the base local and what it points into
        if v[2]:
            for r in self.roots(base):
                old = self.get(st, r)
                if not (v[2] <= old[2]):
                    st[r] = (old[0], old[1], old[2] | v[2], old[3])
            # store through a reference that came from a field borrow: taint the field
            self._taint_fields_behind(base, v[2])
        # strong update for (_x.0)/( _x.1) of tuple locals is ignored (carrier only tracks .0 for checked ops)
        if len(projs) == 1 and last[0] == "*" and fn.local_ty(base).startswith("&mut"):
            # write through &mut to a numeric local: havoc'd already via `escaped`
            pass

    def _taint_fields_behind(self, base, taint):
        """if `base` (a &mut reference/iterator item) derives from a borrow of an ADT field, taint that field"""
        fn = self.fn
        for r in self.roots(base):
            for d in fn.defs().get(r, []):
                if d[2] == "assign":
                    s = fn.blocks[d[0]].stmts[d[1]]
                    rv = s[2]
                    if rv[0] == "ref" and not isinstance(rv[2], int):
                        for e in rv[2][1]:
                            if e[0] == "." and e[3] and e[3] in self.prog.adts:
                                self.an.join_field((e[3], e[2]), (None, None, taint, False), e[4])

    def on_return(self, st):
        fn = self.fn
        rty = fn.local_ty(0)
        if rty.startswith("("):
            comps = {}
            i_ = 0
            while tuple_elem_ty(rty, i_) is not None:
                if payload_ty(tuple_elem_ty(rty, i_)) is not None:
                    comps[i_] = st.get(("T", 0, i_)) or self.default(("T", 0, i_))
                i_ += 1
            self.an.join_ret_tuple(fn.id, comps, rty)
        v = self.get(st, 0)
        if v[0] == "bot":
            # Err(..)/None: contributes taint only
            self.ret_val = vjoin(self.ret_val, None) if False else (self.ret_val if self.ret_val is not None else None)
            tv = (v[0], v[1], v[2], False)
            if self.ret_val is None:
                self.ret_val = ("bot", "bot", v[2], False)
            else:
                self.ret_val = (self.ret_val[0], self.ret_val[1], self.ret_val[2] | v[2], self.ret_val[3])
            is_ok = False
        else:
            if self.ret_val is None or self.ret_val[0] == "bot":
                t = self.ret_val[2] if self.ret_val else EMPTY
                self.ret_val = (v[0], v[1], v[2] | t, v[3])
            else:
                self.ret_val = vjoin(self.ret_val, v)
            is_ok = True
        # post-conditions on parameters
        facts = {}
        for i in range(1, fn.argc + 1):
            if payload_ty(fn.local_ty(i)) is None:
                continue
            if len(fn.defs().get(i, [])) != 1 or i in self.escaped:
                continue
            pv = self.get(st, i)
            if pv[0] is None or pv[0] == "bot":
                continue
            facts[i] = (pv[0], pv[1])
        # all-returns post
        if self.post_params is None:
            self.post_params = dict(facts)
        else:
            for i in list(self.post_params):
                if i in facts:
                    a, c = self.post_params[i], facts[i]
                    self.post_params[i] = (min(a[0], c[0]), max(a[1], c[1]))
                else:
                    del self.post_params[i]
        # Ok-returns post: only for Result/Option returning fns; decide Ok-ness from the returned aggregate
        okness = self._return_okness(st)
        if okness is not False:
            if self.post_ok_params is None:
                self.post_ok_params = dict(facts)
            else:
                for i in list(self.post_ok_params):
                    if i in facts:
                        a, c = self.post_ok_params[i], facts[i]
                        self.post_ok_params[i] = (min(a[0], c[0]), max(a[1], c[1]))
                    else:
                        del self.post_ok_params[i]

    def _return_okness(self, st):
        """True / False / None(unknown) : does this return path return Ok(..)/Some(..)?  Tracked by a
        pseudo-local -1 in the state set when _0 is assigned."""
        v = st.get(-1)
        if v is None:
            return None
        return v[0] == 1

    # ------------------------------------------------------------------ obligations
    def oblig(self, b, kind, detail, status, operands, taint, span, label, reason=""):
        if not self.an.report:
            return
        key = (b, kind, detail, label)
        o = Obligation(self.fn.id, b, kind, detail, status, operands, taint, span, label, reason)
        old = self._obl.get(key)
        if old is None:
            self._obl[key] = o
        else:
            # a block is visited several times during fixpoint; keep the worst verdict and widest operands
            rank = {"safe": 0, "undecided": 1, "unsafe": 2}
            if rank[status] >= rank[old.status]:
                o.taint = old.taint | taint
                self._obl[key] = o
            else:
                old.taint = old.taint | taint

    def op_label(self, op, depth=0):
        """stable, line-free label of an operand: variable name, field path, or constant"""
        if op[0] == "k":
            k = op[1]
            if "v" in k and not isinstance(k["v"], (dict, list)):
                return str(k["v"])
            return k.get("def", "const")
        p = op[1]
        fn = self.fn
        if isinstance(p, int):
            n = fn.local_name(p)
            if n:
                return n
            if depth > 5:
                return "tmp"
            sd = fn.single_def(p)
            if sd and sd[2] == "assign":
                rv = fn.blocks[sd[0]].stmts[sd[1]][2]
                if rv[0] == "use":
                    return self.op_label(rv[1], depth + 1)
                if rv[0] == "cast":
                    return self.op_label(rv[2], depth + 1)
                if rv[0] == "bin":
                    return "(%s %s %s)" % (self.op_label(rv[2], depth + 1), rv[1].replace("WithOverflow", ""), self.op_label(rv[3], depth + 1))
                if rv[0] == "ref":
                    return self.op_label(["c", rv[2]], depth + 1)
                if rv[0] == "un":
                    return "%s(%s)" % (rv[1], self.op_label(rv[2], depth + 1))
            if sd and sd[2] == "call":
                site = fn.blocks[sd[0]].term[1]
                c = site.get("callee", "indirect").rsplit("::", 1)[-1]
                return "%s(%s)" % (c, ",".join(self.op_label(a, depth + 1) for a in site["args"][:3]))
            return "tmp"
        s = self.op_label(["c", p[0]], depth + 1)
        for e in p[1]:
            if e[0] == ".":
                s += "." + e[2]
            elif e[0] == "[]":
                s += "[%s]" % self.op_label(["c", e[1]], depth + 1)
            elif e[0] == "[c]":
                s += "[%d]" % e[1]
        return s

    def on_assert(self, b, st, t):
        fn = self.fn
        cond, expected, kind, ops, target, span = t[1], t[2], t[3], t[4], t[5], t[6]
        vals = [self.read_operand(st, o) for o in ops]
        taint = EMPTY
        for v in vals:
            taint = taint | v[2]
        status = "undecided"
        okind = "overflow"
        if kind.startswith("Overflow:"):
            opn = kind.split(":", 1)[1]
            # result type = type of first operand (for shifts) / operands (arith)
            lty = self._operand_ty(ops[0])
            if opn in ("Shl", "Shr"):
                okind = "shift"
                bits = INT_BITS.get(lty, 64)
                r = vals[1]
                if r[0] is not None and r[0] != "bot":
                    if r[0] >= 0 and r[1] < bits:
                        status = "safe"
                    elif r[0] >= bits or r[1] < 0:
                        status = "unsafe"
                    else:
                        status = "unsafe"
            else:
                a, c = vals[0], vals[1]
                if a[0] is not None and c[0] is not None and a[0] != "bot" and c[0] != "bot" and lty in INT_RANGES:
                    tlo, thi = INT_RANGES[lty]
                    if opn == "Add":
                        lo, hi = a[0] + c[0], a[1] + c[1]
                    elif opn == "Sub":
                        lo, hi = a[0] - c[1], a[1] - c[0]
                    elif opn == "Mul":
                        cs = [a[0] * c[0], a[0] * c[1], a[1] * c[0], a[1] * c[1]]
                        lo, hi = min(cs), max(cs)
                    else:
                        lo, hi = tlo - 1, thi + 1
                    status = "safe" if (lo >= tlo and hi <= thi) else "unsafe"
                    if status == "unsafe" and opn == "Sub" and tlo == 0 and hi <= thi:
                        # a - b on unsigned operands under a dominating `b <= a` (the `a < b` arm returned / short-circuited)
                        try:
                            if self.prove_le(st, ops[1], ops[0]) or self._derived_below(ops[1], ops[0]):
                                status = "safe"
                        except Exception:
                            pass
                    if status == "unsafe":
                        # the overflow must not hinge on an operand whose range is simply unknown (no byte source of its own,
                        # e.g. the length of an internal buffer): would the operation still overflow with that operand at its
                        # lower bound?  if not, there is no evidence, only ignorance
                        def own_unknown(v):
                            return (U in v[2]) and not any(x.startswith("B:") for x in v[2])
                        if own_unknown(a) or own_unknown(c):
                            a2 = (a[0], a[0]) if own_unknown(a) else (a[0], a[1])
                            c2 = (c[0], c[0]) if own_unknown(c) else (c[0], c[1])
                            if opn == "Add":
                                lo2, hi2 = a2[0] + c2[0], a2[1] + c2[1]
                            elif opn == "Sub":
                                lo2, hi2 = a2[0] - c2[1], a2[1] - c2[0]
                            else:
                                cs2 = [a2[0] * c2[0], a2[0] * c2[1], a2[1] * c2[0], a2[1] * c2[1]]
                                lo2, hi2 = min(cs2), max(cs2)
                            if lo2 >= tlo and hi2 <= thi:
                                status = "undecided"
        elif kind == "BoundsCheck":
            okind = "bounds"
            ln, ix = vals[0], vals[1]
            if ln[0] is not None and ix[0] is not None and ln[0] != "bot" and ix[0] != "bot":
                if ix[1] < ln[0] and ix[0] >= 0:
                    status = "safe"
                elif self._len_is_const(ops[0]):
                    status = "unsafe"
                else:
                    status = "undecided"
        elif kind in ("DivisionByZero", "RemainderByZero"):
            okind = "divzero"
            # the assert message carries the dividend; the divisor is in the condition `divisor == 0`
            c = self.cond_of_operand(cond)
            cc = c
            while cc is not None and cc[0] == "not":
                cc = cc[1]
            if cc is not None and cc[0] == "cmp":
                dv_ops = [o for o in (cc[2], cc[3]) if self._const_int(o) != 0]
                dvals = [self.read_operand(st, o) for o in dv_ops]
                ops = dv_ops
                vals = dvals
                taint = EMPTY
                for v in vals:
                    taint = taint | v[2]
                if c is not None:
                    status = "safe" if self.apply_cond(st, c, not expected) is None else "unsafe"
        elif kind == "OverflowNeg":
            okind = "overflow"
            d = vals[0]
            lty = self._operand_ty(ops[0])
            if d[0] is not None and d[0] != "bot" and lty in INT_RANGES:
                status = "safe" if d[0] > INT_RANGES[lty][0] else "unsafe"
        label = "%s" % ",".join(self.op_label(o) for o in ops)
        self.oblig(b, okind, kind, status, [(self.op_label(o), v[0], v[1]) for o, v in zip(ops, vals)], taint, span, label)
        # continue on the passing edge with the assert's condition assumed
        c = self.cond_of_operand(cond)
        nst = self.apply_cond(st, c, expected) if c else st
        if nst is None:
            return []
        # for shifts the assert is `rhs < bits` already expressed via cond; for BoundsCheck refine index < len
        return [(target, nst)]

    def _len_is_const(self, op):
        k = op_const(op)
        if k is not None:
            return True
        # Len of a fixed array local is emitted as a constant by MIR building; PtrMetadata for slices
        return False

    def _operand_ty(self, op):
        if op[0] == "k":
            return op[1]["ty"]
        return ir.pl_ty(self.fn, op[1])

    def on_switch(self, b, st, t):
        self._use_block = b.idx if hasattr(b, "idx") else b      # where branch refinements are applied (see _stable_between)
        try:
            return self._on_switch(b, st, t)
        finally:
            self._use_block = None

    def _on_switch(self, b, st, t):
        fn = self.fn
        disc, arms, otherwise, dty = t[1], t[2], t[3], t[4]
        outs = []
        dv = self.read_operand(st, disc)
        # remember control taint for panic classification
        cond = None
        if dty == "bool":
            cond = self.cond_of_operand(disc)
        if dty == "bool" and (cond is None or cond[0] == "bool"):
            # a boolean assembled on the way (`matches!(x, 1..=63)`, `a && b` stored in a local): the local is set to a constant in one
            # block per outcome; on the edge for an outcome, what held where that constant was assigned still holds
            outs_ = self._bool_diamond(b, st, disc, arms, otherwise)
            if outs_ is not None:
                return self._merge_same_target(outs_)
        if dty == "bool" and cond is not None:
            for val, tgt in arms:
                nst = self.apply_cond(st, cond, bool(val))
                if nst is not None:
                    outs.append((tgt, nst))
            # otherwise = the remaining truth value
            vals = set(v for v, _ in arms)
            rest = [x for x in (0, 1) if x not in vals]
            if rest:
                nst = self.apply_cond(st, cond, bool(rest[0]))
                if nst is not None:
                    outs.append((otherwise, nst))
            return self._merge_same_target(outs)
        # discriminant switch on a carrier (Result/Option/ControlFlow)
        dl = self.alias_of(disc)
        src_local = None
        if dl is not None:
            sd = fn.single_def(dl)
            if sd and sd[2] == "assign":
                rv = fn.blocks[sd[0]].stmts[sd[1]][2]
                if rv[0] == "discr":
                    src_local = pl_local(rv[1]) if isinstance(rv[1], int) else None
        if src_local is not None:
            sty = fn.local_ty(src_local)
            head, _ = split_generics(sty)
            ok_idx = None
            if head.endswith("Result") or head.endswith("ControlFlow"):
                ok_idx = 0
            elif head.endswith("Option"):
                ok_idx = 1
            sv = self.get(st, src_local)
            for val, tgt in arms:
                nst = dict(st)
                if ok_idx is not None:
                    if val == ok_idx:
                        if sv[0] == "bot":
                            continue  # certainly Err/None: Ok edge infeasible
                        # apply conditional facts attached to this carrier
                        feasible = True
                        for (aop, lo, hi) in self.cond_facts.get(src_local, []):
                            if not self.refine_operand(nst, aop, lo, hi):
                                feasible = False
                                break
                        if not feasible:
                            continue
                    else:
                        if payload_ty(sty) is not None:
                            nst[src_local] = ("bot", "bot", sv[2], False)
                outs.append((tgt, nst))
            known = set(v for v, _ in arms)
            outs.append((otherwise, dict(st)))
            return self._merge_same_target(outs)
        # integer match
        if dv[0] is not None and dv[0] != "bot":
            lo, hi = dv[0], dv[1]
            taken = []
            for val, tgt in arms:
                sval = val
                if dty in INT_RANGES and INT_RANGES[dty][0] < 0 and val > INT_RANGES[dty][1]:
                    sval = val - (1 << INT_BITS[dty])
                if sval < lo or sval > hi:
                    continue
                nst = dict(st)
                if self.refine_operand(nst, disc, sval, sval):
                    outs.append((tgt, nst))
                taken.append(sval)
            # otherwise: exclude arm values at the boundaries
            nlo, nhi = lo, hi
            tv = set(taken)
            while nlo in tv and nlo <= nhi:
                nlo += 1
            while nhi in tv and nhi >= nlo:
                nhi -= 1
            if nlo <= nhi:
                nst = dict(st)
                if self.refine_operand(nst, disc, nlo, nhi):
                    outs.append((otherwise, nst))
            return self._merge_same_target(outs)
        for val, tgt in arms:
            outs.append((tgt, dict(st)))
        outs.append((otherwise, dict(st)))
        return self._merge_same_target(outs)

    def _bool_diamond(self, b, st, disc, arms, otherwise):
        fn = self.fn
        pl = op_place(disc)
        if pl is None or not isinstance(pl, int):
            return None
        neg = False
        l = pl
        for _ in range(4):
            ds = fn.defs().get(l, [])
            if len(ds) == 1 and ds[0][1] != "t" and ds[0][2] == "assign":
                rv = fn.blocks[ds[0][0]].stmts[ds[0][1]][2]
                if rv[0] == "use" and isinstance(op_place(rv[1]), int):
                    l = op_place(rv[1])
                    continue
                if rv[0] == "un" and rv[1] == "Not" and isinstance(op_place(rv[2]), int):
                    l = op_place(rv[2])
                    neg = not neg
                    continue
            break
        ds = fn.defs().get(l, [])
        if len(ds) < 2 or any(d[1] == "t" or d[2] != "assign" for d in ds):
            return None
        by_val = {0: [], 1: []}
        touched = set()
        for (db, di, _k) in ds:
            rv = fn.blocks[db].stmts[di][2]
            k = op_const(rv[1]) if rv[0] == "use" else None
            if k is None or not isinstance(k.get("v"), (bool, int)) or fn.local_ty(l) != "bool":
                return None
            by_val[1 if k["v"] else 0].append(db)
            for s_ in fn.blocks[db].stmts:
                if s_[0] == "=":
                    touched.add(s_[1] if isinstance(s_[1], int) else s_[1][0])
        for s_ in fn.blocks[b].stmts:
            if s_[0] == "=":
                touched.add(s_[1] if isinstance(s_[1], int) else s_[1][0])
        IN = getattr(self, "_IN", None)
        if IN is None:
            return None

        def edge_state(truth):
            val = (not truth) if neg else truth
            srcs_ = [IN[db] for db in by_val[1 if val else 0] if IN[db] is not None]
            if not srcs_:
                return dict(st)
            nst = dict(st)
            keys = set(srcs_[0].keys())
            for s_ in srcs_[1:]:
                keys &= set(s_.keys())
            for key in keys:
                if not isinstance(key, int) or key < 0 or key in touched or key in self.escaped:
                    continue
                jv = None
                for s_ in srcs_:
                    jv = s_[key] if jv is None else vjoin(jv, s_[key])
                cur = self.get(nst, key)
                if jv is None or jv[0] is None or jv[0] == "bot" or cur[0] is None or cur[0] == "bot":
                    continue
                lo, hi = max(cur[0], jv[0]), min(cur[1], jv[1])
                if lo > hi:
                    return None
                nst[key] = (lo, hi, cur[2], cur[3] or jv[3])
            return nst
        outs = []
        for val, tgt in arms:
            nst = edge_state(bool(val))
            if nst is not None:
                outs.append((tgt, nst))
        vals = set(v for v, _ in arms)
        rest = [x for x in (0, 1) if x not in vals]
        if rest:
            nst = edge_state(bool(rest[0]))
            if nst is not None:
                outs.append((otherwise, nst))
        return outs

    def _merge_same_target(self, outs):
        m = {}
        order = []
        for tgt, s in outs:
            if tgt in m:
                m[tgt] = self.join_states(m[tgt], s)
            else:
                m[tgt] = s
                order.append(tgt)
        return [(t, m[t]) for t in order]

    # ------------------------------------------------------------------ calls
    def on_call(self, b, st, site):
        fn = self.fn
        an = self.an
        prog = self.prog
        callee = site.get("callee")
        args = site["args"]
        avals = [self.read_operand(st, a) for a in args]
        ataint = EMPTY
        for v in avals:
            ataint = ataint | v[2]
        dest = site["dest"]
        dty = ir.pl_ty(fn, dest)
        pt = payload_ty(dty)
        tgt = site["target"]
        span = site["span"]
        result = None
        diverges = tgt is None

        if callee is None:
            # indirect call
            t = top_of(dty)
            result = (t[0], t[1], ataint | USET, False)
        elif READ_RE.match(callee) or callee.endswith("SketchSlice::<'_>::read_exact") or callee.endswith("SketchSlice::<'_>::remaining"):
            result = self.foreign_call(b, st, site, callee, args, avals, ataint, dty)
        elif callee in prog.fns and (an.scope is None or callee in an.scope):
            cf = prog.fns[callee]
            for i, (a, v) in enumerate(zip(args, avals)):
                pi = i + 1
                if pi <= cf.argc:
                    vv = v
                    if vv[0] == "bot":
                        t = top_of(cf.local_ty(pi))
                        vv = (t[0], t[1], v[2], False)
                    an.join_param(callee, pi, self._fit_param(vv, cf.local_ty(pi)), cf.local_ty(pi))
            self._join_param_rel(st, callee, cf, args)
            if cf.argc == 0:
                if callee not in an.param_in:
                    an.param_in[callee] = {}
                    an.dirty.add(callee)
                    an.changed = True
            r = an.ret.get(callee)
            if r is None:
                if not diverges:
                    # callee has no normal return yet (not analysed / diverges): successor unreachable for now
                    return []
            else:
                result = r
                if pt is None:
                    result = (None, None, r[2] | (ataint if self._ret_depends_on_args(cf) else EMPTY), False)
            # post-conditions
            post = an.post.get(callee)
            if post and not diverges:
                for pi, (lo, hi) in post.items():
                    if pi - 1 < len(args):
                        if not self.refine_operand(st, args[pi - 1], lo, hi):
                            return []
            post_ok = an.post_ok.get(callee)
            if post_ok and isinstance(dest, int):
                facts = []
                for pi, (lo, hi) in post_ok.items():
                    if pi - 1 < len(args):
                        facts.append((args[pi - 1], lo, hi))
                if facts:
                    self.cond_facts[dest] = facts
        elif site.get("unresolved") and site.get("trait"):
            # trait-generic call: join over in-crate impls
            impls = prog.callees_of_site(fn, site)
            res = None
            for callee2 in impls:
                cf = prog.fns[callee2]
                for i, v in enumerate(avals):
                    pi = i + 1
                    if pi <= cf.argc:
                        an.join_param(callee2, pi, self._fit_param(v, cf.local_ty(pi)), cf.local_ty(pi))
                r = an.ret.get(callee2)
                if r is not None:
                    res = vjoin(res, r) if (res is None or (res[0] != "bot" and r[0] != "bot")) else (res if r[0] == "bot" else r)
            t = top_of(dty)
            if res is None or res[0] is None or res[0] == "bot":
                result = (t[0], t[1], ataint | USET | (res[2] if res else EMPTY), False)
            else:
                result = (t[0], t[1], ataint | USET | res[2], False)
        else:
            result = self.foreign_call(b, st, site, callee, args, avals, ataint, dty)

        # sinks
        self.call_sinks(b, st, site, callee, args, avals, ataint)

        if diverges:
            return []
        if result is None:
            t = top_of(dty)
            result = (t[0], t[1], ataint, False)
        # fit result into dest type
        if pt is None:
            result = (None, None, result[2], False)
        elif result[0] is None:
            lo, hi = INT_RANGES[pt]
            result = (lo, hi, result[2], False)
        if callee and "FromResidual" in callee and pt is not None:
            # `?` on the error path: the value built from the residual is an Err / None, it carries no payload
            result = ("bot", "bot", result[2], False)
        if isinstance(dest, int):
            if dest in self.escaped and pt is not None and result[0] != "bot":
                lo, hi = INT_RANGES[pt]
                result = (lo, hi, result[2], False)
            if result == self.default(dest):
                st.pop(dest, None)
            else:
                st[dest] = result
            if dty.startswith("("):
                self._clear_tuple(st, dest)
                for i_, cv in (an.ret_tuple.get(callee) or {}).items():
                    if cv[0] is not None and cv[0] != "bot":
                        st[("T", dest, i_)] = (cv[0], cv[1], cv[2] | (result[2] if result else EMPTY), cv[3])
            if dest == 0:
                st.pop(-1, None)
                if callee and "FromResidual" in callee:
                    st[-1] = (0, 0, EMPTY, False)
        else:
            last = dest[1][-1]
            if last[0] == "." and last[3] and last[3] in prog.adts:
                an.join_field((last[3], last[2]), self._fit(result, last[4]), last[4])
            if result[2]:
                for r in self.roots(dest[0]):
                    old = self.get(st, r)
                    st[r] = (old[0], old[1], old[2] | result[2], old[3])
        return [(tgt, st)]

    def _join_param_rel(self, st, callee, cf, args):
        an = self.an
        p2 = set(i for i in range(1, min(cf.argc, len(args)) + 1)
                 if cf.local_ty(i) in INT_RANGES and self.is_pow2(args[i - 1]))
        oldp = an.param_pow2.get(callee)
        newp = p2 if oldp is None else (oldp & p2)
        if newp != oldp:
            an.param_pow2[callee] = newp
            an.dirty.add(callee)
            an.changed = True
        idx = [i for i in range(1, min(cf.argc, len(args)) + 1) if payload_ty(cf.local_ty(i)) is not None and args[i - 1][0] != "k"]
        if len(idx) < 2 or len(idx) > 6:
            if callee not in an.param_rel:
                an.param_rel[callee] = set()
            return
        facts = set()
        for i in idx:
            for j in idx:
                if i != j and self.prove_le(st, args[i - 1], args[j - 1]):
                    facts.add((i, j))
        old = an.param_rel.get(callee)
        new = facts if old is None else (old & facts)
        if new != old:
            an.param_rel[callee] = new
            an.dirty.add(callee)
            an.changed = True

    def _ret_depends_on_args(self, cf):
        return True

    def _fit_param(self, v, ty):
        p = payload_ty(ty)
        if p is None:
            return (None, None, v[2], False)
        if v[0] is None or v[0] == "bot":
            lo, hi = INT_RANGES[p]
            return (lo, hi, v[2], False)
        lo, hi = INT_RANGES[p]
        return (max(v[0], lo), min(v[1], hi), v[2], v[3])

    def foreign_call(self, b, st, site, callee, args, avals, ataint, dty):
        fn = self.fn
        pt = payload_ty(dty)
        name = callee.rsplit("::", 1)[-1]
        t = top_of(dty)

        def mk(lo, hi, inlen=False):
            if pt is None:
                return (None, None, ataint, False)
            tlo, thi = INT_RANGES[pt]
            return (max(lo, tlo), min(hi, thi), ataint, inlen)

        m = READ_RE.match(callee)
        if m:
            self.read_ord += 1
            lbl = self._read_label(b, site)
            src = "B:%s:%s" % (fn.id, lbl)
            return (t[0], t[1], frozenset([src]), False)
        if callee.endswith("SketchSlice::<'_>::read_exact") or callee == "<std::io::Cursor<T> as std::io::Read>::read_exact":
            # taint the buffer
            lbl = self._read_label(b, site)
            src = frozenset(["B:%s:%s" % (fn.id, lbl)])
            if len(args) > 1 and op_place(args[1]) is not None:
                for r in self.roots(pl_local(op_place(args[1]))):
                    old = self.get(st, r)
                    st[r] = (old[0], old[1], old[2] | src, old[3])
                self._taint_fields_behind(pl_local(op_place(args[1])), src)
            return (None, None, EMPTY, False)
        a0 = avals[0] if avals else None
        a1 = avals[1] if len(avals) > 1 else None
        num0 = a0 is not None and a0[0] is not None and a0[0] != "bot"
        num1 = a1 is not None and a1[0] is not None and a1[0] != "bot"
        if callee == "std::ops::RangeInclusive::<Idx>::new" and num0 and num1 and pt is not None:
            return mk(a0[0], max(a1[1], a0[0]))
        if callee.startswith("std::iter::range::<impl std::iter::Iterator for std::ops::Range") and callee.endswith("::next") and pt is not None:
            # value yielded by a Range iterator lies in the range the iterator was built with
            p0 = op_place(args[0])
            if p0 is not None:
                for r in self.roots(pl_local(p0)):
                    rty = fn.local_ty(r)
                    if rty.startswith(("std::ops::Range<", "std::ops::RangeInclusive<")):
                        rv_ = self.get(st, r)
                        if rv_[0] is not None and rv_[0] != "bot":
                            return (rv_[0], rv_[1], ataint | rv_[2], False)
            return (t[0], t[1], ataint | USET, False)
        if callee == "<I as std::iter::IntoIterator>::into_iter" and pt is not None and num0:
            return mk(a0[0], a0[1], a0[3])
        # `(a..b).map(|i| f(i))`: the closure is an in-crate function; its parameter ranges over the Range and what `next()` yields
        # is the closure's return summary
        if name == "map" and "Iterator" in callee and len(args) == 2 and num0:
            cid = self._closure_of_operand(args[1])
            if cid is not None:
                cf = self.prog.fns[cid]
                if cf.argc >= 2:
                    self.an.join_param(cid, 2, self._fit_param((a0[0], a0[1], a0[2], a0[3]), cf.local_ty(2)), cf.local_ty(2))
                return (None, None, ataint | frozenset(["M:" + cid]), False)
        if name == "into_iter" and a0 is not None and any(x.startswith("M:") for x in a0[2]):
            return (None, None, a0[2], False)
        if name == "next" and a0 is not None and pt is not None:
            ms = [x[2:] for x in a0[2] if x.startswith("M:")]
            if not ms and args:
                p0 = op_place(args[0])
                if p0 is not None:
                    for r in self.roots(pl_local(p0)):
                        ms += [x[2:] for x in self.get(st, r)[2] if x.startswith("M:")]
            if len(set(ms)) == 1 and ms[0] in self.prog.fns:
                r_ = self.an.ret.get(ms[0])
                if r_ is None:
                    return ("bot", "bot", ataint, False)     # the closure has not been analysed yet: nothing is yielded so far
                if r_[0] is not None and r_[0] != "bot":
                    return (r_[0], r_[1], (ataint | r_[2]) - frozenset(x for x in ataint if x.startswith("M:")), False)
        # pass-through wrappers
        if callee in ("std::result::Result::<T, E>::map_err", "<std::result::Result<T, E> as std::ops::Try>::branch",
                      "<std::option::Option<T> as std::ops::Try>::branch", "std::hint::must_use", "std::convert::Into::into",
                      "std::option::Option::<T>::ok_or_else", "std::option::Option::<T>::ok_or", "std::result::Result::<T, E>::ok",
                      "std::mem::take", "std::mem::replace") or name == "clone" or callee.endswith("::from") and len(args) == 1:
            if a0 is not None:
                src_local = pl_local(op_place(args[0])) if op_place(args[0]) is not None else None
                if isinstance(site["dest"], int) and src_local is not None and src_local in self.cond_facts:
                    self.cond_facts[site["dest"]] = self.cond_facts[src_local]
                if pt is not None and a0[0] is not None:
                    if a0[0] == "bot":
                        return ("bot", "bot", ataint, False)
                    tlo, thi = INT_RANGES[pt]
                    if a0[0] >= tlo and a0[1] <= thi:
                        return (a0[0], a0[1], ataint, a0[3])
                return (t[0], t[1], ataint, False)
        if callee in UNWRAP_FNS or callee in ("std::option::Option::<T>::unwrap_or", "std::result::Result::<T, E>::unwrap_or",
                                              "std::option::Option::<T>::unwrap_or_default", "std::num::NonZero::<T>::get"):
            if num0 and pt is not None:
                v = (a0[0], a0[1])
                if name in ("unwrap_or",) and num1:
                    v = (min(a0[0], a1[0]), max(a0[1], a1[1]))
                return mk(v[0], v[1], a0[3])
            if a0 is not None and a0[0] == "bot" and num1 and name == "unwrap_or":
                return mk(a1[0], a1[1])
            return (t[0], t[1], ataint, False)
        if name in ("min",) and num0 and num1:
            return mk(min(a0[0], a1[0]), min(a0[1], a1[1]), a0[3] or a1[3])
        if name in ("max",) and num0 and num1:
            return mk(max(a0[0], a1[0]), max(a0[1], a1[1]), a0[3] and a1[3])
        if name == "clamp" and len(avals) == 3 and all(v[0] is not None and v[0] != "bot" for v in avals):
            return mk(max(a0[0], avals[1][0]), min(a0[1], avals[2][1]))
        if name in ("leading_zeros", "trailing_zeros", "count_ones", "count_zeros") and a0 is not None:
            bits = INT_BITS.get(self._operand_ty(args[0]), 64)
            if name == "leading_zeros" and num0 and a0[0] >= 0:
                return mk(bits - a0[1].bit_length(), bits - a0[0].bit_length())
            return mk(0, bits)
        if name == "len" and pt == "usize":
            # the length of a buffer is not tainted by the buffer's contents
            il = self._is_input_slice(args[0])
            al = EMPTY
            p0 = op_place(args[0]) if args else None
            if p0 is not None:
                for r in self.roots(pl_local(p0)):
                    if 1 <= r <= fn.argc and fn.local_name(r) != "self":
                        rty = fn.local_ty(r)
                        if ("[" in rty) or ("Vec<" in rty) or rty.endswith("str") or ("String" in rty):
                            pv = self.get(st, r)
                            # only a pure pass-through of public slice arguments counts
                            if pv[2] and all(x.startswith("AS:") for x in pv[2]):
                                al = al | frozenset("AL:" + x[3:] for x in pv[2])
            return (0, 2**63 - 1, al if al else USET, il)
        if name in ("position", "remaining", "remaining_len") and pt is not None:
            return mk(0, 2**63 - 1, name != "position")
        if name in ("saturating_sub",) and num0 and num1:
            return mk(max(a0[0] - a1[1], INT_RANGES[pt][0]), max(a0[1] - a1[0], INT_RANGES[pt][0]), a0[3])
        if name in ("saturating_add",) and num0 and num1:
            return mk(a0[0] + a1[0], a0[1] + a1[1])
        if name in ("wrapping_add", "wrapping_sub", "wrapping_mul") and num0 and num1 and pt is not None:
            if name == "wrapping_add":
                r = (a0[0] + a1[0], a0[1] + a1[1])
            elif name == "wrapping_sub":
                r = (a0[0] - a1[1], a0[1] - a1[0])
            else:
                cs = [a0[0] * a1[0], a0[0] * a1[1], a0[1] * a1[0], a0[1] * a1[1]]
                r = (min(cs), max(cs))
            w = wrap_or_top(r[0], r[1], pt)
            return (w[0], w[1], ataint, False)
        if name in ("checked_add", "checked_sub", "checked_mul") and num0 and num1 and pt is not None:
            if name == "checked_add":
                r = (a0[0] + a1[0], a0[1] + a1[1])
            elif name == "checked_sub":
                r = (a0[0] - a1[1], a0[1] - a1[0])
            else:
                cs = [a0[0] * a1[0], a0[0] * a1[1], a0[1] * a1[0], a0[1] * a1[1]]
                r = (min(cs), max(cs))
            c = clip(r[0], r[1], pt)
            if c is None:
                return ("bot", "bot", ataint, False)
            return (c[0], c[1], ataint, False)
        if name == "div_ceil" and num0 and num1 and a1[0] > 0 and a0[0] >= 0:
            return mk(-(-a0[0] // a1[1]), -(-a0[1] // a1[0]), a0[3])
        if name == "pow" and num0 and num1 and a0[0] >= 0 and a1[1] < 200:
            return mk(a0[0] ** a1[0], a0[1] ** a1[1])
        if name == "next_power_of_two" and num0 and a0[0] >= 0:
            return mk(a0[0], bits_hi(a0[1]) + 1 if a0[1] > 0 else 1)
        if name in ("ilog2",) and num0 and a0[0] > 0:
            return mk(a0[0].bit_length() - 1, a0[1].bit_length() - 1)
        if name == "abs" and num0:
            return mk(0, max(abs(a0[0]), abs(a0[1])))
        if name == "rotate_left" or name == "rotate_right" or name == "swap_bytes" or name.startswith("from_") and "bytes" in name:
            return (t[0], t[1], ataint, False)
        if name == "size_of":
            return mk(1, 4096)
        if name == "new" and callee.startswith("std::num::NonZero") and num0:
            return mk(max(a0[0], 1), max(a0[1], 1))
        if name in ("try_from", "try_into") and num0 and pt is not None:
            c = clip(a0[0], a0[1], pt)
            if c is None:
                return ("bot", "bot", ataint, False)
            return (c[0], c[1], ataint, a0[3])
        if name == "count" and pt == "usize":
            return mk(0, 2**63 - 1)
        return (t[0], t[1], ataint | USET, False)

    def _closure_of_operand(self, op):
        """def id of the closure an operand holds (by its closure type), or None"""
        pl = op_place(op)
        if pl is None:
            return None
        ty = self.fn.local_ty(pl_local(pl)) or ""
        if "{closure@" not in ty:
            return None
        cache = self.an.__dict__.setdefault("_closure_by_ty", None)
        if cache is None:
            cache = {}
            for g in self.prog.fns.values():
                if g.kind == "closure" and g.argc >= 1:
                    t1 = g.local_ty(1) or ""
                    for pre in ("&mut ", "&"):
                        if t1.startswith(pre):
                            t1 = t1[len(pre):]
                    cache.setdefault(t1, g.id)
            self.an._closure_by_ty = cache
        t = ty
        for pre in ("&mut ", "&"):
            if t.startswith(pre):
                t = t[len(pre):]
        return cache.get(t)

    def _is_input_slice(self, op):
        """operand is (a reference to) a `&[u8]` parameter of this function"""
        p = op_place(op)
        if p is None:
            return False
        for r in self.roots(pl_local(p)):
            if 1 <= r <= self.fn.argc and self.fn.local_ty(r) in ("&[u8]", "&'_ [u8]"):
                return True
        return False

    def _read_label(self, b, site):
        """stable label for a byte-read site: the variable its value lands in, or the tag string of the
        insufficient_data(..) mapper, else the ordinal of the read in the function"""
        fn = self.fn
        # follow dest through map_err/branch to the first named local
        d = site["dest"]
        name = None
        cur = pl_local(d)
        seen = 0
        tag = None
        while seen < 8:
            seen += 1
            n = fn.local_name(cur)
            if n and n not in ("val", "residual"):
                name = n
                break
            nxt = None
            for blk in fn.blocks:
                if blk.cleanup:
                    continue
                for s in blk.stmts:
                    if s[0] == "=" and isinstance(s[1], int):
                        for o in ir.rvalue_operands(s[2]):
                            pp = op_place(o)
                            if pp is not None and pl_local(pp) == cur:
                                nxt = s[1]
                                break
                    if nxt is not None:
                        break
                if nxt is None and blk.term[0] == "call":
                    c = blk.term[1]
                    for o in c["args"]:
                        pp = op_place(o)
                        if pp is not None and pl_local(pp) == cur and isinstance(c["dest"], int):
                            nxt = c["dest"]
                            break
                if nxt is not None:
                    break
            if nxt is None:
                break
            cur = nxt
        ordn = self._read_ordinal(b)
        kind = site.get("callee", "").rsplit("::", 1)[-1]
        return "%s#%d%s" % (kind, ordn, ":" + name if name else "")

    def _read_ordinal(self, b):
        n = 0
        for blk in self.fn.blocks:
            if blk.cleanup:
                continue
            if blk.term[0] == "call" and (READ_RE.match(blk.term[1].get("callee", "") or "") or (blk.term[1].get("callee") or "").endswith("read_exact")):
                if blk.idx == b:
                    return n
                n += 1
        return n

    def call_sinks(self, b, st, site, callee, args, avals, ataint):
        if not self.an.report:
            return
        fn = self.fn
        span = site["span"]
        if callee is None:
            return
        # allocation sinks
        if callee in ALLOC_FNS:
            idx = ALLOC_FNS[callee]
            if idx < len(avals):
                n = avals[idx]
                esz = self._elem_size(site, callee)
                status = "undecided"
                if n[0] is not None and n[0] != "bot":
                    if n[1] * esz <= ALLOC_CAP_BYTES:
                        status = "safe"
                    elif n[3]:
                        status = "safe"
                    elif UR in n[2]:
                        status = "undecided"     # the size was computed from something of unknown range (a run-time length, ..)
                    else:
                        status = "unsafe"
                self.oblig(b, "alloc", callee.rsplit("::", 1)[-1], status, [(self.op_label(args[idx]), n[0], n[1]), ("elem_size", esz, esz)],
                           n[2], span, self.op_label(args[idx]), "inlen" if n[3] else "")
        if callee in UNWRAP_FNS:
            v = avals[0]
            status = "undecided"
            if v[0] is not None and v[0] != "bot":
                # carrier with a definite payload: cannot tell Ok-ness from the interval alone
                status = "undecided"
            self.oblig(b, "unwrap", callee.rsplit("::", 1)[-1], status, [], ataint, span, self.op_label(args[0]))
        if callee in INDEX_FNS and len(args) == 2:
            ix = avals[1]
            status = "undecided"
            lenv = self._fixed_len_of(args[0])
            if lenv is not None and ix[0] is not None and ix[0] != "bot":
                status = "safe" if (ix[0] >= 0 and ix[1] < lenv) else "unsafe"
            self.oblig(b, "index", callee.rsplit("::", 1)[-1], status, [(self.op_label(args[1]), ix[0], ix[1])], ix[2], span,
                       "%s[%s]" % (self.op_label(args[0]), self.op_label(args[1])), "len=%s" % lenv)
        if callee in PANIC_FNS or (site["target"] is None and callee not in self.prog.fns):
            # explicit panic: classify by the taint of the controlling condition
            ctl_taint, ctl_label, relational = self._control_of(b, st)
            macro = "/".join(ir.span_macros(span)[:2])
            self.oblig(b, "panic", macro or callee.rsplit("::", 1)[-1], "undecided" if relational else "unsafe", [], ctl_taint, span, ctl_label,
                       "relational condition" if relational else "")

    def _fixed_len_of(self, op):
        ty = self._operand_ty(op)
        m = re.search(r"\[[^;\]]+; (\d+)\]", ty)
        if m:
            return int(m.group(1))
        return None

    def _elem_size(self, site, callee):
        g = site.get("gargs") or []
        ty = g[0] if g else "u8"
        sizes = {"u8": 1, "i8": 1, "bool": 1, "u16": 2, "i16": 2, "u32": 4, "i32": 4, "f32": 4, "u64": 8, "i64": 8, "f64": 8, "usize": 8,
                 "u128": 16, "i128": 16}
        if ty in sizes:
            return sizes[ty]
        if callee.startswith("std::string"):
            return 1
        return 16

    def _control_of(self, b, st):
        """taint + label of the nearest dominating branch condition of block b"""
        fn = self.fn
        idom = fn.dominators()
        cur = b
        guard = 0
        while cur in idom and idom[cur] != cur and guard < 64:
            guard += 1
            prev = cur
            cur = idom[cur]
            t = fn.blocks[cur].term
            if t[0] == "switch" and len(fn.succs(cur)) > 1:
                # is `b` on only some of the successors? (true control dependence)
                v = self.read_operand(self._in_state(cur) or st, t[1])
                lab = self._cond_label(t[1])
                taint = v[2] | self._cond_taint(self._in_state(cur) or st, t[1])
                return taint, lab, self._cond_is_relational(st, t[1])
        return EMPTY, "unconditional", False

    def _cond_is_relational(self, st, op):
        """condition compares two run-time values neither of which has a constant value here"""
        c = self.cond_of_operand(op)
        while c is not None and c[0] == "not":
            c = c[1]
        if c is None or c[0] != "cmp":
            return False
        a, b = c[2], c[3]
        if a[0] == "k" or b[0] == "k":
            return False
        va, vb = self.read_operand(st, a), self.read_operand(st, b)
        for v in (va, vb):
            if v[0] is not None and v[0] != "bot" and v[0] == v[1]:
                return False
        return True

    def _in_state(self, b):
        return None

    def _cond_taint(self, st, op, depth=0):
        """taint of everything a boolean condition was computed from (one level of comparison/call)"""
        if op[0] == "k" or depth > 4:
            return EMPTY
        p = op[1]
        if not isinstance(p, int):
            return self.read_place(st, p)[2]
        fn = self.fn
        sd = fn.single_def(p)
        taint = self.get(st, p)[2]
        if sd and sd[2] == "assign":
            rv = fn.blocks[sd[0]].stmts[sd[1]][2]
            for o in ir.rvalue_operands(rv):
                taint = taint | self._cond_taint(st, o, depth + 1)
            if rv[0] in ("discr",):
                taint = taint | self.read_place(st, rv[1])[2]
            if rv[0] == "ref":
                taint = taint | self.read_place(st, rv[2])[2]
        elif sd and sd[2] == "call":
            site = fn.blocks[sd[0]].term[1]
            if (site.get("callee") or "").rsplit("::", 1)[-1] == "len":
                # the length of a buffer is not tainted by the buffer's contents (the call result carries its own labels)
                return taint
            for o in site["args"]:
                taint = taint | self._cond_taint(st, o, depth + 1)
        return taint

    def _cond_label(self, op):
        c = self.cond_of_operand(op)
        if c is None:
            return self.op_label(op)

        def show(c):
            if c is None:
                return "?"
            if c[0] == "cmp":
                return "%s %s %s" % (self.op_label(c[2]), c[1], self.op_label(c[3]))
            if c[0] == "not":
                return "!(%s)" % show(c[1])
            if c[0] == "range":
                return "%s in %d..=%d" % (self.op_label(c[1]), c[2], c[3])
            if c[0] == "bool":
                return self.op_label(c[1])
            return "?"
        return show(c)
