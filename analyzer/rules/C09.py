"""C09 — Bloom filter: no false negatives; bits are exactly the reference hash positions.

Decided statically (DESIGN §5.9):
  C09.I  bit index formula ((h0 + i*h1) >> 1) mod capacity with capacity = 64 * words (evaluated on a grid), i running
         over 1..=num_hashes; h0 = XXH64(item, seed), h1 = XXH64(item, h0)
  C09.A  sibling agreement: check_bits and set_bits iterate the same range and derive the index by the same expression;
         word/bit split is index >> 6 / index & 63 in both get and set; contains may short-circuit only on emptiness
  C09.N  count maintenance: num_bits_set += 1 only when the bit was 0, together with the store; union / intersect store
         `|=` / `&=` and recount every word; invert stores capacity - old; reset zeroes both
Not decided: measured false-positive rate; chunking independence of the hash (see C16).
"""
import random

from .. import ir, sym, formula
from ..main import Result
from . import common as C
from .common import Sym, show

B = "bloom::sketch::BloomFilter"


def run(prog, ctx):
    res = Result("C09")
    ins = C.pub_fn(prog, B, "insert")
    con = C.pub_fn(prog, B, "contains")
    res.rule("C09.entry", (1 if ins else 0) + (1 if con else 0), 2, "BloomFilter::insert, contains")
    if not ins or not con:
        return res
    entries = [ins, con] + [C.pub_fn(prog, B, n) for n in ("contains_and_insert", "union", "intersect", "invert", "reset")]
    reach = C.reach_from(prog, entries)
    res.functions_analysed = len(reach)
    res.entry_points = [e.id for e in entries if e]
    rnd = random.Random(9)
    bfns = [f for f in reach if f.owner == B]

    # ---------------- C09.I index formula: find set/check loops and the index argument
    idx_exprs = {}
    closures = [g for g in prog.fns.values() if not g.promoted and "{closure" in g.id and any(g.id.startswith(f.id + "::") for f in bfns)]
    for f in bfns + closures:
        s = Sym(prog, f, ifconv=False)
        for b, site in f.calls():
            cal = site.get("callee") or ""
            nm = cal.rsplit("::", 1)[-1]
            if cal.startswith(B) and nm in ("set_bit", "get_bit") and len(site["args"]) == 2:
                e = C.resolve_var(prog, f, s.operand(site["args"][1]), s)
                if sym.contains(e, lambda t: t[0] == "call" and t[1].endswith("::next")):
                    idx_exprs[(f.id, nm)] = (e, site["span"])
                elif "{closure" in f.id and sym.contains(e, lambda t: t[0] == "param"):
                    # iterator adaptor form `(1..=k).all(|i| self.get_bit(index(h0, h1, i)))`: the closure argument is i
                    idx_exprs[(f.id, nm)] = (e, site["span"])
    n_i = 0
    for (fid, nm), (e, span) in sorted(idx_exprs.items()):
        lv = formula.leaves(e)
        h0 = [k for k in lv if k == "h0"]
        h1 = [k for k in lv if k == "h1"]
        ik = [k for k in lv if k.startswith("next(")]
        wk = [k for k in lv if k.startswith("len(") and "bit_array" in k]
        n_i += 1
        res.obligations += 2
        if h0 and h1 and ik and not wk and sym.contains(e, lambda t: t[0] == "call" and t[1] in prog.fns):
            # the derivation sits in a helper with branches of its own (a power-of-two fast path): it is evaluated through the
            # helper's return expression, which reads the word count off `self`
            wk = ["len(self.bit_array)"]
        if not (h0 and h1 and ik and wk):
            res.undecided += 2
            continue
        envs = [{h0[0]: rnd.getrandbits(64), h1[0]: rnd.getrandbits(64), ik[0]: i, wk[0]: w, "@prog": prog} for i in (1, 2, 3, 7, 16, 300) for w in (1, 2, 3, 157, 1024, 33333)]
        M = (1 << 64) - 1
        ok, cex, n, why = formula.equivalent(e, lambda env: (((env[h0[0]] + env[ik[0]] * env[h1[0]]) & M) >> 1) % (64 * env[wk[0]]), envs)
        if ok:
            res.discharged += 1
            res.sample({"rule": "C09.I", "fn": fid, "index": show(e)[:160], "points": n})
        elif ok is False:
            res.violate("C09.I", "C09.I|%s" % fid, "bit index in %s is %s, expected ((h0 + i*h1) >> 1) %% (64*words): %s" % (fid, show(e)[:120], cex), fid, span)
        else:
            res.undecided += 1
        rng = C.find_sub(e, lambda t: t[0] == "call" and t[1].endswith("RangeInclusive::<Idx>::new"))
        if rng is not None and rng[2][0] == ("const", 1) and "num_hashes" in show(rng[2][1]):
            res.discharged += 1
        elif rng is not None and rng[2][0][0] == "const" and rng[2][0] != ("const", 1):
            res.violate("C09.I", "C09.I|%s|range" % fid, "%s does not iterate i over 1..=num_hashes (starts at %s)" % (fid, show(rng[2][0])), fid, span)
        else:
            res.undecided += 1
    res.rule("C09.I", n_i, 2, "bit-index derivations (set and check loops)")
    # sibling agreement
    res.obligations += 1
    sets = [e for (fid, nm), (e, sp) in idx_exprs.items() if nm == "set_bit"]
    gets = [e for (fid, nm), (e, sp) in idx_exprs.items() if nm == "get_bit"]
    verdict = None
    if sets and gets:
        if all(show(a) == show(b) for a in sets for b in gets):
            verdict = True
        else:
            # compare by value on common leaves (the loop variable is matched by kind: next(..) / closure parameter)
            def norm_env(e, h0, h1, i, w):
                env = {"@prog": prog}
                for k in formula.leaves(e):
                    if k == "h0" or k.endswith(".h0") or k.endswith("h0"):
                        env[k] = h0
                    elif k == "h1" or k.endswith("h1"):
                        env[k] = h1
                    elif k.startswith("next(") or k in ("i", "arg2", "idx"):
                        env[k] = i
                    elif k.startswith("len(") and "bit_array" in k:
                        env[k] = w
                return env
            try:
                verdict = True
                for i in (1, 2, 9):
                    for w in (1, 3, 1024):
                        h0, h1 = rnd.getrandbits(64), rnd.getrandbits(64)
                        va = set(formula.evaluate(a, norm_env(a, h0, h1, i, w)) for a in sets)
                        vb = set(formula.evaluate(b, norm_env(b, h0, h1, i, w)) for b in gets)
                        if va != vb:
                            verdict = False
            except formula.Uneval:
                verdict = None
    if verdict is True:
        res.discharged += 1
    elif verdict is False:
        res.violate("C09.A", "C09.A|index", "the check path and the set path derive different bit indices: %s" % sorted(set(show(v)[:100] for v in sets + gets)), None)
    else:
        res.undecided += 1
    # hashes
    ch = C.fn_one(prog, B, "compute_hash")
    if ch is not None:
        s = Sym(prog, ch)
        e = s.local(0)
        res.obligations += 2
        if e[0] == "agg" and len(e[2]) == 2:
            a, c = e[2]
            ok0 = a[0] == "call" and "finish" in a[1] and sym.contains(a, lambda t: t[0] == "field" and t[2] == "seed")
            inner = C.find_sub(c, lambda t: t[0] == "agg" and "XxHash64" in t[1])
            ok1 = c[0] == "call" and "finish" in c[1] and inner is not None and inner[2] and inner[2][0] == a
            if ok0:
                res.discharged += 1
            else:
                res.undecided += 1
            inner_seed = inner[2][0] if inner is not None and inner[2] else None
            if ok1:
                res.discharged += 1
            elif inner_seed is not None and (inner_seed[0] == "const" or (inner_seed[0] == "field" and inner_seed[1] == ("param", 1, "self"))):
                # positive evidence: the second hasher is seeded with a constant or with the configured seed, not with h0
                res.violate("C09.I", "C09.I|h1", "h1 is not XXH64(item, h0): the second hasher is seeded with %s (it must be seeded with the first digest)" % show(inner_seed), ch.id)
            else:
                res.undecided += 1
        else:
            res.undecided += 2
        for b, site in ch.calls():
            if (site.get("callee") or "").endswith("Hash::hash"):
                pass
    # word / bit split
    for nm in ("get_bit", "set_bit"):
        f = C.fn_one(prog, B, nm)
        if f is None:
            res.obligations += 1
            res.undecided += 1
            continue
        s = Sym(prog, f)
        res.obligations += 1
        exprs = []
        if nm == "get_bit":
            exprs = [s.local(0)]
        else:
            exprs = [x[3] for x in C.buffer_stores(prog, f, "bit_array")] + [("idx",) + (x[2],) for x in C.buffer_stores(prog, f, "bit_array")]
        t = " ".join(show(x) if x and x[0] != "idx" else show(x[1]) for x in exprs)
        verdict = None
        pname = f.local_name(2) or "arg2"
        words = [0x0123456789abcdef, 0xfedcba9876543210, 0x8000000000000001, 0]
        try:
            if nm == "get_bit":
                verdict = True
                for idx in (0, 1, 63, 64, 65, 127, 128, 200, 255):
                    got = formula.evaluate(exprs[0], {"@prog": prog, "self.bit_array": words, pname: idx})
                    if bool(got) != bool((words[idx >> 6] >> (idx & 63)) & 1):
                        verdict = False
            else:
                st = list(C.buffer_stores(prog, f, "bit_array"))
                if st:
                    verdict = True
                    for idx in (0, 1, 63, 64, 65, 127, 128, 200, 255):
                        env = {"@prog": prog, "self.bit_array": words, pname: idx}
                        for (b_, base, ie, val, span, _s) in st:
                            wi = formula.evaluate(ie, env)
                            nv = formula.evaluate(val, env)
                            if wi != idx >> 6 or nv != (words[idx >> 6] | (1 << (idx & 63))):
                                verdict = False
        except (formula.Uneval, IndexError, TypeError):
            verdict = None
        if verdict is True:
            res.discharged += 1
        elif verdict is False:
            res.violate("C09.A", "C09.A|%s|split" % nm, "%s does not address bit `index` as word index >> 6, mask 1 << (index & 63) (%s)" % (nm, t[:120]), f.id)
        else:
            res.undecided += 1
    # contains short-circuit only on is_empty
    s = Sym(prog, con)
    res.obligations += 1
    early = [b for b in con.blocks if not b.cleanup and b.term[0] == "switch"]
    conds = [show(s.operand(b.term[1])) for b in early]
    # by value: a path that answers `false` outright (a constant, no probe) may be taken only when no bit is set -- the probe
    # positions of one item need not be distinct, so a filter holding a single item can have fewer bits set than hashes
    verdict, wit = None, ""
    for blk in con.blocks:
        if blk.cleanup:
            continue
        for st_ in blk.stmts:
            if st_[0] == "=" and st_[1] == 0 and st_[2][0] == "use" and ir.op_const(st_[2][1]) is not None and ir.op_const(st_[2][1]).get("v") in (False, 0):
                pp = C.path_pred(s, blk.idx)
                for nset in (0, 1, 2, 5, 64):
                    for nh in (1, 3, 7, 16):
                        r = pp({"@prog": prog, "self.num_bits_set": nset, "self.num_hashes": nh, "self.bit_array": [1] * 4, "len(self.bit_array)": 4})
                        if r is None:
                            continue
                        if verdict is None:
                            verdict = True
                        if r is True and nset > 0 and verdict is not False:
                            verdict, wit = False, "with %d bit(s) set and %d hashes contains() answers false without probing" % (nset, nh)
    if verdict is None and all("is_empty" in c or "num_bits_set" in c for c in conds):
        verdict = True
    res.obligations -= 1
    res.tri(verdict, "C09.A", "C09.A|contains|shortcut", "%s: %s (an inserted item whose probe positions coincide is reported absent)" % (con.id, wit), con.id)

    # ---------------- C09.N count maintenance
    sb = C.fn_one(prog, B, "set_bit")
    n_n = 0
    if sb is not None:
        s = Sym(prog, sb)
        incs = [(b, e) for b, place, e, span, _s in C.assignments(prog, sb) if not isinstance(place, int) and place[1][-1][0] == "." and place[1][-1][2] == "num_bits_set"]
        stores = list(C.buffer_stores(prog, sb, "bit_array"))
        n_n += 1
        res.obligations += 2
        ok = False
        for b, e in incs:
            fx = s.cmp_facts_at(b)
            if any(x[0] == "Eq" and len(x) == 3 and 0 in (C.const_of(x[1]), C.const_of(x[2])) and "bit_array" in show(x[1]) + show(x[2]) for x in fx):
                ok = True
        if ok and len(incs) == 1:
            res.discharged += 1
        elif len(incs) == 1 and not s.cmp_facts_at(incs[0][0]):
            res.violate("C09.N", "C09.N|set_bit|count", "num_bits_set is incremented unconditionally (not only when the bit was 0)", sb.id)
        else:
            res.undecided += 1
        if stores and incs and all(set(repr(x) for x in s.cmp_facts_at(st[0])) == set(repr(x) for x in s.cmp_facts_at(incs[0][0])) for st in stores) and all(C.is_bin(st[3], "BitOr") for st in stores):
            res.discharged += 1
        else:
            res.undecided += 1      # by value: C09.A checks the stored word
    for nm, op in (("union", "BitOr"), ("intersect", "BitAnd")):
        f = C.pub_fn(prog, B, nm)
        if f is None:
            continue
        s = Sym(prog, f, ifconv=False)
        n_n += 1
        res.obligations += 2
        # store through the zipped &mut word
        okop = False
        for b, place, e, span, _s in C.assignments(prog, f):
            if not isinstance(place, int) and len(place[1]) == 1 and place[1][0][0] == "*" and C.is_bin(e, op):
                okop = True
        cnt = any((st.get("callee") or "").endswith("count_ones") for _, st in f.calls())
        fin = [C.resolve_var(prog, f, s.rvalue(rv), s) for (ff, b, kind, place, rv, span, adt, fld) in sym.field_stores(prog, adt=B, field="num_bits_set", fns=[f]) if rv is not None]
        other_op = {"BitOr": "BitAnd", "BitAnd": "BitOr"}[op]
        wrong = any(not isinstance(place, int) and len(place[1]) == 1 and place[1][0][0] == "*" and C.is_bin(e, other_op) for b, place, e, span, _s in C.assignments(prog, f))
        if okop:
            res.discharged += 1
        elif wrong:
            res.violate("C09.N", "C09.N|%s|op" % nm, "%s combines the words with %s instead of %s" % (nm, other_op, op), f.id)
        else:
            res.undecided += 1
        if cnt and fin and not any("self.num_bits_set" in show(e) for e in fin):
            res.discharged += 1
        elif not cnt and not any((st.get("callee") or "").startswith("bloom::") for _, st in f.calls()):
            # nothing counts bits and nothing in-crate is called that could: the count cannot follow the new words
            res.violate("C09.N", "C09.N|%s|recount" % nm, "%s does not recount the set bits of every word (stores %s)" % (nm, [show(e)[:60] for e in fin]), f.id)
        else:
            res.undecided += 1
    # C09.N (who-writes pairing): whenever a BloomFilter method takes the bit array mutably, every path from there to a return
    # stores the bit count (or calls a method that does): bits and count never drift apart
    count_writers = set()
    for f in prog.fns.values():
        if not f.promoted and any(True for _ in sym.field_stores(prog, adt=B, field="num_bits_set", fns=[f])):
            count_writers.add(f.id)
    n_w = 0
    for f in [x for x in prog.fns.values() if not x.promoted and x.owner == B]:
        muts = C.buffer_mutations(f, "bit_array")
        if not muts or f.argc < 1 or not f.local_ty(1).startswith("&mut"):
            continue
        sf = Sym(prog, f, ifconv=False)
        counted = set(b for (ff, b, kind, place, rv, span, adt, fld) in sym.field_stores(prog, adt=B, field="num_bits_set", fns=[f]))
        for b, site in f.calls():
            tgt = site.get("callee")
            if tgt and tgt in prog.fns and (tgt in count_writers or any(g.id in count_writers for g in C.reach_from(prog, [tgt]))):
                counted.add(b)
        for m in sorted(muts):
            n_w += 1
            res.obligations += 1
            if m in counted or not any(sf.reaches_exit_avoiding(sx, counted) for sx in f.succs(m) if not f.blocks[sx].cleanup):
                res.discharged += 1
            else:
                res.violate("C09.N", "C09.N|%s|unpaired-write" % f.id, "%s can change the bit array and return without updating num_bits_set" % f.id, f.id)
    res.rule("C09.W", n_w, 3, "mutable uses of the bit array paired with a count update")
    # a filter decoded from an image must carry the count of the bits it actually holds (C13.O: nothing is derived from the bit
    # array before the loop that fills it)
    try:
        from . import C13
        r13 = C13.run(prog, dict(ctx))
        for v in r13.violations:
            if v.rule == "C13.O" and "bloom" in v.key:
                res.violate("C09.N", "C09.N|" + v.key, "after deserialization: " + v.message, getattr(v, "fn", None), getattr(v, "span", None))
    except Exception as ex:
        res.extra.setdefault("undecided_items", []).append("C09.N could not run C13.O: %r" % (ex,))
    inv = C.pub_fn(prog, B, "invert")
    if inv is not None:
        s = Sym(prog, inv)
        n_n += 1
        res.obligations += 1
        fin = [s.rvalue(rv) for (ff, b, kind, place, rv, span, adt, fld) in sym.field_stores(prog, adt=B, field="num_bits_set", fns=[inv]) if rv is not None]
        if any(C.is_bin(e, "Sub") and "len(self.bit_array)" in show(e[2]) and "num_bits_set" in show(e[3]) and 64 in C.consts_in(e[2]) for e in fin):
            res.discharged += 1
        else:
            # by value: the stored count must be capacity - old count
            verdict = None
            try:
                for e in fin:
                    verdict = True
                    for words in (1, 3, 64):
                        for old in (0, 5, 64 * words):
                            got = formula.evaluate(e, {"@prog": prog, "self.bit_array": [0] * words, "self.num_bits_set": old})
                            if got != 64 * words - old:
                                verdict = False
            except formula.Uneval:
                verdict = None
            if verdict is True:
                res.discharged += 1
            elif verdict is False:
                res.violate("C09.N", "C09.N|invert", "invert does not store capacity - num_bits_set (%s)" % [show(e) for e in fin], inv.id)
            else:
                res.undecided += 1
    rs = C.pub_fn(prog, B, "reset")
    if rs is not None:
        s = Sym(prog, rs)
        n_n += 1
        res.obligations += 1
        fin = [s.rvalue(rv) for (ff, b, kind, place, rv, span, adt, fld) in sym.field_stores(prog, adt=B, field="num_bits_set", fns=[rs]) if rv is not None]
        fills = any((st.get("callee") or "").endswith("::fill") for _, st in rs.calls())
        if fills and fin == [("const", 0)]:
            res.discharged += 1
        elif fin and fin != [("const", 0)] and all(e[0] == "const" for e in fin):
            res.violate("C09.N", "C09.N|reset", "reset stores %s in the bit count" % [show(e) for e in fin], rs.id)
        elif not fin and not any((st.get("callee") or "").startswith("bloom::") for _, st in rs.calls()):
            res.violate("C09.N", "C09.N|reset", "reset does not clear the bit count", rs.id)
        else:
            res.undecided += 1
    res.rule("C09.N", n_n, 5, "count-maintenance sites")
    # ---------------- C09.H the XXH64 implementation the positions are derived from (rules shared with C16)
    from . import C16
    r16 = C16.run(prog, ctx)
    n_h = 0
    for rid, info in r16.rules.items():
        n_h += info["instances"]
    for v in r16.violations:
        if "XxHash64" in v.key or "xx-" in v.key or "hashers" in v.key:
            res.violate("C09.H", "C09.H|" + v.key, "XXH64 (source of the bit positions): " + v.message, v.fn, v.span)
    res.obligations += r16.obligations
    res.discharged += r16.discharged
    res.rule("C09.H", n_h, 10, "hash-implementation obligations shared with C16 (XXH64 subset reported here)")
    # a filter's own image is read back (inserted items stay contained after serialization): the Bloom part of the writer ->
    # reader co-simulation, including saturated filters (every bit set) and whole-word bit counts
    C.import_rules(res, prog, dict(ctx, families=["bloom"]), "C09.R", "C11", ("C11.L", "C11.K"), "Bloom image read back by its own reader", 6,
                   key_filter=lambda k: "|bloom|" in k)
    # ---------------- C09.K a decision taken after a call that changes a counter looks at the counter after it (common.stale_count_decisions)
    C.stale_count_rule(res, prog, "C09.K", "bloom::", "Bloom filter")
    # ---------------- C09.S builder sizing: for every documented (max_items >= 1, fpp in (0, 1]) the suggested number of bits is the
    # published ceil(-n ln p / ln(2)^2), at least one bit (fpp = 1.0 makes the formula 0; a filter of 0 bits divides by zero on insert)
    import math as _m
    n_s = 0
    for g in sorted((x for x in prog.fns.values() if not x.promoted and x.id.startswith("bloom::") and x.item_name == "suggest_num_bits" and x.argc == 2), key=lambda x: x.id):
        eg = C.ret_expr(prog, g)
        if eg is None:
            continue
        n_s += 1
        verdict, wit = None, ""
        for n in (1, 2, 1000, 10 ** 7):
            for pfp in (1e-9, 0.01, 0.5, 0.999999, 1.0):
                try:
                    got = formula.evaluate(eg, {"@prog": prog, "@ieee": True, g.local_name(1) or "max_items": n, g.local_name(2) or "fpp": pfp})
                except (formula.Uneval, TypeError, ZeroDivisionError, ValueError):
                    continue
                if not isinstance(got, int):
                    continue
                want = max(1, int(_m.ceil(-n * _m.log(pfp) / (_m.log(2.0) ** 2))))
                if verdict is None:
                    verdict = True
                if (got < 1 or (got != want and want < (1 << 36))) and verdict is not False:
                    verdict, wit = False, "suggest_num_bits(%d, %r) = %d, the published sizing gives %d" % (n, pfp, got, want)
        res.tri(verdict, "C09.S", "C09.S|%s" % g.id, "%s: %s" % (g.id, wit), g.id)
    res.rule("C09.S", n_s, 1, "Bloom sizing from (max_items, fpp)")
    res.explanation = ("formula and structural rules over the %d functions reachable from the BloomFilter mutators and contains(): index formula on a "
                       "grid, double hashing seeds, sibling agreement of check/set, word/bit split, count maintenance" % len(reach))
    res.not_decided = "measured false-positive rate"
    return res
