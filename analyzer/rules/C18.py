"""C18 — sketch size is bounded by configuration, not by stream length.

Decided statically (DESIGN §5.18):
  C18.G  who may grow: the fixed-size buffers (Bloom bit_array, Count-Min counts/hash_seeds, HLL ArrayN.bytes) are never
         pushed to, resized, extended or re-allocated outside constructors and deserializers
  C18.K  capacity rules: HLL list promotes when full; a list goes straight to the array when lg_k < T and the set promotes
         to the array at lg_size == lg_k - 3, with T - 3 equal to the initial set size (so the set can always reach its
         promotion size); the set grows at 4*len > 3*cap; the aux map grows at 4*count > 3*size; the t-digest buffer is
         compressed when it holds 4*capacity values, before every push, and capacity = 2k + fudge
         (theta: C04.K; frequent items: C07.K, C07.S)
  C18.F  size formulas: HLL image capacities 8+4c / 12+4c / 40 + {k/2, 3k/4+1, k} + 4*aux
Not decided: CPC's empirical size bound (a statistical statement about compressed sizes).
"""
from .. import ir, sym, formula
from ..main import Result
from . import common as C
from .common import Sym, show

GROW = ("push", "resize", "extend", "extend_from_slice", "insert", "reserve", "append", "resize_with")
FIXED = [("bloom::sketch::BloomFilter", "bit_array"), ("countmin::sketch::CountMinSketch", "counts"), ("countmin::sketch::CountMinSketch", "hash_seeds"),
         ("hll::array4::Array4", "bytes"), ("hll::array6::Array6", "bytes"), ("hll::array8::Array8", "bytes")]


def hll_chain(prog):
    """('ok', text) | ('bad', text, fn) | ('undecided', why)"""
    hs = [f for f in prog.fns.values() if not f.promoted and (f.owner == "hll::sketch::HllSketch" or f.id.startswith("hll::sketch::"))]
    to_set, to_arr_list, to_arr_set, grow_fn = [], [], [], None
    for f in hs:
        s = Sym(prog, f)
        for b, site in f.calls():
            cal = site.get("callee") or ""
            args = [show(s.at(b).operand(a)) for a in site["args"]]
            if cal.endswith("promote_container_to_set"):
                to_set.append((f, s, b))
            elif cal.endswith("promote_container_to_array"):
                (to_arr_set if any("Set" in a or "set" in a.split(".")[0:3].__str__() for a in args) and not any("List" in a for a in args) else to_arr_list).append((f, s, b, args))
            elif cal.endswith("HashSet::new") and f.item_name and "grow" in f.item_name:
                grow_fn = (f, s, b, site)
    if grow_fn is None:
        for f in hs:
            for b, site in f.calls():
                if (site.get("callee") or "").endswith("HashSet::new") and f.argc >= 1 and "HashSet" in (f.local_ty(1) or ""):
                    grow_fn = (f, Sym(prog, f), b, site)
    if not to_set or not to_arr_set or grow_fn is None:
        return ("undecided", "promotion / growth sites not found")
    d = C.fn_one(prog, "hll::hash_set::HashSet", "default")
    init = None
    if d is not None:
        sd = Sym(prog, d)
        for b, site in d.calls():
            if (site.get("callee") or "").endswith("HashSet::new"):
                init = C.const_of(sd.operand(site["args"][0]))
    if init is None:
        return ("undecided", "initial set size not found")
    gf, gs, gb, gsite = grow_fn
    garg = gs.at(gb).operand(gsite["args"][0])
    gleaves = [k for k in formula.top_leaves(garg) if "lg_size" in k or "lg" in k]
    if len(gleaves) != 1:
        return ("undecided", "growth step %s has no single size leaf" % show(garg)[:60])

    def grow(lg):
        return formula.evaluate(garg, {"@prog": prog, gleaves[0]: lg})

    def pred_of(f, s, b, lgk, lg=None):
        pp = C.path_pred(s, b)
        env = {"@prog": prog, "self.lg_config_k": lgk}
        for pth in s.path_conditions(b) or []:
            for c, tv in pth:
                for k in formula.top_leaves(c):
                    if "lg_config_k" in k or k in ("lg_k",):
                        env[k] = lgk
                    elif "lg_size" in k and lg is not None:
                        env[k] = lg
                    elif lg is None and (k.endswith(".len") or k.startswith("len(") or k.endswith("capacity")):
                        env[k] = 8          # a full list: the published list size (2^3 coupons)
        return pp(env)
    bad = None
    for lgk in range(4, 22):
        goes_set = any(pred_of(f, s, b, lgk) is not False for (f, s, b) in to_set)
        goes_arr = any(pred_of(f, s, b, lgk) is not False for (f, s, b, a) in to_arr_list)
        if goes_set and goes_arr:
            return ("undecided", "where a full list goes is not decided by lg_k alone (lg_k = %d)" % lgk)
        if not goes_set:
            continue
        lg, seen = init, []
        done = False
        for _ in range(30):
            seen.append(lg)
            if any(pred_of(f, s, b, lgk, lg) is not False for (f, s, b, a) in to_arr_set):
                done = True
                break
            lg = grow(lg)
            if not isinstance(lg, int) or lg > 31:
                break
        if not done or seen[-1] > lgk:
            bad = (lgk, seen)
            break
    if bad:
        return ("bad", "for lg_k = %d a full list becomes a coupon set of 2^%d slots that then grows through sizes %s without ever being converted to the "
                "register array (its image grows with the stream)" % (bad[0], init, ["2^%d" % x for x in bad[1][:6]]), to_set[0][0].id)
    return ("ok", "list -> set -> array chain closes for every lg_k 4..=21")


def run(prog, ctx):
    res = Result("C18")
    res.entry_points = ["every function of the crate (who-may-grow)", "HllSketch::update", "TDigestMut::update"]
    allf = [f for f in prog.fns.values() if not f.promoted]
    res.functions_analysed = len(allf)

    # ---------------- C18.G who may grow the fixed-size buffers
    n_g = 0
    for adt, fld in FIXED:
        if adt not in prog.adts or not any(n == fld for n, t in prog.adts[adt]["variants"][0]["fields"]):
            res.obligations += 1
            res.undecided += 1      # private field renamed
            continue
        n_g += 1
        res.obligations += 1
        bad = []
        for f in allf:
            ctor = f.item_name in ("new", "make", "with_seed", "deserialize", "deserialize_with_seed", "build", "clone", "default") or f.item_name.startswith("deserialize")
            # re-allocation: store to the field outside constructors
            for (ff, b, kind, place, rv, span, a2, f2) in sym.field_stores(prog, adt=adt, field=fld, fns=[f]):
                if kind == "agg" or ctor:
                    continue
                bad.append((f.id, "reassigned", span))
            s = None
            for b, site in f.calls():
                nm = (site.get("callee") or "").rsplit("::", 1)[-1]
                if nm in GROW and (site.get("callee") or "").startswith(("std::vec::Vec", "<std::vec::Vec", "std::collections")):
                    if s is None:
                        s = Sym(prog, f, ifconv=False)
                    recv = s.operand(site["args"][0])
                    if sym.contains(recv, lambda t: t[0] == "field" and t[2] == fld) and (f.owner == adt or adt.rsplit("::", 1)[-1] in show(recv)):
                        if not ctor:
                            bad.append((f.id, nm, site["span"]))
        if not bad:
            res.discharged += 1
            res.sample({"rule": "C18.G", "buffer": "%s.%s" % (adt.rsplit("::", 1)[-1], fld), "growth_sites": 0})
        for fid, how, span in bad:
            res.violate("C18.G", "C18.G|%s.%s|%s|%s" % (adt, fld, fid, how), "%s.%s is fixed at construction but %s %s it" % (adt.rsplit("::", 1)[-1], fld, fid, how), fid, span)
    res.rule("C18.G", n_g, 6, "fixed-size buffers")

    # ---------------- C18.K HLL promotion thresholds
    uw = None
    for f in C.fns_of(prog, "hll::sketch::HllSketch"):
        if any((st.get("callee") or "").endswith("promote_container_to_set") for _, st in f.calls()):
            uw = f
    n_k = 0
    if uw is None:
        res.obligations += 1
        res.undecided += 1
    else:
        s = Sym(prog, uw)
        T = None
        set_promo = None
        for b, site in uw.calls():
            cal = site.get("callee") or ""
            fx = s.cmp_facts_at(b)
            if cal.endswith("promote_container_to_set"):
                for x in fx:
                    if len(x) == 3 and x[0] in ("Ge", "Lt", "Gt", "Le") and "lg_config_k" in show(x[1]) + show(x[2]):
                        c = C.const_of(x[2]) if C.const_of(x[2]) is not None else C.const_of(x[1])
                        op = x[0] if C.const_of(x[2]) is not None else {"Ge": "Le", "Le": "Ge", "Gt": "Lt", "Lt": "Gt"}[x[0]]
                        if c is not None:
                            T = c if op == "Ge" else (c + 1 if op == "Gt" else None)
                full = any(x[0] == "Eq" and len(x) == 3 and "len" in show(x[1]) + show(x[2]) for x in fx) or any(x[0] == "true" and "is_full" in show(x[1]) for x in fx)
                n_k += 1
                res.obligations += 1
                if full:
                    res.discharged += 1
                elif fx:
                    res.undecided += 1
                else:
                    res.violate("C18.K", "C18.K|hll|list-full", "the list is promoted under %s, expected `list is full`" % [(x[0], show(x[1])[:40]) for x in fx], uw.id)
            if cal.endswith("promote_container_to_array") and any("Set" in show(s.operand(a)) for a in site["args"]):
                for x in fx:
                    if x[0] == "Eq" and len(x) == 3 and "lg_size" in show(x[1]) + show(x[2]):
                        other = x[2] if "lg_size" in show(x[1]) else x[1]
                        if C.is_bin(other, "Sub") and "lg_config_k" in show(other):
                            set_promo = C.const_of(other[3])
                n_k += 1
                res.obligations += 1
                gt = [x for x in fx if x[0] in ("Gt", "Lt") and len(x) == 3 and 4 in C.consts_in(("t", x[1], x[2])) and 3 in C.consts_in(("t", x[1], x[2]))]
                if gt:
                    res.discharged += 1
                elif fx:
                    res.undecided += 1
                else:
                    res.violate("C18.K", "C18.K|hll|set-load", "the set is promoted/grown under %s, expected 4*len > 3*capacity" % [(x[0], show(x[1])[:40], show(x[2])[:40] if len(x) > 2 else "") for x in fx], uw.id)
        # initial set size
        init = None
        d = C.fn_one(prog, "hll::hash_set::HashSet", "default")
        if d is not None:
            sd = Sym(prog, d)
            for b, site in d.calls():
                if (site.get("callee") or "").endswith("HashSet::new"):
                    init = C.const_of(sd.operand(site["args"][0]))
            if init is None:
                e = sd.local(0)
                cs = [c for c in C.consts_in(e) if isinstance(c, int) and 2 <= c <= 10]
                init = cs[0] if cs else None
        n_k += 1
        res.obligations += 1
        if T is not None and set_promo is not None and init is not None:
            if T - set_promo == init:
                res.discharged += 1
                res.sample({"rule": "C18.K", "list_to_array_below_lg_k": T, "set_promotes_at_lg_k_minus": set_promo, "initial_set_lg": init})
            else:
                res.violate("C18.K", "C18.K|hll|threshold", "a list becomes a set when lg_k >= %d, the set starts at 2^%d slots and is only promoted at lg_size == lg_k - %d: for lg_k = %d the promotion size is below the initial size and the set grows without bound" % (
                    T, init, set_promo, T), uw.id)
        else:
            res.undecided += 1
    # ---------------- C18.K (chain) the list -> set -> array chain by value, for every lg_k: where a full list goes, the size the set
    # starts with, how it grows, and at which size it is converted are evaluated together -- each piece can look fine alone while for
    # one lg_k the set never meets its conversion size and grows with the stream
    try:
        chain = hll_chain(prog)
    except Exception as ex:       # a piece could not be located / evaluated: undecided
        chain = ("undecided", repr(ex))
    n_k += 1
    if chain[0] == "undecided":
        res.tri(None, "C18.K", "C18.K|hll|chain", "list/set/array chain not evaluable: %s" % (chain[1],))
    else:
        res.tri(chain[0] == "ok", "C18.K", "C18.K|hll|chain", chain[1], chain[2] if len(chain) > 2 else None)
    # aux map growth
    cg = C.fn_one(prog, "hll::aux_map::AuxMap", "check_grow")
    ins = C.fn_one(prog, "hll::aux_map::AuxMap", "insert")
    if cg is not None and ins is not None:
        s = Sym(prog, cg)
        n_k += 1
        res.obligations += 2
        ok = False
        for b, site in cg.calls():
            if (site.get("callee") or "").endswith("AuxMap::grow"):
                for x in s.cmp_facts_at(b):
                    if x[0] in ("Gt", "Lt") and len(x) == 3:
                        cond = ("bin", x[0], x[1], x[2])
                        lv = formula.leaves(cond)
                        ck = [k for k in lv if k.endswith("count")]
                        lk = [k for k in lv if k.endswith("lg_size")]
                        if ck and lk:
                            r, cex, n, why = formula.equivalent(cond, lambda env: int(4 * env[ck[0]] > 3 * (1 << env[lk[0]])), [{ck[0]: c, lk[0]: L} for L in range(0, 20) for c in (0, 1, (3 << L) // 4, (3 << L) // 4 + 1, 1 << L)])
                            ok = bool(r)
        # by value over the struct's own counter and size fields, whatever they are called: grow reached <=> 4*count > 3*2^lg
        if not ok:
            ok = None
            for b, site in cg.calls():
                if (site.get("callee") or "").endswith("AuxMap::grow"):
                    fp = C.facts_pred(s, b)
                    flds = [(n_, t_) for n_, t_ in prog.adts.get("hll::aux_map::AuxMap", {}).get("variants", [{}])[0].get("fields", [])]
                    cnt_f = [n_ for n_, t_ in flds if t_ in ("u32", "usize", "u64") and "lg" not in n_]
                    lg_f = [n_ for n_, t_ in flds if t_ == "u8" and "size" in n_]
                    if len(cnt_f) == 1 and len(lg_f) == 1:
                        ok = True
                        for L in range(2, 16):
                            for c in (0, 1, (3 << L) // 4, (3 << L) // 4 + 1, 1 << L):
                                holds, n_ev = fp({"@prog": prog, "self." + cnt_f[0]: c, "self." + lg_f[0]: L})
                                if n_ev == 0:
                                    ok = None
                                elif ok is not None and holds != (4 * c > 3 * (1 << L)):
                                    ok = False
        if ok:
            res.discharged += 1
        elif ok is None:
            res.undecided += 1
        else:
            res.violate("C18.K", "C18.K|aux|load", "the aux map does not grow exactly when 4*count > 3*size", cg.id)
        si = Sym(prog, ins)
        cgb = [b for b, st in ins.calls() if (st.get("callee") or "").endswith("::check_grow")]
        stores = [x[0] for x in C.buffer_stores(prog, ins, "entries")]
        if cgb and stores and all(not si.reaches_exit_avoiding(sb, set(cgb)) for sb in stores):
            res.discharged += 1
        elif not cgb or not stores:
            res.undecided += 1
        else:
            res.violate("C18.K", "C18.K|aux|check", "an insertion into the aux map can skip the growth check", ins.id)
    # t-digest buffer: capacity field found by its initialiser, fold trigger evaluated over (buffer length, capacity)
    capf, capv = C.tdigest_capacity_field(prog)
    n_k += 1
    res.tri(capv, "C18.K", "C18.K|tdigest|capacity", "the t-digest centroid capacity (%s) is not initialised to 2k + (30 if k < 30 else 10)" % capf)
    tu = C.pub_fn(prog, "tdigest::sketch::TDigestMut", "update")
    if tu is not None and capf and capv:
        s = Sym(prog, tu)
        n_k += 1
        pushes = [b for b, st in tu.calls() if (st.get("callee") or "").endswith("::push")]
        verdict = None
        if pushes:
            fp = C.facts_pred(s, pushes[0])
            comp = [b for b, st in tu.calls() if (st.get("callee") or "").startswith("tdigest::") and not (st.get("callee") or "").endswith("::push")]
            # a push with a full buffer must have passed the fold: evaluate, for full and non-full buffers, whether a fold call
            # is on the way (dominating facts of the fold call) 
            verdict = None
            for cb in comp:
                fc = C.facts_pred(s, cb)
                ok_all, any_eval = True, False
                for cap in (30, 50, 210):
                    for ln in (0, 1, cap, 4 * cap - 1, 4 * cap, 4 * cap + 1):
                        holds, n_ev = fc({"@prog": prog, "self." + capf: cap, "len(self.buffer)": ln, "value": 1.5})
                        if n_ev == 0:
                            continue
                        any_eval = True
                        if holds != (ln == 4 * cap) and not (holds and ln > 4 * cap):
                            ok_all = False
                if any_eval and s._reaches(cb, pushes[0]):
                    verdict = ok_all if verdict is None else (verdict and ok_all)
        res.tri(verdict, "C18.K", "C18.K|tdigest|compress", "TDigestMut::update does not fold the buffer exactly when it holds 4 * capacity values before pushing", tu.id)
    res.rule("C18.K", n_k, 6, "capacity rules")

    # ---------------- C18.F HLL image size formulas
    n_f = 0
    specs = {
        "hll::list::List": lambda env: 8 + 4 * env["c"],
        "hll::hash_set::HashSet": lambda env: 12 + 4 * env["c"],
        "hll::array4::Array4": lambda env: 40 + (1 << (env["lg"] - 1)) + 4 * env["a"],
        "hll::array6::Array6": lambda env: 40 + ((3 * (1 << env["lg"])) >> 2) + 1,
        "hll::array8::Array8": lambda env: 40 + (1 << env["lg"]),
    }
    for owner, spec in specs.items():
        f = C.fn_one(prog, owner, "serialize")
        if f is None:
            res.obligations += 1
            res.undecided += 1
            continue
        s = Sym(prog, f)
        for b, site in f.calls():
            if (site.get("callee") or "").endswith("SketchBytes::with_capacity"):
                e = s.at(b).operand(site["args"][0])
                lv = formula.leaves(e)
                n_f += 1
                res.obligations += 1
                cnt = [k for k in lv if k.endswith("container.len")]
                lg = [k for k in lv if k == "lg_config_k"]
                aux = [k for k in lv if k.startswith("len(") or "aux" in k]
                envs = []
                if cnt:
                    envs = [dict([(cnt[0], c), ("c", c)] + [(k, 3) for k in lv if k not in cnt]) for c in range(0, 200, 7)]
                elif lg:
                    for L in range(4, 22):
                        for a in (0, 1, 5):
                            env = {lg[0]: L, "lg": L, "a": a}
                            for k in aux:
                                env[k] = a
                            envs.append(env)
                r, cex, n, why = formula.equivalent(e, spec, envs) if envs else (None, None, 0, "no leaves")
                if r:
                    res.discharged += 1
                    res.sample({"rule": "C18.F", "fn": f.id, "capacity": show(e)[:120]})
                elif r is False:
                    res.violate("C18.F", "C18.F|" + owner, "the image size computed in %s is %s, which differs from the format's size at %s" % (f.id, show(e)[:100], cex), f.id, site["span"])
                else:
                    res.undecided += 1
    res.rule("C18.F", n_f, 5, "HLL image size formulas")
    # ---------------- C18.P CPC pseudo-phase (selects the Huffman table and column permutation of the compressed image; a wrong
    # phase between writer and foreign reader breaks compatibility, and the wrong table inflates the image past its bound)
    def spec_phase(lg_k, c):
        k = 1 << lg_k
        if 1000 * c < 2375 * k:
            if 4 * c < 3 * k:
                return 16
            if 10 * c < 11 * k:
                return 17
            if 100 * c < 132 * k:
                return 18
            if 3 * c < 5 * k:
                return 19
            if 1000 * c < 1965 * k:
                return 20
            if 1000 * c < 2275 * k:
                return 21
            return 6
        return (c >> (lg_k - 4)) & 15
    pts = [(lg, c) for lg in range(4, 27) for c in sorted(set(
        [0, 1] + [((1 << lg) * m) // 1000 + d for m in (750, 1100, 1320, 1666, 1667, 1965, 2275, 2300, 2374, 2375, 2376, 3000, 7777, 20000) for d in (-1, 0, 1)])) if 0 <= c < 2 ** 32]
    pf = C.fn_by_semantics(prog, "cpc::compression", "determine_pseudo_phase", 2, lambda call: all(call(lg, c) == spec_phase(lg, c) for lg, c in pts[::37]))
    n_p = 0
    if pf is not None:
        n_p = 1
        e_ = C.ret_expr(prog, pf)
        verdict, wit = None, ""
        try:
            verdict = True
            for lg, c in pts:
                got = formula.evaluate(e_, {"@prog": prog, pf.local_name(1) or "lg_k": lg, pf.local_name(2) or "num_coupons": c})
                if got != spec_phase(lg, c):
                    verdict, wit = False, "lg_k=%d C=%d: phase %r, published %d" % (lg, c, got, spec_phase(lg, c))
                    break
        except (formula.Uneval, TypeError):
            verdict = None
        res.tri(verdict, "C18.P", "C18.P|pseudo-phase", "%s differs from the published pseudo-phase function: %s" % (pf.id, wit), pf.id)
    res.rule("C18.P", n_p, 1, "CPC pseudo-phase function")

    # ---------------- C18.S frequent-items sizing (imported from C07.S): the configured maximum map size bounds the map that
    # is actually built, and the capacity the sketch reports is 3/4 of it
    try:
        from . import C07
        r7 = C07.run(prog, dict(ctx))
        for v in r7.violations:
            if v.rule == "C07.S" and "anchor-lost" not in v.key:
                res.violate("C18.S", "C18.S|" + v.key, "frequent-items sizing: " + v.message, getattr(v, "fn", None), getattr(v, "span", None))
        res.obligations += 1
        if not any(v.rule == "C07.S" for v in r7.violations):
            res.discharged += 1
        res.rule("C18.S", r7.rules.get("C07.S", {}).get("instances", 0), 3, "frequent-items sizing formulas (imported from C07.S)")
    except Exception as ex:
        res.extra.setdefault("undecided_items", []).append("C18.S could not run C07: %r" % (ex,))
    # HLL: 4 bytes per aux entry, and an aux entry exists exactly for a register at or above cur_min + 15 (C02.A4)
    C.import_rules(res, prog, ctx, "C18.A", "C02", ("C02.A4", "C02.S"), "aux entries only for exception registers", 3)
    # HLL union: a source is adopted wholesale only at the union's own lg_k (C03.L); adopting a larger one keeps its bigger tables
    C.import_rules(res, prog, ctx, "C18.L", "C03", ("C03.L",), "wholesale adoption only at equal lg_k", 1)
    # theta: k entries after trim -- the trim condition by value over (retained, allocated, k, theta) and the public trim handing over (C04.T)
    C.import_rules(res, prog, ctx, "C18.T", "C04", ("C04.T",), "theta retains k entries after trim", 0)
    res.explanation = ("who-may-grow over all %d functions of the crate for the six fixed-size buffers; capacity-rule guards and formulas for HLL "
                       "list/set/aux promotion, t-digest buffering and capacity; HLL image-size formulas evaluated over lg_k 4..=21" % len(allf))
    res.not_decided = "CPC's empirical 99.9% size bound"
    # ---------------- C18.R a coupon set rebuilt from an image gets the table size the image records.  The update path promotes a set to
    # the register array when its table has reached lg_k - 3 *exactly*; a reader that sizes the table from anything else (the coupon
    # count, a load rule of its own) can land one size above and the set is then never promoted: it doubles with the stream.  By
    # value: the argument of the set constructor in the set reader for every recorded size 5..=18 and every count the size admits.
    n_r = 0
    hs = "hll::hash_set::HashSet"
    rd = C.fn_one(prog, hs, "deserialize")
    if rd is not None:
        srd = Sym(prog, rd)
        for b, site in rd.calls():
            cal = site.get("callee") or ""
            if not (cal.startswith(hs + "::") and cal.rsplit("::", 1)[-1] in ("new", "with_lg_size", "with_capacity")) or len(site["args"]) != 1:
                continue
            e = srd.at(b, "t").operand(site["args"][0])
            lv = formula.leaves(e)
            lg_keys = [k for k in lv if lv[k][0] in ("param", "var") and "lg" in k]
            cnt_keys = [k for k in lv if k not in lg_keys and (k.startswith("read_") or lv[k][0] in ("param", "var"))]
            n_r += 1
            if len(lg_keys) != 1 or len(cnt_keys) > 1:
                res.tri(None, "C18.R", "C18.R|%s" % rd.id, "size argument `%s` not recognised" % show(e)[:60])
                continue
            verdict, wit = True, ""
            for lg in range(5, 19):
                full = 3 * (1 << lg) // 4
                for cnt in sorted({0, 1, full // 2, full - 1, full}):
                    env = {"@prog": prog, lg_keys[0]: lg}
                    if cnt_keys:
                        env[cnt_keys[0]] = cnt
                    try:
                        got = formula.evaluate(e, env)
                    except (formula.Uneval, TypeError, ZeroDivisionError):
                        verdict = None
                        break
                    if got != lg and verdict:
                        verdict, wit = False, "recorded lg_arr %d with %d coupons -> table of lg size %s" % (lg, cnt, got)
                if verdict is None:
                    break
            res.tri(verdict, "C18.R", "C18.R|%s" % rd.id, "the set reader sizes the table with `%s`: %s; the promotion test `lg_size == lg_k - 3` is then never met for an image "
                    "taken at the last set size and the set grows without bound" % (show(e)[:80], wit), rd.id, site.get("span"),
                    sample={"rule": "C18.R", "size": show(e)[:80]})
    res.rule("C18.R", n_r, 1, "set constructions in the coupon-set reader")
    return res
