"""C07 — frequent-items bounds always bracket the true count, across updates and merges.

Decided statically (DESIGN §5.7):
  C07.C  conservation on merge: every normal path of merge() either adds the other sketch's stream weight and offset to
         this sketch's, or is guarded by `other.stream_weight == 0`
  C07.B  bound formulas: lower = counter, upper = counter + offset, maximum_error = offset, estimate = counter>0 ?
         counter+offset : 0; frequent_items compares upper (NoFalseNegatives) / lower (NoFalsePositives) with a
         threshold >= offset
  C07.P  purge: the value returned by the map's purge is added to offset; the same median is subtracted from every counter
         and zero counters are removed afterwards; stream_weight += count on every non-zero update
  C07.K  every insertion reachable from update/merge is followed on every path by the resize-or-purge step
  C07.S  sizing: sample size = min(1024, 3/4 * 2^lg_max), maximum capacity = 3/4 * 2^lg_max, initial capacity from the
         current map (formulas evaluated for every lg 0..=31)
Not decided: the bracket for every item of every stream.
"""
from .. import ir, sym, formula
from ..main import Result
from . import common as C
from .common import Sym, show

F = "frequencies::sketch::FrequentItemsSketch"
M = "frequencies::reverse_purge_item_hash_map::ReversePurgeItemHashMap"


def run(prog, ctx):
    res = Result("C07")
    upd = C.pub_fn(prog, F, "update_with_count")
    mrg = C.pub_fn(prog, F, "merge")
    res.rule("C07.entry", (1 if upd else 0) + (1 if mrg else 0), 2, "FrequentItemsSketch::update_with_count, merge")
    if not upd or not mrg:
        return res
    # the readers rebuild the map from an image: their insertions are held to the same capacity discipline (a table filled past its
    # load limit makes the open-addressing probe run forever or hit the drift limit)
    readers = [f for f in prog.fns.values() if not f.promoted and f.owner == F and (f.item_name or "").startswith("deserialize")]
    reach = C.reach_from(prog, [upd, mrg, C.pub_fn(prog, F, "new")] + sorted(readers, key=lambda f: f.id))
    res.functions_analysed = len(reach)
    res.entry_points = [upd.id, mrg.id]

    # ---------------- C07.C merge conservation
    s = Sym(prog, mrg)
    st_off = [(b, s.rvalue(rv)) for (f, b, kind, place, rv, span, adt, fld) in sym.field_stores(prog, adt=F, field="offset", fns=[mrg]) if rv is not None]
    st_w = [(b, C.resolve_var(prog, mrg, s.rvalue(rv), s)) for (f, b, kind, place, rv, span, adt, fld) in sym.field_stores(prog, adt=F, field="stream_weight", fns=[mrg]) if rv is not None]
    res.obligations += 3
    def adds_other(e, fld):
        """self.<fld> + <another parameter>.<fld> (parameter names are irrelevant)"""
        mine = sym.contains(e, lambda t: t[0] == "field" and t[2] == fld and t[1][0] == "param" and t[1][1] == 1)
        theirs = sym.contains(e, lambda t: t[0] == "field" and t[2] == fld and t[1][0] == "param" and t[1][1] >= 2)
        return sym.contains(e, lambda t: C.is_bin(t, "Add")) and mine and theirs

    def conservation(stores, fld):
        if any(adds_other(e, fld) for _, e in stores):
            return True
        # positive evidence of a loss: merge stores the field without the other sketch's share, or nothing in merge (nor in a
        # callee that is handed the other sketch) stores it
        if stores:
            return False
        for b_, site_ in mrg.calls():
            tgt_ = site_.get("callee")
            if tgt_ in prog.fns and any((lambda ae: ae[0] == "param" and ae[1] >= 2)(s.at(b_, "t").operand(a_)) for a_ in site_["args"]) and any(
                    True for g_ in C.reach_from(prog, [tgt_]) for _ in sym.field_stores(prog, adt=F, field=fld, fns=[g_])):
                return None
        return False
    ok_off = conservation(st_off, "offset")
    ok_w = conservation(st_w, "stream_weight")
    res.obligations -= 2
    res.tri(ok_off, "C07.C", "C07.C|offset", "merge does not add the other sketch's offset to self.offset (stores: %s)" % [show(e) for _, e in st_off], mrg.id)
    res.tri(ok_w, "C07.C", "C07.C|weight", "merge does not store self.stream_weight + the other sketch's stream_weight (stores: %s)" % [show(e) for _, e in st_w], mrg.id)
    blocks = set(b for b, _ in st_off) | set()
    wblocks = set(b for b, _ in st_w)
    # paths that avoid the conserving stores must be dominated by other.stream_weight == 0
    bad = False
    for ex in mrg.exits():
        pass
    avoid = blocks & wblocks if (blocks and wblocks) else (blocks or wblocks)
    early = []
    if s.reaches_exit_avoiding(0, set(blocks) | set(wblocks)):
        # find return-reaching blocks not passing the stores: the guard blocks
        for b in mrg.blocks:
            if b.cleanup or b.term[0] != "switch":
                continue
            for tgt in mrg.succs(b.idx):
                if s.reaches_exit_avoiding(tgt, set(blocks) | set(wblocks)) and not any(mrg.dominates(x, tgt) for x in blocks | wblocks):
                    fx = s.cmp_facts_at(tgt)
                    if s.edge_dominates(b.idx, tgt, tgt):
                        early.append((tgt, fx))
        okg = bool(early) and all(any(x[0] == "Eq" and len(x) == 3 and (sym.contains(x[1], lambda t: t[0] == "field" and t[1][0] == "param" and t[1][1] >= 2) or sym.contains(x[2], lambda t: t[0] == "field" and t[1][0] == "param" and t[1][1] >= 2)) and 0 in (C.const_of(x[1]), C.const_of(x[2])) for x in fx)
                                  or any(mrg.dominates(t2, tgt) and t2 != tgt for t2, _ in early) for tgt, fx in early)
        # accept only if the first avoiding edge is the weight guard
        first = [fx for tgt, fx in early if not any(mrg.dominates(t2, tgt) and t2 != tgt for t2, _ in early)]
        okg = bool(first) and all(any(x[0] == "Eq" and len(x) == 3 and (sym.contains(x[1], lambda t: t[0] == "field" and t[1][0] == "param" and t[1][1] >= 2) or sym.contains(x[2], lambda t: t[0] == "field" and t[1][0] == "param" and t[1][1] >= 2)) and 0 in (C.const_of(x[1]), C.const_of(x[2])) for x in fx) for fx in first)
        if okg:
            res.discharged += 1
        elif not first:
            res.undecided += 1
        else:
            res.violate("C07.C", "C07.C|early-return", "merge has a path that skips adding the other sketch's weight/offset and is not guarded by `other.stream_weight == 0` (guards: %s)" % [
                [(x[0], show(x[1])[:40], show(x[2])[:40] if len(x) > 2 else "") for x in fx] for fx in first][:2], mrg.id)
    else:
        res.discharged += 1
    # lost updates: a field value computed from a read taken before a call that itself updates the field (merge replays the other
    # sketch's counters through update_with_count, which purges and adds to offset)
    # exception (confirmed by reading): merge() sets stream_weight = self + other on purpose *after* the replay, because the
    # replayed counters only sum to a lower bound of the other sketch's stream weight; the replay's additions must be discarded
    LOST_OK = {("merge", "stream_weight")}
    lost = [x for x in C.lost_updates(prog, F) if (x[0].item_name, x[1]) not in LOST_OK]
    res.obligations += 1
    if lost:
        for (f_, fld_, cb_, span_) in lost[:3]:
            res.violate("C07.C", "C07.C|%s|lost-update|%s" % (f_.id, fld_), "%s overwrites self.%s with a value computed before calling %s, which also updates self.%s: that update is lost" % (
                f_.id, fld_, f_.blocks[cb_].term[1].get("callee"), fld_), f_.id, span_)
    else:
        res.discharged += 1
    res.rule("C07.C", len(st_off) + len(st_w), 2, "conserving stores in merge")

    # ---------------- C07.B bound formulas
    n_b = 0
    def ret_expr(f):
        s_ = Sym(prog, f)
        rets = [b.idx for b in f.blocks if b.term[0] == "return" and not b.cleanup]
        return s_.at(rets[0]).local(0) if rets else ("unknown",)
    for nm, spec, txt in (
            ("lower_bound", lambda v, off, sw: v, "counter"),
            ("upper_bound", lambda v, off, sw: v + off, "counter + offset"),
            ("maximum_error", lambda v, off, sw: off, "offset"),
            ("total_weight", lambda v, off, sw: sw, "stream_weight"),
            ("estimate", lambda v, off, sw: (v + off) if v > 0 else 0, "counter > 0 ? counter + offset : 0")):
        f = C.pub_fn(prog, F, nm)
        if f is None:
            res.violate("C07.B", "C07.B|missing|" + nm, "FrequentItemsSketch::%s no longer exists" % nm)
            continue
        e = ret_expr(f)
        n_b += 1
        res.obligations += 1
        bad = None
        try:
            for v in (0, 1, 5, 10 ** 9):
                for off in (0, 3, 77):
                    for sw in (0, 12345):
                        got = formula.evaluate(e, {"@prog": prog, "@fn:get": lambda m, item, _v=v: _v, "@lenient": ("get",), "self.offset": off, "self.stream_weight": sw})
                        if got != spec(v, off, sw):
                            bad = "counter=%d offset=%d stream_weight=%d: %r, expected %r" % (v, off, sw, got, spec(v, off, sw))
        except formula.Uneval as u:
            res.undecided += 1
            res.extra.setdefault("undecided_items", []).append("C07.B %s not evaluable: %s" % (nm, u))
            continue
        if bad is None:
            res.discharged += 1
            res.sample({"rule": "C07.B", "fn": nm, "returns": show(e)})
        else:
            res.violate("C07.B", "C07.B|" + nm, "%s returns %s, which is not %s (%s)" % (nm, show(e), txt, bad), f.id)
    fi = C.pub_fn(prog, F, "frequent_items_with_threshold")
    if fi is not None:
        s2 = Sym(prog, fi)
        res.obligations += 1
        n_b += 1
        cmps = []
        for b in fi.blocks:
            if b.cleanup:
                continue
            for st in b.stmts:
                if st[0] == "=" and st[2][0] == "bin" and st[2][1] in ("Gt", "Lt", "Ge", "Le"):
                    cmps.append((b.idx, s2.at(b.idx).rvalue(st[2])))
        shapes = set()
        for b, e in cmps:
            t = show(e)
            if "threshold" in t or "max(" in t:
                fx = s2.cmp_facts_at(b)
                arm = [x for x in fx if x[0] in ("Eq", "NotIn", "true", "false") and "error_type" in show(x[1])]
                up = "self.offset" in show(e[2]) or "self.offset" in show(e[3])
                strict = e[1] in ("Gt", "Lt")
                shapes.add((up, strict, "threshold"))
        # one comparison uses count + offset, one uses the bare count, both strict against max(threshold, offset)
        if (True, True, "threshold") in shapes:
            res.discharged += 1
        elif (True, False, "threshold") in shapes:
            res.violate("C07.B", "C07.B|frequent_items", "frequent_items_with_threshold compares the upper bound non-strictly against the threshold", fi.id)
        else:
            res.undecided += 1
    res.rule("C07.B", n_b, 5, "bound accessors")

    # ---------------- C07.P purge flow and C07.K resize-or-purge after insertion
    n_p = 0
    for f in reach:
        if f.owner != F:
            continue
        s3 = Sym(prog, f)
        for b, site in f.calls():
            cal = site.get("callee") or ""
            if cal.endswith("::purge") and cal.startswith(M):
                n_p += 1
                res.obligations += 1
                stores = [(bb, s3.rvalue(rv)) for (ff, bb, kind, place, rv, span, adt, fld) in sym.field_stores(prog, adt=F, field="offset", fns=[f]) if rv is not None]
                if any(C.is_bin(e, "Add") and "self.offset" in show(e) and ("purge(" in show(e) or sym.contains(
                        e, lambda t: t[0] == "call" and t[2] and isinstance(t[2][0], tuple) and "hash_map" in show(t[2][0]))) for _, e in stores):
                    res.discharged += 1
                elif site.get("dest") is not None and not isinstance(site["dest"], int):
                    res.undecided += 1
                elif stores and any(sym.contains(e, lambda t: t[0] == "var") for _, e in stores):
                    res.undecided += 1      # the purge result travels through a reassigned local
                else:
                    res.violate("C07.P", "C07.P|%s|offset" % f.id, "the value returned by purge in %s is not added to offset" % f.id, f.id, site["span"])
            if cal.endswith("::adjust_or_put_value"):
                n_p += 1
                res.obligations += 1
                rp = [bb for bb, st in f.calls() if (st.get("callee") or "").endswith("::maybe_resize_or_purge")]
                if rp and not s3.reaches_exit_avoiding(site["target"] if site["target"] is not None else b, set(rp)):
                    res.discharged += 1
                elif not rp and any((st.get("callee") or "").startswith("frequencies::") and bb != b and s3._reaches(b, bb) for bb, st in f.calls()):
                    res.undecided += 1      # some other in-crate step follows the insertion (renamed helper?)
                else:
                    res.violate("C07.K", "C07.K|%s" % f.id, "an insertion in %s can reach the function exit without the resize-or-purge step" % f.id, f.id, site["span"])
    pf = C.fn_one(prog, M, "purge")
    if pf is not None:
        s4 = Sym(prog, pf)
        res.obligations += 2
        n_p += 1
        ret = C.resolve_var(prog, pf, s4.local(0), s4)
        adj = [(b, s4.operand(st["args"][1])) for b, st in pf.calls() if (st.get("callee") or "").endswith("::adjust_all_values_by")]
        keep = [b for b, st in pf.calls() if (st.get("callee") or "").endswith("::keep_only_positive_counts")]
        if adj and C.resolve_var(prog, pf, adj[0][1], s4) == ret:
            res.discharged += 1
        elif not adj or sym.contains(ret, lambda t: t[0] == "var"):
            res.undecided += 1
        else:
            res.violate("C07.P", "C07.P|purge|median", "purge subtracts %s from the counters but returns %s" % (show(adj[0][1]) if adj else "nothing", show(ret)), pf.id)
        if adj and keep and pf.dominates(adj[0][0], keep[0]):
            res.discharged += 1
        elif not (adj and keep):
            res.undecided += 1
        else:
            res.violate("C07.P", "C07.P|purge|cleanup", "purge does not remove zero counters after the subtraction", pf.id)
    s5 = Sym(prog, upd)
    res.obligations += 1
    sw = [s5.rvalue(rv) for (ff, bb, kind, place, rv, span, adt, fld) in sym.field_stores(prog, adt=F, field="stream_weight", fns=[upd]) if rv is not None]
    if any(sym.contains(e, lambda t: C.is_bin(t, "Add") or (t[0] == "call" and t[1].rsplit("::", 1)[-1] in ("checked_add", "saturating_add", "wrapping_add"))) and
           sym.contains(e, lambda t: t[0] == "param" and t[1] >= 2) and sym.contains(e, lambda t: t[0] == "field" and t[2] == "stream_weight") for e in sw):
        res.discharged += 1
    elif sw:
        res.undecided += 1
    else:
        res.violate("C07.P", "C07.P|stream_weight", "update_with_count does not add the count to stream_weight", upd.id)
    res.rule("C07.P", n_p, 3, "purge/insert sites")

    # ---------------- C07.D deletion by back-shifting: an entry moved into the hole keeps its probe distance consistent —
    # the state written is `states[probe] - d` for the same d the guard `states[probe] > d` tested (Knuth 6.4 R)
    def strip(e):
        while isinstance(e, tuple) and e and e[0] == "cast":
            e = e[1]
        return e
    _strip = strip
    n_dd = 0
    for f in [x for x in prog.fns.values() if not x.promoted and x.owner and x.owner.startswith("frequencies::reverse_purge_item_hash_map::ReversePurgeItemHashMap")]:
        sf = Sym(prog, f, ifconv=False)
        for (b, base, ie, val, span, _s) in C.buffer_stores(prog, f, "states"):
            v = strip(val)
            if not (C.is_bin(v, "Sub") and sym.contains(v[2], lambda t: (t[0] == "index" and "states" in show(t[1])) or (t[0] == "call" and t[1].rsplit("::", 1)[-1] == "index" and "states" in show(t)))):
                continue
            n_dd += 1
            res.obligations += 1
            moved, dist = strip(v[2]), strip(v[3])
            guards = []
            for x in sf.cmp_facts_at(b):
                if len(x) != 3 or x[0] not in ("Gt", "Lt", "Ge", "Le"):
                    continue
                a, c, op = strip(C.resolve_var(prog, f, x[1], sf)), strip(C.resolve_var(prog, f, x[2], sf)), x[0]
                if op in ("Lt", "Le"):
                    a, c, op = c, a, {"Lt": "Gt", "Le": "Ge"}[op]
                if a == moved:
                    guards.append((op, c))
            if any(op == "Gt" and c == dist for op, c in guards):
                res.discharged += 1
                res.sample({"rule": "C07.D", "fn": f.id, "store": show(val), "guard": "%s > %s" % (show(moved), show(dist))})
            elif guards:
                res.violate("C07.D", "C07.D|%s" % f.id, "%s writes state %s under the guard %s: the distance subtracted is not the distance tested, so a moved entry can end up before its home slot and become unreachable" % (
                    f.id, show(val), " / ".join("%s %s %s" % (show(moved), ">" if op == "Gt" else ">=", show(c)) for op, c in guards)), f.id, span)
            else:
                res.undecided += 1
    # the back-shift scan runs to the next free slot (state 0); nothing else may end it
    for f in [x for x in prog.fns.values() if not x.promoted and x.owner and x.owner.startswith("frequencies::reverse_purge_item_hash_map::ReversePurgeItemHashMap")]:
        sf = Sym(prog, f, ifconv=False)
        for header, body in sf.loops():
            moves = [1 for (b, base, ie, val, span, _s) in C.buffer_stores(prog, f, "states") if b in body and C.is_bin(_strip(val), "Sub")]
            if not moves:
                continue
            n_dd += 1
            res.obligations += 1
            bad = None
            for x, cond, _ in C.loop_exits(prog, f, sf, header, body):
                if cond is None:
                    continue
                c = cond
                ok = c[0] == "bin" and c[1] in ("Eq", "Ne") and (C.const_of(c[2]) == 0 or C.const_of(c[3]) == 0) and "states" in show(c)
                if not ok:
                    bad = show(c)
            if bad is None:
                res.discharged += 1
            else:
                res.violate("C07.D", "C07.D|%s|scan" % f.id, "%s: the back-shift scan after a deletion can stop before the next free slot (exit condition %s)" % (f.id, bad[:120]), f.id)
    res.rule("C07.D", n_dd, 2, "back-shift state updates and scan exits in the reverse-purge map")

    # ---------------- C07.S sizing formulas
    n_s = 0
    ctor = None
    for f in sorted(reach, key=lambda x: x.id):
        if f.owner == F and f.kind == "method":
            direct = any(st[0] == "=" and st[2][0] == "agg" and st[2][1][0] == "adt" and st[2][1][1] == F for b in f.blocks if not b.cleanup for st in b.stmts)
            if not direct:
                continue
            s6 = Sym(prog, f)
            e = s6.local(0)
            if e[0] == "agg" and e[1].endswith("FrequentItemsSketch::FrequentItemsSketch"):
                ctor = (f, e)
    if ctor is None:
        res.obligations += 1
        res.undecided += 1
    else:
        f, e = ctor
        names = [fl[0] for fl in prog.adts[F]["variants"][0]["fields"]]
        vals = dict(zip(names, e[2]))
        params = [f.local_name(i) for i in range(1, f.argc + 1)]
        # which parameter is the maximum size and which the current size: at the public constructor's call site the current size
        # is a constant (the minimum map size) and the maximum derives from the caller's argument; fall back on the names
        if len(params) == 2:
            i_max = i_cur = None
            for g_ in C.fns_of(prog, F):
                if not (g_.exported or g_.is_pub):
                    continue
                sg_ = Sym(prog, g_)
                for b_, st_ in g_.calls():
                    if st_.get("callee") == f.id and len(st_["args"]) == 2:
                        a_ = [sg_.at(b_, "t").operand(x) for x in st_["args"]]
                        consts_ = [k for k in (0, 1) if a_[k][0] in ("const", "constref") or not sym.contains(a_[k], lambda t: t[0] == "param")]
                        if len(consts_) == 1:
                            i_cur, i_max = consts_[0], 1 - consts_[0]
            if i_max is None:
                mx = [k for k in (0, 1) if "max" in (params[k] or "")]
                cu = [k for k in (0, 1) if "cur" in (params[k] or "")]
                if len(mx) == 1 and len(cu) == 1 and mx != cu:
                    i_max, i_cur = mx[0], cu[0]
            if i_max is None:
                params = []
            else:
                params = [params[i_max], params[i_cur]]
        envs = [{params[0]: a, params[1]: c} for a in range(0, 32) for c in range(0, a + 1)] if len(params) == 2 else []
        checks = [("sample_size", lambda env: min(1024, ((1 << max(env[params[0]], 3)) * 3) // 4)),
                  ("lg_max_map_size", lambda env: max(env[params[0]], 3))]
        for fld, spec in checks:
            if fld not in vals:
                continue
            n_s += 1
            res.obligations += 1
            ok, cex, n, why = formula.equivalent(vals[fld], spec, envs)
            if ok:
                res.discharged += 1
                res.sample({"rule": "C07.S", "field": fld, "formula": show(vals[fld]), "points": n})
            elif ok is False:
                res.violate("C07.S", "C07.S|" + fld, "%s is initialised as %s, which differs from the published sizing at %s" % (fld, show(vals[fld]), cex), f.id)
            else:
                res.undecided += 1
        # the map is created with 2^max(lg_cur,3) slots
        hm = vals.get("hash_map")
        if hm is not None:
            n_s += 1
            res.obligations += 1
            arg = hm[2][0] if hm[0] == "call" and hm[2] else None
            ok = None
            if arg is not None:
                ok, cex, n, why = formula.equivalent(arg, lambda env: 1 << max(env[params[1]], 3), envs)
            if ok:
                res.discharged += 1
            elif ok is False:
                res.violate("C07.S", "C07.S|hash_map", "the initial map size %s differs from 2^max(lg_cur,3) at %s" % (show(arg), cex), f.id)
            else:
                res.undecided += 1
    mc = C.pub_fn(prog, F, "maximum_map_capacity")
    if mc is not None:
        e = ret_expr(mc)
        lv = [k for k in formula.leaves(e) if k.endswith("lg_max_map_size")]
        n_s += 1
        res.obligations += 1
        ok = None
        if lv:
            ok, cex, n, why = formula.equivalent(e, lambda env: ((1 << env[lv[0]]) * 3) // 4, [{lv[0]: a} for a in range(3, 32)])
        if ok:
            res.discharged += 1
        elif ok is False:
            res.violate("C07.S", "C07.S|maximum_map_capacity", "maximum_map_capacity is %s, expected 3/4 * 2^lg_max (%s)" % (show(e), cex), mc.id)
        else:
            res.undecided += 1
    res.rule("C07.S", n_s, 3, "sizing formulas")
    # C07.X a counter leaves the map only because *its own* value dropped to zero or below: every place that deactivates slots
    # (writes the occupancy array with zero / fills it / clears the keys) outside the constructors and the resize rebuild is reached
    # under a comparison on an element of the counters array, or is the delete helper called under such a comparison
    MX = "frequencies::reverse_purge_item_hash_map::ReversePurgeItemHashMap"
    n_x = 0
    for f in prog.fns.values():
        if f.promoted or not (f.owner or "").startswith(MX) or "{closure" in f.id or f.argc < 1 or not f.local_ty(1).startswith("&mut"):
            continue
        if f.item_name in ("new", "resize"):
            continue
        muts = C.buffer_mutations(f, "states")
        if not muts:
            continue
        sx = Sym(prog, f)
        callers_guarded = None
        for b in sorted(muts):
            t = f.blocks[b].term
            nm = (t[1].get("callee") or "").rsplit("::", 1)[-1] if t[0] == "call" else ""
            # does the block store a non-zero state (activation)?  only deactivations matter
            vals = [st[2] for st in f.blocks[b].stmts if st[0] == "=" and not isinstance(st[1], int)]
            if vals and not any(v[0] == "use" and v[1][0] == "k" and v[1][1].get("v") == 0 for v in vals):
                continue        # stores something other than the constant 0: an activation / a drift update, not a deactivation
            facts = sx.cmp_facts_at(b)
            on_values = any(any(y[0] == "field" and y[-1] == "values" for z in t_[1:] if isinstance(z, tuple) for y in sym.walk(z)) for t_ in facts)
            n_x += 1
            if on_values:
                res.tri(True, "C07.X", "C07.X|%s" % f.id, "", f.id)
                continue
            # a helper that deactivates unconditionally is fine when every call of it is guarded by the counter of the slot
            sites = [(g, bb) for g in prog.fns.values() if not g.promoted and (g.owner or "").startswith(MX) for bb, st in g.calls() if st.get("callee") == f.id]
            if sites and all(any(any(y[0] == "field" and y[-1] == "values" for z in t_[1:] if isinstance(z, tuple) for y in sym.walk(z)) for t_ in Sym(prog, g).cmp_facts_at(bb)) for g, bb in sites):
                res.tri(True, "C07.X", "C07.X|%s" % f.id, "", f.id)
            elif nm in ("fill", "clear", "for_each") or not sites:
                res.tri(False, "C07.X", "C07.X|%s" % f.id, "%s deactivates slots of the map (%s on the occupancy array) without a comparison on the slots' own counters: an item whose "
                        "counter is still positive is dropped while only the purge amount is added to the offset, so its upper bound falls below its true count" % (f.id, nm or "store"), f.id)
            else:
                res.tri(None, "C07.X", "C07.X|%s" % f.id, "deactivation in %s not classified" % f.id, f.id)
    res.rule("C07.X", n_x, 1, "slot deactivations guarded by the slot's own counter")
    # an index found by a probe is used before the map can be resized
    M_ = "frequencies::reverse_purge_item_hash_map::ReversePurgeItemHashMap"
    owners_ = sorted(set(f.owner for f in prog.fns.values() if f.owner and f.owner.startswith(M_)))
    n_i = 0
    for ow in owners_:
        for buf in ("keys", "values", "states"):
            n_i += 1
            bad_ = list(C.stale_index_stores(prog, ow, buf))
            for f_, sb_, gcal_ in bad_:
                res.violate("C07.I", "C07.I|%s|%s" % (f_.id, buf), "%s stores into `%s` at an index obtained before the call of %s, which can reallocate the map" % (f_.id, buf, gcal_), f_.id)
            res.obligations += 1
            if not bad_:
                res.discharged += 1
    res.rule("C07.I", n_i, 3, "probe index used before the map can be reallocated")
    # ---------------- C07.N a decision taken after an insertion looks at the count after it (common.stale_count_decisions)
    C.stale_count_rule(res, prog, "C07.N", "frequencies::", "frequent-items map")
    # ---------------- C07.Z a table and the recorded log2 of its size change together: no callee sees one without the other
    n_z = 0
    n_z += C.coupled_store_rule(res, prog, "C07.Z", "frequencies::reverse_purge_item_hash_map::ReversePurgeItemHashMap", "keys", "lg_length")
    n_z += C.coupled_store_rule(res, prog, "C07.Z", "frequencies::reverse_purge_item_hash_map::ReversePurgeItemHashMap", "states", "lg_length")
    res.rule("C07.Z", n_z, 0, "table / size field pairs")
    # ---------------- C07.R the per-slot state of the map is the probe distance + 1 (0 = free): whatever is stored there stays within
    # 0..=table length.  Every store into the state array whose value can be evaluated is evaluated on a 16-slot table for every
    # (probe position, home slot) pair; a distance computed without wrapping around the end of the array shows up as a huge state.
    import itertools as _it
    n_r = 0
    for f in sorted((x for x in prog.fns.values() if not x.promoted and x.owner == M), key=lambda x: x.id):
        for (b, buf, idx, val, span, sx) in C.buffer_stores(prog, f, "states"):
            lv = formula.top_leaves(val)
            if not lv:
                continue
            doms = {}
            ok_shape = True
            for k, node in lv.items():
                if node[0] == "var":
                    doms[k] = list(range(16))
                elif "size" in k or k.startswith("len(") or "length" in k:
                    doms[k] = [16]
                elif node[0] in ("call", "field") and ("finish" in k or "hash" in k):
                    doms[k] = [0, 5, 15, (1 << 40) + 3, (1 << 64) - 1]
                else:
                    ok_shape = False
            if not ok_shape or len(doms) > 3 or not any(len(d) > 1 for d in doms.values()):
                continue
            n_r += 1
            verdict, wit = None, ""
            keys_ = sorted(doms)
            for combo in _it.product(*[doms[k] for k in keys_]):
                env = {"@prog": prog}
                env.update(dict(zip(keys_, combo)))
                try:
                    v = formula.evaluate(val, env)
                except (formula.Uneval, TypeError, IndexError, ZeroDivisionError):
                    continue
                if not isinstance(v, int):
                    continue
                if verdict is None:
                    verdict = True
                if not (0 <= v <= 16) and verdict is not False:
                    verdict, wit = False, "with %s a state of %d is stored in a 16-slot table" % (dict(zip(keys_, combo)), v)
            res.tri(verdict, "C07.R", "C07.R|%s" % f.id, "%s stores a probe distance that is not taken modulo the table size: %s" % (f.id, wit), f.id, span)
    res.rule("C07.R", n_r, 0, "evaluable stores into the slot-state array")
    res.explanation = ("structural and formula rules over the %d functions reachable from FrequentItemsSketch::{new,update_with_count,merge}: merge "
                       "conservation with its guard, bound accessor formulas, purge flow, resize-or-purge after every insertion, sizing formulas "
                       "evaluated for lg 0..=31" % len(reach))
    res.not_decided = "the bracket lower <= true count <= upper for every item of every stream"
    # ---------------- C07.T reset: the fresh sketch is assigned as the constructor built it
    n_t = 0
    for (f_, ok, what, span) in C.reset_assigns_fresh(prog, F):
        n_t += 1
        res.tri(ok, "C07.T", "C07.T|%s" % f_.id, "%s builds a fresh sketch and changes it before `*self = ..` (%s): fields the constructor computed for the part "
                "that was replaced (the cached map capacity) no longer describe it -- a reset sketch that had grown purges as if its map were the minimum size" % (f_.id, what), f_.id, span)
    res.rule("C07.T", n_t, 1, "reset() assigning a freshly constructed sketch")
    return res
