"""Shared helpers for the structural rule packs."""
from .. import ir, sym
from ..sym import Sym, walk, show


def fns_of(prog, owner, name=None):
    return [f for f in prog.fns.values() if not f.promoted and f.owner == owner and (name is None or f.item_name == name)]


def fn_one(prog, owner, name):
    fs = fns_of(prog, owner, name)
    return fs[0] if fs else None


def pub_fn(prog, owner, name):
    fs = [f for f in fns_of(prog, owner, name) if f.exported or f.is_pub]
    return fs[0] if fs else None


def reach_from(prog, entries):
    ids = [e.id if hasattr(e, "id") else e for e in entries if e is not None]
    return [prog.fns[i] for i in sorted(prog.reach(ids)) if not prog.fns[i].promoted]


def call_sites(prog, fn, pred=None):
    """yield (block, site, Sym) for call sites of fn"""
    s = Sym(prog, fn)
    for b, site in fn.calls():
        if pred is None or pred(site):
            yield b, site, s


def callee_name(site):
    return (site.get("callee") or "indirect")


def find_sub(e, pred):
    for x in walk(e):
        if pred(x):
            return x
    return None


def is_bin(e, op):
    return isinstance(e, tuple) and e[0] == "bin" and e[1] == op


def const_of(e):
    if isinstance(e, tuple) and e[0] == "const" and isinstance(e[1], (int, float)) and not isinstance(e[1], bool):
        return e[1]
    return None


def shl_one_amount(e):
    """if e contains `1 << X` return X (first such)"""
    x = find_sub(e, lambda t: is_bin(t, "Shl") and const_of(t[2]) == 1)
    return x[3] if x else None


def shr_amount(e):
    x = find_sub(e, lambda t: is_bin(t, "Shr"))
    return x[3] if x else None


def assignments(prog, fn):
    """yield (block, place, expr, span) for every assignment statement (expression through Sym)"""
    s = Sym(prog, fn, ifconv=False)
    for b in fn.blocks:
        if b.cleanup:
            continue
        for st in b.stmts:
            if st[0] == "=":
                yield b.idx, st[1], s.rvalue(st[2]), st[3], s


def var_name(fn, place):
    l = ir.pl_local(place)
    return fn.local_name(l) or "_%d" % l


def consts_in(e):
    return [x[1] for x in walk(e) if x[0] == "const" and isinstance(x[1], (int, float)) and not isinstance(x[1], bool)]


def probe_loops(prog, fn):
    """open-addressing probe updates `p = (p + stride) & mask` in fn: yields dict(var, stride, mask, block, span)"""
    for b, place, e, span, s in assignments(prog, fn):
        if not isinstance(place, int):
            continue
        if not is_bin(e, "BitAnd"):
            continue
        for add, mask in ((e[2], e[3]), (e[3], e[2])):
            if is_bin(add, "Add"):
                pv = ("var", place, fn.local_name(place) or "")
                if add[2] == pv or add[3] == pv:
                    stride = add[3] if add[2] == pv else add[2]
                    yield {"var": place, "stride": resolve_var(prog, fn, stride, s), "mask": resolve_var(prog, fn, mask, s), "block": b, "span": span}


def resolve_var(prog, fn, e, s, depth=0):
    """replace ('var', l) whose every definition has the same expression by that expression (loop-invariant recomputation)"""
    if not isinstance(e, tuple) or depth > 6:
        return e
    if e[0] == "var":
        l = e[1]
        exprs = set()
        for d in fn.defs().get(l, []):
            if d[2] == "assign":
                rv = fn.blocks[d[0]].stmts[d[1]][2]
                exprs.add(s.rvalue(rv))
            elif d[2] == "call":
                exprs.add(s.call_expr(fn.blocks[d[0]].term[1]))
            else:
                return e
        if len(exprs) == 1:
            x = exprs.pop()
            if not sym.contains(x, lambda t: t == e):
                return resolve_var(prog, fn, x, s, depth + 1)
        return e
    return tuple(resolve_var(prog, fn, x, s, depth + 1) if isinstance(x, tuple) and x and isinstance(x[0], str) else
                 (tuple(resolve_var(prog, fn, y, s, depth + 1) for y in x) if isinstance(x, tuple) else x) for x in e)


def buffer_stores(prog, fn, field=None):
    """indexed stores into a heap buffer held in a field: `x.field[i] = v` (also through Box/Vec pointer temporaries).
    yields (block, buffer_expr, index_expr, value_expr, span, Sym)"""
    s = Sym(prog, fn, ifconv=False)
    for b in fn.blocks:
        if b.cleanup:
            continue
        for st in b.stmts:
            if st[0] != "=" or isinstance(st[1], int):
                continue
            place = st[1]
            idx = [p for p in place[1] if p[0] in ("[]", "[c]")]
            if not idx:
                continue
            # expression of the part of the place before the index
            pre = []
            for p in place[1]:
                if p[0] in ("[]", "[c]"):
                    break
                pre.append(p)
            base = s.place([place[0], pre, ""]) if pre else s.local(place[0])
            base = resolve_var(prog, fn, base, s)
            fl = [t for t in walk(base) if t[0] == "field"]
            if field is not None and not any(t[2] == field for t in fl):
                continue
            if field is None and not fl and base[0] != "param":
                continue
            ie = s.local(idx[0][1]) if idx[0][0] == "[]" else ("const", idx[0][1])
            ie = resolve_var(prog, fn, ie, s)
            yield b.idx, base, ie, resolve_var(prog, fn, s.rvalue(st[2]), s), st[3], s
        # stores through IndexMut::index_mut results are `(*_r) = v` with _r = index_mut(buf, i)
        for st in b.stmts:
            if st[0] == "=" and not isinstance(st[1], int) and len(st[1][1]) == 1 and st[1][1][0][0] == "*":
                r = s.local(st[1][0])
                if r[0] == "call" and r[1].endswith("index_mut") and len(r[2]) == 2:
                    base, ie = r[2]
                    if field is None or any(t[0] == "field" and t[2] == field for t in walk(base)):
                        yield b.idx, base, ie, resolve_var(prog, fn, s.rvalue(st[2]), s), st[3], s


def loop_exits(prog, fn, s, header, body):
    """exit edges of a natural loop that continue the function (not panics): list of (block, cond_expr, span)"""
    live = set()
    st = [b.idx for b in fn.blocks if b.term[0] == "return" and not b.cleanup]
    while st:
        x = st.pop()
        if x in live:
            continue
        live.add(x)
        st.extend(p for p in fn.preds(x) if not fn.blocks[p].cleanup)
    out = []
    for x in sorted(body):
        t = fn.blocks[x].term
        for y in fn.succs(x):
            if y in body or fn.blocks[y].cleanup or y not in live:
                continue
            if t[0] == "switch":
                saved = getattr(s, "_pos", None)
                s._pos = (x, "t")
                cond = s.operand(t[1])
                s._pos = saved
                out.append((x, resolve_var(prog, fn, cond, s), None))
            else:
                out.append((x, None, None))
    return out


ACCESSORS = ("index_mut", "deref_mut", "as_mut_slice", "as_mut", "get_mut", "iter_mut", "get_unchecked_mut", "borrow_mut", "unwrap", "expect",
             "split_at_mut", "chunks_exact_mut", "chunks_mut", "first_mut", "last_mut", "into_iter", "next", "by_ref", "enumerate", "zip", "rev", "skip",
             "take", "as_mut_ptr", "unwrap_unchecked", "into_remainder")


def buffer_mutations(f, buf_field):
    """blocks of `f` (a method, self = local 1) in which the content of `self.<buf_field>` can change: a store into the field
    or through a pointer derived from a mutable borrow of it (also via accessor calls such as index_mut / iter_mut().next()),
    or a call that receives such a pointer and is not itself a mere accessor.  Taking `&mut` alone is not a change."""
    def on_buf(pl, alias):
        return (not isinstance(pl, int)) and ((pl[0] == 1 and any(p[0] == "." and p[2] == buf_field for p in pl[1])) or (pl[0] in alias and any(p[0] == "*" for p in pl[1])))

    def base_of(op):
        if op[0] not in ("c", "m"):
            return None
        return op[1] if isinstance(op[1], int) else op[1][0]
    alias = set()
    changed = True
    while changed:
        changed = False
        for b in f.blocks:
            if b.cleanup:
                continue
            for st in b.stmts:
                if st[0] != "=" or not isinstance(st[1], int) or st[1] in alias:
                    continue
                rv = st[2]
                if rv[0] in ("use", "cast"):
                    op = rv[1] if rv[0] == "use" else rv[2]
                    if op[0] in ("c", "m"):
                        pl = op[1]
                        base = pl if isinstance(pl, int) else pl[0]
                        if on_buf(pl, ()) or base in alias:
                            alias.add(st[1])
                            changed = True
                elif rv[0] == "ref" and rv[1] == "mut" and (on_buf(rv[2], alias) or (not isinstance(rv[2], int) and rv[2][0] in alias) or (isinstance(rv[2], int) and rv[2] in alias)):
                    alias.add(st[1])
                    changed = True
                elif rv[0] == "agg" and any(base_of(o) in alias for o in rv[-1] if isinstance(o, (list, tuple)) and o and o[0] in ("c", "m")):
                    alias.add(st[1])
                    changed = True
            t = b.term
            if t[0] == "call" and isinstance(t[1]["dest"], int) and t[1]["dest"] not in alias:
                nm = (t[1].get("callee") or "").rsplit("::", 1)[-1]
                if nm in ACCESSORS and any(base_of(a) in alias for a in t[1]["args"]):
                    alias.add(t[1]["dest"])
                    changed = True
    muts = set()
    for b in f.blocks:
        if b.cleanup:
            continue
        for st in b.stmts:
            if st[0] == "=" and on_buf(st[1], alias):
                muts.add(b.idx)
            if st[0] == "=" and not isinstance(st[1], int) and st[1][0] == 1 and len(st[1][1]) == 1 and st[1][1][0][0] == "*":
                muts.add(b.idx)         # `*self = ...` replaces every field
        t = b.term
        if t[0] == "call":
            nm = (t[1].get("callee") or "").rsplit("::", 1)[-1]
            if not isinstance(t[1]["dest"], int) and on_buf(t[1]["dest"], alias):
                muts.add(b.idx)
            if nm not in ACCESSORS and any(base_of(a) in alias for a in t[1]["args"]):
                muts.add(b.idx)
    return muts


def paired_writes(prog, owner, buf_field, count_field, either_side=False):
    """who-writes pairing: for every `&mut self` method of `owner` that can change the buffer held in `buf_field` (store
    through the field, a mutable borrow of it, or through a copied Box/Vec pointer), every path from that point to a normal
    return passes a store to `count_field` or a call that (transitively) stores it.
    yields (fn, block, ok)"""
    count_writers = set()
    for f in prog.fns.values():
        if not f.promoted and any(True for _ in sym.field_stores(prog, adt=owner, field=count_field, fns=[f])):
            count_writers.add(f.id)
    memo = {}

    def writes_count(tgt):
        if tgt not in memo:
            memo[tgt] = tgt in count_writers or any(g.id in count_writers for g in reach_from(prog, [tgt]))
        return memo[tgt]
    for f in [x for x in prog.fns.values() if not x.promoted and x.owner == owner]:
        if f.argc < 1 or not f.local_ty(1).startswith("&mut"):
            continue

        muts = buffer_mutations(f, buf_field)
        if not muts:
            continue
        sf = Sym(prog, f, ifconv=False)
        counted = set(b for (ff, b, kind, place, rv, span, adt, fld) in sym.field_stores(prog, adt=owner, field=count_field, fns=[f]))
        for b, site in f.calls():
            tgt = site.get("callee")
            if tgt and tgt in prog.fns and writes_count(tgt):
                counted.add(b)
        # blocks reachable from the entry without passing a count update
        pre = set()
        st_ = [0] if 0 not in counted else []
        while st_:
            x = st_.pop()
            if x in pre:
                continue
            pre.add(x)
            st_.extend(y for y in f.succs(x) if y not in counted and not f.blocks[y].cleanup)
        for m in sorted(muts):
            after = m in counted or not any(sf.reaches_exit_avoiding(sx, counted) for sx in f.succs(m) if not f.blocks[sx].cleanup)
            before = m not in pre
            ok = (after or (before and either_side))
            if not ok and f.argc == 1 and not counted:
                # a `&mut self` routine without any other input that never touches the counter: it can only re-arrange what the
                # buffer already holds (a rehash into a table of another size, a sort, a compaction): the count is invariant
                ok = None
            if not ok and ok is not None and not f.exported:
                # a private helper: the pairing may be completed by its callers (prepare the buffer here, settle the counter there)
                callers = [(g, b_) for g in prog.fns.values() if not g.promoted and g.owner == owner for b_, st_ in g.calls() if st_.get("callee") == f.id]
                if callers:
                    done = True
                    for g, b_ in callers:
                        cg = set(bb for (ff, bb, kind, place, rv, span, adt, fld) in sym.field_stores(prog, adt=owner, field=count_field, fns=[g]))
                        for bb, st_ in g.calls():
                            tg = st_.get("callee")
                            if tg and tg in prog.fns and writes_count(tg):
                                cg.add(bb)
                        sg_ = Sym(prog, g, ifconv=False)
                        if any(sg_.reaches_exit_avoiding(sx, cg) for sx in g.succs(b_) if not g.blocks[sx].cleanup):
                            done = False
                    if done:
                        ok = True
            yield f, m, ok


def pairing_rule(res, prog, rule, owner, buf_field, count_field, floor, either_side=True):
    """instantiate paired_writes as a rule: violation when a method can change the buffer and return with the counter untouched"""
    n = 0
    adt = prog.adts.get(owner)
    names = [x[0] for v in (adt or {}).get("variants", []) for x in v.get("fields", [])]
    if buf_field not in names or count_field not in names:
        # a private field was renamed: the pairing is not decided (no evidence either way)
        res.undecided += 1
        res.extra.setdefault("undecided_items", []).append("%s.pair: %s no longer has fields `%s` and `%s`" % (rule, owner, buf_field, count_field))
        res.rule(rule + ".pair", 0, floor, "writes of %s.%s paired with %s" % (owner.rsplit("::", 1)[-1], buf_field, count_field))
        return
    for f, m, ok in paired_writes(prog, owner, buf_field, count_field, either_side):
        n += 1
        res.obligations += 1
        if ok:
            res.discharged += 1
        elif ok is None:
            res.discharged += 1      # re-arrangement of the buffer's own content (see paired_writes)
        else:
            res.violate(rule, "%s|%s|unpaired-%s" % (rule, f.id, buf_field), "%s can change `%s` and return without `%s` having been updated on that path" % (f.id, buf_field, count_field), f.id)
    res.rule(rule + ".pair", n, floor, "writes of %s.%s paired with %s" % (owner.rsplit("::", 1)[-1], buf_field, count_field))


def max_store_verdict(prog, fn, s, block, val, is_old):
    """three-valued: is the store of `val` at `block` a max-merge with the old content?
    True: val is max(old, x), or the store is dominated by a guard ordering the stored value above the old one;
    False: positive evidence of the opposite (min(), a guard ordering it below, or no ordering guard at all);
    None: guards present but not recognised.  `is_old(expr)` says whether an expression reads the old content."""
    def strip(e):
        while isinstance(e, tuple) and e and e[0] == "cast":
            e = e[1]
        return e
    v = strip(resolve_var(prog, fn, val, s))
    if v[0] == "call" and v[1].rsplit("::", 1)[-1] == "max" and any(is_old(a) for a in v[2]):
        return True
    if v[0] == "call" and v[1].rsplit("::", 1)[-1] == "min" and any(is_old(a) for a in v[2]):
        return False
    facts = s.cmp_facts_at(block)
    seen_cmp = False
    for x in facts:
        if x[0] in ("Gt", "Lt", "Ge", "Le") and len(x) == 3:
            seen_cmp = True
            a, c, op = strip(resolve_var(prog, fn, x[1], s)), strip(resolve_var(prog, fn, x[2], s)), x[0]
            if op in ("Lt", "Le"):
                a, c = c, a
            # now a >(=) c
            if a == v and is_old(c):
                return True
            if c == v and is_old(a):
                return False
        elif x[0] in ("true", "false"):
            seen_cmp = True
    return None if seen_cmp else False


def path_pred(s, block, prog=None):
    """predicate env -> True / False / None: is `block` reached in a state described by env?  (exact path conditions of
    every acyclic path; a decision that cannot be evaluated makes that path unknown)"""
    from .. import formula
    paths = s.path_conditions(block)

    def pred(env):
        if paths is None:
            return None
        unknown = False
        for p in paths:
            ok = True
            for c, tv in p:
                try:
                    v = formula.evaluate(c, env)
                except (formula.Uneval, TypeError, IndexError, ZeroDivisionError):
                    ok = None       # unknown decision: the path is at best unknown, a later decision can still refute it
                    continue
                if isinstance(v, tuple):
                    ok = None
                    continue
                if (tv[0] == "eq" and v != tv[1]) or (tv[0] == "ne" and v in tv[1]):
                    ok = False
                    break
            if ok:
                return True
            if ok is None:
                unknown = True
        return None if unknown else False
    return pred


def facts_pred(s, block):
    """predicate env -> (holds, n_evaluated): do all *evaluable* dominating branch facts of `block` hold in env?"""
    from .. import formula
    facts = s.cmp_facts_at(block)

    def pred(env):
        n = 0
        for x in facts:
            if len(x) == 3 and x[0] in ("Lt", "Le", "Gt", "Ge", "Eq", "Ne"):
                e = ("bin", x[0], x[1], x[2])
                want = 1
            elif x[0] in ("true", "false"):
                e, want = x[1], (1 if x[0] == "true" else 0)
            else:
                continue
            try:
                v = formula.evaluate(e, env)
            except (formula.Uneval, TypeError, IndexError, ZeroDivisionError):
                continue
            if isinstance(v, tuple):
                continue
            n += 1
            if bool(v) != bool(want):
                return False, n
        return True, n
    return pred


def tdigest_capacity_field(prog):
    """the usize field of TDigestMut that `make` initialises to 2k + (30 if k < 30 else 10), whatever it is called;
    returns (field_name | None, verdict) where verdict is True / False (a usize field initialised from k by another formula) / None"""
    from .. import formula
    T = "tdigest::sketch::TDigestMut"
    mk = fn_one(prog, T, "make")
    adt = prog.adts.get(T)
    if mk is None or not adt:
        return None, None
    s = Sym(prog, mk)
    rets = [b.idx for b in mk.blocks if b.term[0] == "return" and not b.cleanup]
    e = s.at(rets[0]).local(0) if rets else ("unknown",)
    if e[0] != "agg":
        return None, None
    names = [n for n, t in adt["variants"][0]["fields"]]
    tys = dict((n, t) for n, t in adt["variants"][0]["fields"])
    wrong = None
    for n, v in zip(names, e[2]):
        if tys.get(n) != "usize":
            continue
        lv = formula.leaves(v)
        if not lv or not all(k == (mk.local_name(1) or "k") for k in lv):
            continue
        kname = mk.local_name(1) or "k"
        try:
            ok = all(formula.evaluate(v, {"@prog": prog, kname: k}) == 2 * k + (30 if k < 30 else 10) for k in (10, 11, 29, 30, 31, 100, 500, 65535))
        except formula.Uneval:
            continue
        if ok:
            return n, True
        wrong = n
    return wrong, (False if wrong else None)


def arg_source_name(fn, op, depth=0):
    """the user-visible local a call argument is a copy of (following plain copies/moves/reborrows of temporaries), or None"""
    if op[0] not in ("c", "m") or depth > 4:
        return None
    pl = op[1]
    l = pl if isinstance(pl, int) else (pl[0] if all(p[0] == "*" for p in pl[1]) else None)
    if l is None:
        return None
    nm = fn.local_name(l)
    if nm:
        return nm
    sd = fn.single_def(l)
    if sd and sd[2] == "assign":
        rv = fn.blocks[sd[0]].stmts[sd[1]][2]
        if rv[0] == "use":
            return arg_source_name(fn, rv[1], depth + 1)
        if rv[0] == "ref" and isinstance(rv[2], int):
            return fn.local_name(rv[2])
    return None


def swapped_arguments(prog, fns):
    """in-crate calls in which two arguments of the same type are visibly crossed: the caller passes its local named like
    parameter j in position i and its local named like parameter i in position j.  yields (fn, block, callee, i, j, names)"""
    def norm(n):
        return (n or "").lstrip("_")
    for f in fns:
        for b, site in f.calls():
            tgt = site.get("callee")
            if tgt not in prog.fns:
                continue
            g = prog.fns[tgt]
            if g.argc != len(site["args"]) or g.argc < 2:
                continue
            pn = [norm(g.local_name(i + 1)) for i in range(g.argc)]
            an = [norm(arg_source_name(f, a)) for a in site["args"]]
            for i in range(g.argc):
                for j in range(i + 1, g.argc):
                    if pn[i] and pn[j] and pn[i] != pn[j] and an[i] == pn[j] and an[j] == pn[i] and g.local_ty(i + 1) == g.local_ty(j + 1):
                        yield f, b, g, i, j, (pn[i], pn[j])


def ret_expr(prog, f, cache={}):
    if f.id not in cache:
        s_ = Sym(prog, f)
        rets = [b.idx for b in f.blocks if b.term[0] == "return" and not b.cleanup]
        cache[f.id] = s_.at(rets[0]).local(0) if len(rets) == 1 else None
    return cache[f.id]


def fn_by_semantics(prog, module, name, arity, probe):
    """the function `module::name`; if it was renamed, any function of the module (or its impls) with `arity` parameters for
    which probe(call) is True, where call(*args) evaluates the function's return expression.  Returns (fn | None)."""
    from .. import formula

    def caller(g):
        e = ret_expr(prog, g)

        def call(*args):
            env = {"@prog": prog, "@ieee": True}
            for i, a in enumerate(args):
                env[g.local_name(i + 1) or "arg%d" % (i + 1)] = a
            return formula.evaluate(e, env)
        return call if e is not None else None
    cands = [g for g in prog.fns.values() if not g.promoted and g.id.startswith(module + "::") and g.argc == arity and "{closure" not in g.id]
    named = [g for g in cands if g.item_name == name]
    if named:
        return named[0]
    for g in sorted(cands, key=lambda x: x.id):
        c = caller(g)
        if c is None:
            continue
        try:
            if probe(c):
                return g
        except Exception:
            continue
    return None


def lost_updates(prog, owner):
    """lost-update lint: in a `&mut self` method of `owner`, a field is read, a call that (transitively) stores the same field
    runs, and then the field is overwritten with a value computed from the earlier read (`let t = self.f + x; ...; self.f = t`).
    yields (fn, field, call_block, store_span)"""
    adt = prog.adts.get(owner)
    if not adt:
        return
    fields = [x[0] for v in adt.get("variants", []) for x in v.get("fields", [])]
    eff = {}

    def stores_field(callee, fld):
        if not callee or callee not in prog.fns:
            return False
        if (callee, fld) not in eff:
            eff[(callee, fld)] = any(True for g in reach_from(prog, [callee]) for _ in sym.field_stores(prog, adt=owner, field=fld, fns=[g]))
        return eff[(callee, fld)]
    for f in [x for x in prog.fns.values() if not x.promoted and x.owner == owner and x.argc >= 1 and x.local_ty(1).startswith("&mut")]:
        plain = Sym(prog, f, ifconv=False)
        for fld in fields:
            stores = [(b, place, rv, span) for (ff, b, kind, place, rv, span, a_, fl_) in sym.field_stores(prog, adt=owner, field=fld, fns=[f]) if kind == "assign" and rv is not None and place[0] == 1]
            if not stores:
                continue
            t = Sym(prog, f, ifconv=False)
            t._tag_field = (1, fld)
            for (b, place, rv, span) in stores:
                idx = [i for i, st in enumerate(f.blocks[b].stmts) if st[0] == "=" and st[1] == place and st[2] is rv]
                e = t.at(b, idx[0] if idx else "t").rvalue(rv)
                reads = [x[2] for x in walk(e) if x[0] == "fieldat" and x[1] == fld]
                for (rb, ri) in reads:
                    if (rb, ri) == (b, idx[0] if idx else None):
                        continue
                    for cb, site in f.calls():
                        if not stores_field(site.get("callee"), fld):
                            continue
                        # read -> call -> store
                        after_read = (cb == rb) or plain._reaches(rb, cb)      # the call is the terminator of cb: after any statement of rb
                        before_store = (cb != b and plain._reaches(cb, b))
                        if after_read and before_store and rb != b:
                            yield f, fld, cb, span


def import_rules(res, prog, ctx, rule, pack, rules, what, floor, key_filter=None):
    """decide `rule` of this pack by the structural rules `rules` of a sibling pack (a violation there is a violation here,
    keyed by the sibling's key); a sibling that cannot run leaves the obligation undecided"""
    import importlib
    stack = tuple(ctx.get("_import_stack", ()))
    if pack in stack or len(stack) > 4:
        # packs importing each other in a circle: the inner import is skipped (its rules are decided by the outer run)
        res.extra.setdefault("undecided_items", []).append("%s: import of %s skipped (import cycle %s)" % (rule, pack, "->".join(stack)))
        res.obligations += 1
        res.undecided += 1
        return
    try:
        r = importlib.import_module("analyzer.rules." + pack).run(prog, dict(ctx, _import_stack=stack + (rule.split(".")[0], pack)))
    except Exception as ex:
        res.extra.setdefault("undecided_items", []).append("%s could not run %s: %r" % (rule, pack, ex))
        res.obligations += 1
        res.undecided += 1
        return
    n = 0
    for rid in rules:
        n += r.rules.get(rid, {}).get("instances", 0)
        bad = [v for v in r.violations if v.rule == rid and "anchor-lost" not in v.key and (key_filter is None or key_filter(v.key))]
        for v in bad:
            res.violate(rule, "%s|%s" % (rule, v.key), "%s: %s" % (what, v.message), getattr(v, "fn", None), getattr(v, "span", None))
        res.obligations += 1
        if not bad:
            res.discharged += 1
    res.rule(rule, n, floor, "%s (imported from %s: %s)" % (what, pack, ", ".join(rules)))


def stale_index_stores(prog, owner, buf_field):
    """an index into `self.<buf_field>` obtained from a probe (a call of a method of `owner`) must be used before the buffer is
    reallocated: yields (fn, store_block, grower_callee) for every indexed store into the buffer that can be reached from a call
    which (transitively) replaces the whole buffer, itself reached from the call that produced the index."""
    whole = set()
    for f in prog.fns.values():
        if f.promoted:
            continue
        for (ff, b, kind, place, rv, span, adt, fld) in sym.field_stores(prog, adt=owner, field=buf_field, fns=[f]):
            if kind == "assign":
                whole.add(f.id)
    memo = {}

    def reallocates(tgt):
        if tgt not in memo:
            memo[tgt] = tgt in whole or any(g.id in whole for g in reach_from(prog, [tgt]))
        return memo[tgt]
    for f in [x for x in prog.fns.values() if not x.promoted and x.owner == owner and x.argc >= 1 and x.local_ty(1).startswith("&mut")]:
        stores = list(buffer_stores(prog, f, field=buf_field))
        if not stores:
            continue
        s_ = Sym(prog, f, ifconv=False)
        growers = [(b, site["callee"]) for b, site in f.calls() if site.get("callee") in prog.fns and prog.fns[site["callee"]].owner == owner and reallocates(site["callee"])]
        probes = [b for b, site in f.calls() if site.get("callee") in prog.fns and prog.fns[site["callee"]].owner == owner and not reallocates(site["callee"])
                  and prog.fns[site["callee"]].local_ty(0) not in ("()", "bool")]
        for (sb, base, ie, val, span, _s) in stores:
            idx_calls = [b for b in probes if any(t[0] == "call" for t in sym.walk(ie))] if probes else []
            if not idx_calls:
                continue
            for gb, gcal in growers:
                if gb == sb:
                    continue
                if any(s_._reaches(pb, gb) for pb in idx_calls) and s_._reaches(gb, sb) and not any(s_._reaches(gb, pb) and s_._reaches(pb, sb) for pb in idx_calls):
                    yield f, sb, gcal


def scalar_without_buffer(prog, owner, buf_field, scalar_field):
    """the reverse of paired_writes: a `&mut self` method that stores `scalar_field` changes `buf_field` on the same path (before
    or after; a loop over the buffer counts as a change even if it may run zero times).  yields (fn, block) of scalar stores that
    can be reached and left without the buffer having been touched."""
    for f in [x for x in prog.fns.values() if not x.promoted and x.owner == owner and x.argc >= 1 and x.local_ty(1).startswith("&mut")]:
        A = set(buffer_mutations(f, buf_field))
        B = set(b for (ff, b, kind, place, rv, span, adt, fld) in sym.field_stores(prog, adt=owner, field=scalar_field, fns=[f]) if kind in ("assign", "call"))
        if not B or not A:
            continue
        s_ = Sym(prog, f, ifconv=False)
        ext = set(A)
        for h, body in s_.loops():
            if body & A:
                ext.add(h)
        for b in sorted(B):
            if b in ext:
                continue
            # entry -> b avoiding ext ?
            seen, st = set(), [0]
            before_avoid = False
            while st:
                x = st.pop()
                if x in seen or x in ext:
                    continue
                seen.add(x)
                if x == b:
                    before_avoid = True
                    break
                st.extend(y for y in f.succs(x) if not f.blocks[y].cleanup)
            after_avoid = any(s_.reaches_exit_avoiding(sx, ext) for sx in f.succs(b) if not f.blocks[sx].cleanup)
            if before_avoid and after_avoid:
                yield f, b


# ---------------------------------------------------------------------------------------------------------------------------
# a decision taken after a mutation must not rest on a count read before it

_FIELDS_WRITTEN = {}
_FIELDS_READ_BY_RET = {}


def _counter_fields_written(prog, fid):
    """(adt, field) pairs of integer fields that `fid` (transitively) re-assigns from their own old value (count += 1, -= 1)"""
    if fid not in _FIELDS_WRITTEN:
        out = set()
        fns = [prog.fns[fid]] + [g for g in reach_from(prog, [fid]) if g.id != fid]
        for g in fns:
            sg = None
            for (ff, bb, kind, place, rv, span, adt, fld) in sym.field_stores(prog, fns=[g]):
                if kind != "assign" or rv is None:
                    continue
                sg = sg or Sym(prog, g)
                try:
                    e = sg.at(bb).rvalue(rv)
                except Exception:
                    continue
                if sym.contains(e, lambda t: t[0] == "field" and t[2] == fld) and sym.contains(e, lambda t: t[0] == "const" and t[1] == 1):
                    out.add((adt, fld))
        _FIELDS_WRITTEN[fid] = out
    return _FIELDS_WRITTEN[fid]


def _fields_in_return(prog, fid):
    """field names the return expression of a (shared-borrow) accessor-like function reads"""
    if fid not in _FIELDS_READ_BY_RET:
        out = set()
        g = prog.fns[fid]
        try:
            e = ret_expr(prog, g)
        except Exception:
            e = None
        if e is not None:
            def visit(t):
                if isinstance(t, tuple):
                    if t and t[0] == "field" and isinstance(t[2], str):
                        out.add(t[2])
                    for x in t:
                        visit(x)
            visit(e)
        _FIELDS_READ_BY_RET[fid] = out
    return _FIELDS_READ_BY_RET[fid]


def stale_count_decisions(prog, f):
    """yields (mutator_block, mutator_callee, field, decision_block, span): a branch decision that can only be reached through a call
    which (transitively) increments / decrements counter field `field`, whose condition reads that field, where every read of the
    field on the way was made BEFORE the call and none after it.  The count the decision looks at is then the one before the
    insertion: for an item that changes nothing (a duplicate) it acts as if the item had been new."""
    s = None
    reads = {}      # field -> [block]  (accessor calls / direct reads)
    muts = []       # (block, callee, set(fields))
    for b, site in f.calls():
        cal = site.get("callee")
        if not cal or cal not in prog.fns:
            continue
        g = prog.fns[cal]
        tys = [ir.pl_ty(f, ir.op_place(a)) or "" for a in site["args"] if ir.op_place(a) is not None]
        if any(t.startswith("&mut ") for t in tys):
            w = _counter_fields_written(prog, cal)
            if w:
                muts.append((b, cal, set(fl for _, fl in w)))
        elif g.argc >= 1 and tys and all(not t.startswith("&mut ") for t in tys):
            for fl in _fields_in_return(prog, cal):
                reads.setdefault(fl, []).append(b)
    for blk in f.blocks:
        if blk.cleanup:
            continue
        for st in blk.stmts:
            if st[0] == "=" and st[2][0] in ("use", "ref"):
                pl = ir.op_place(st[2][1]) if st[2][0] == "use" else st[2][2]
                if pl is not None and not isinstance(pl, int):
                    for pr in pl[1]:
                        if pr[0] == "." and isinstance(pr[2], str):
                            reads.setdefault(pr[2], []).append(blk.idx)
    if not muts:
        return
    for blk in f.blocks:
        if blk.cleanup or blk.term[0] != "switch":
            continue
        d = blk.idx
        for (mb, cal, flds) in muts:
            if mb == d or not f.dominates(mb, d):
                continue
            s = s or Sym(prog, f)
            try:
                e = s.at(d).operand(blk.term[1])
            except Exception:
                continue
            for fl in sorted(flds):
                if not sym.contains(e, lambda t: t[0] == "field" and t[2] == fl):
                    continue
                rs = reads.get(fl, [])
                before = [r for r in rs if r != mb and f.dominates(r, mb)]
                after = [r for r in rs if r != mb and f.dominates(mb, r) and (r == d or f.dominates(r, d))]
                if before and not after:
                    yield (mb, cal, fl, d, blk.term[-1] if isinstance(blk.term[-1], (list, tuple)) else None)


def stale_count_rule(res, prog, rule, prefix, what):
    """registers stale_count_decisions over the functions of module `prefix` as rule `rule`"""
    n = 0
    for f in sorted(prog.fns.values(), key=lambda x: x.id):
        if f.promoted or not f.id.startswith(prefix) or "{closure" in f.id:
            continue
        n += 1
        try:
            hits = list(stale_count_decisions(prog, f))
        except Exception:
            hits = []
        seen = set()
        for (mb, cal, fl, d, span) in hits:
            key = "%s|%s|%s|%s" % (rule, f.id, cal.rsplit("::", 2)[-2] + "::" + cal.rsplit("::", 1)[-1], fl)
            if key in seen:
                continue
            seen.add(key)
            res.obligations += 1
            res.violate(rule, key, "%s: %s decides on `%s` after calling %s, which changes it, but reads it only before the call: the decision sees "
                        "the count from before the operation (an item that changes nothing is treated as if it had been added)" % (what, f.id, fl, cal), f.id, span)
    res.obligations += 1
    res.discharged += 1
    res.rule(rule, n, 1, "%s: functions scanned for decisions on a counter read before the call that changes it" % what)


# ---------------------------------------------------------------------------------------------------------------------------
# two fields that describe one thing (a table and the log2 of its size) change together

def coupled_store_windows(prog, owner, buf_field, size_field):
    """yields (fn, first_block, call_block, callee, second_block): in a `&mut self` method of `owner` that replaces the whole of
    `self.<buf_field>` and stores `self.<size_field>`, a call that is handed `self` sits between the two stores on some path: the
    callee sees a table whose recorded size is that of the other table."""
    def reach(f, src):
        seen, st = set(), [x for x in f.succs(src) if not f.blocks[x].cleanup]
        while st:
            x = st.pop()
            if x in seen:
                continue
            seen.add(x)
            st.extend(y for y in f.succs(x) if not f.blocks[y].cleanup)
        return seen
    for f in [x for x in prog.fns.values() if not x.promoted and x.owner == owner and x.argc >= 1 and (x.local_ty(1) or "").startswith("&mut")]:
        def whole_store_blocks(field):
            out = set()
            for b in f.blocks:
                if b.cleanup:
                    continue
                for st in b.stmts:
                    if st[0] == "=" and not isinstance(st[1], int) and st[1][0] == 1 and [e[0] for e in st[1][1]] == ["*", "."] and st[1][1][1][2] == field:
                        out.add(b.idx)
                t = b.term
                if t[0] == "call" and (t[1].get("callee") or "").rsplit("::", 1)[-1] in ("replace", "swap", "take"):
                    for a in t[1]["args"]:
                        pl = ir.op_place(a)
                        l = pl if isinstance(pl, int) else (pl[0] if pl is not None else None)
                        for _hop in range(3):
                            d = f.single_def(l) if l is not None else None
                            if not (d and d[1] != "t" and d[2] == "assign"):
                                break
                            rv = f.blocks[d[0]].stmts[d[1]][2]
                            if rv[0] == "ref" and rv[1] == "mut" and not isinstance(rv[2], int) and rv[2][0] == 1 and [e[0] for e in rv[2][1]] == ["*", "."] and rv[2][1][1][2] == field:
                                out.add(b.idx)
                                break
                            if rv[0] == "ref" and not isinstance(rv[2], int) and [e[0] for e in rv[2][1]] == ["*"]:
                                l = rv[2][0]        # a reborrow `&mut *_x`: look at what _x borrows
                                continue
                            break
            return out
        sb, ss = whole_store_blocks(buf_field), whole_store_blocks(size_field)
        if not sb or not ss:
            continue
        self_calls = []
        for b, site in f.calls():
            cal = site.get("callee") or ""
            if cal not in prog.fns:
                continue
            for a in site["args"]:
                pl = ir.op_place(a)
                if pl is None:
                    continue
                l = pl if isinstance(pl, int) else pl[0]
                hit = (l == 1 and isinstance(pl, int))
                d = f.single_def(l)
                if d and d[1] != "t" and d[2] == "assign":
                    rv = f.blocks[d[0]].stmts[d[1]][2]
                    if rv[0] == "ref" and not isinstance(rv[2], int) and rv[2][0] == 1 and [e[0] for e in rv[2][1]] == ["*"]:
                        hit = True
                if hit:
                    self_calls.append((b, cal))
                    break
        for e in sorted(sb | ss):
            later = (ss if e in sb else set()) | (sb if e in ss else set())
            re_ = reach(f, e)
            for l_ in sorted(later):
                if l_ == e or l_ not in re_:
                    continue
                for (c, cal) in self_calls:
                    if c in (e, l_) or c not in re_:
                        continue
                    if l_ in reach(f, c) and not (e in reach(f, l_) and c in reach(f, l_)):
                        yield (f, e, c, cal, l_)


def coupled_store_rule(res, prog, rule, owner, buf_field, size_field):
    adt = prog.adts.get(owner)
    names = [x[0] for v in (adt or {}).get("variants", []) for x in v.get("fields", [])]
    res.obligations += 1
    if buf_field not in names or size_field not in names:
        res.undecided += 1
        return 0
    seen = set()
    for (f, e, c, cal, l_) in coupled_store_windows(prog, owner, buf_field, size_field):
        key = "%s|%s|%s" % (rule, f.id, cal.rsplit("::", 1)[-1])
        if key in seen:
            continue
        seen.add(key)
        res.violate(rule, key, "%s replaces `%s` and stores `%s` with a call of %s (which receives self) in between: the callee works on a table whose "
                    "recorded size belongs to the other table" % (f.id, buf_field, size_field, cal), f.id, f.blocks[c].term[1].get("span"))
    if not seen:
        res.discharged += 1
    return 1


# ---------------------------------------------------------------------------------------------------------------------------
# value of a re-assigned local at a program point, for one concrete environment

def reaching_values(prog, fn, s, target, locals_, env, cap=400):
    """{local: value} for the locals whose last assignment on every feasible acyclic path from the entry to block `target` gives one
    and the same evaluable value under env.  Branch decisions that evaluate under env prune the paths; the others fork."""
    from .. import formula
    locals_ = set(locals_)
    defs = {}
    for l in locals_:
        for d in fn.defs().get(l, []):
            defs.setdefault(d[0], []).append((d[1], l, d[2]))
    results = []
    count = [0]

    def step(b, seen, last):
        count[0] += 1
        if count[0] > cap:
            return False
        last = dict(last)
        for (i, l, kind) in sorted(defs.get(b, []), key=lambda x: (x[0] == "t", x[0] if x[0] != "t" else 0)):
            last[l] = (b, i, kind)
        if b == target:
            results.append(last)
            return True
        t = fn.blocks[b].term
        succs = [x for x in fn.succs(b) if not fn.blocks[x].cleanup and x not in seen]
        if t[0] == "switch":
            try:
                v = formula.evaluate(s.at(b, "t").operand(t[1]), env)
            except (formula.Uneval, TypeError, IndexError, ZeroDivisionError):
                v = None
            if isinstance(v, (int, bool)) and not isinstance(v, tuple):
                tg = [tgt for val, tgt in t[2] if val == int(v)]
                succs = [x for x in succs if x == (tg[0] if tg else t[3])]
        for x in succs:
            if not step(x, seen | {x}, last):
                return False
        return True
    if not step(0, {0}, {}):
        return {}
    out = {}
    for l in locals_:
        vals = set()
        ok = True
        for last in results:
            d = last.get(l)
            if d is None or d[2] != "assign" or d[1] == "t":
                ok = False
                break
            try:
                vals.add(repr(formula.evaluate(s.at(d[0], d[1]).rvalue(fn.blocks[d[0]].stmts[d[1]][2]), env)))
            except (formula.Uneval, TypeError, IndexError, ZeroDivisionError):
                ok = False
                break
        if ok and len(vals) == 1 and results:
            d = results[0][l]
            out[l] = formula.evaluate(s.at(d[0], d[1]).rvalue(fn.blocks[d[0]].stmts[d[1]][2]), env)
    return out


# ------------------------------------------------------------------------------------------------ emptiness decided from what?
# byte offset of the flags byte in the preamble and the mask of its EMPTY bit, from the published layouts
# (frequent items is left out on purpose: since fix 07bab7a its image is "empty" by stream weight while is_empty() counts the
# active counters -- a sketch purged to no counters still has a weight and an error offset to carry)
EMPTY_FLAG = {"theta": (5, 4), "bloom": (3, 4), "countmin": (3, 1), "tdigest": (5, 1)}
_WIDTH = {"u8": 1, "i8": 1, "u16": 2, "i16": 2, "u32": 4, "i32": 4, "f32": 4, "u64": 8, "i64": 8, "f64": 8}


def field_support(prog, e, depth=0):
    """first-level `self` fields an expression depends on; in-crate calls that receive `self` are inlined through their return
    expression (accessors), library calls (`len`, `is_empty`, `iter().all(..)`) contribute the fields of their arguments.
    None when a leaf cannot be attributed to fields (an unknown variable, an opaque call on the whole of `self`)."""
    out = set()
    for x in sym.walk(e):
        if x[0] == "field":
            r = x
            chain = []
            while isinstance(r, tuple) and r and r[0] in ("field", "variant", "downcast"):
                if r[0] == "field":
                    chain.append(r[2])
                r = r[1]
            if isinstance(r, tuple) and r and r[0] == "param" and show(r) == "self" and chain:
                out.add(chain[-1])
        elif x[0] == "call" and x[1] in prog.fns and x[2] and any(show(a) == "self" for a in x[2]):
            if depth > 3:
                return None
            r = ret_expr(prog, prog.fns[x[1]])
            if r is None:
                return None
            sub = field_support(prog, r, depth + 1)
            if sub is None:
                return None
            out |= sub
        elif x[0] == "var":
            return None
    return out


def emptiness_decisions(prog, fam):
    """the conditions under which the family's writer sets the EMPTY bit of the flags byte: (writer fn, [condition exprs]) or
    (writer fn | None, None) when the flags byte cannot be located"""
    from .. import proto, specfmt, formula
    owner, meth = specfmt.FAMILIES[fam]["writer"]
    f = pub_fn(prog, owner, meth)
    if f is None or fam not in EMPTY_FLAG:
        return f, None
    off, mask = EMPTY_FLAG[fam]
    sites = proto.model(prog, f, "w")
    # flags-byte candidates: u8 sites reached after exactly `off` bytes of non-loop sites that share their guards' prefix; the
    # writers emit the preamble in one run, possibly once per branch (an early-return arm for the empty image)
    conds = []
    found = 0
    pos = 0
    prev_guard = None
    for st in sites:
        g = repr(st.guards)
        if prev_guard is not None and g != prev_guard and st.kind.rstrip("*")[:2] in ("u8",) and pos != off:
            # a new arm that starts its own preamble
            pass
        k = st.kind.rstrip("*")
        w = _WIDTH.get(k[:3] if k[:3] in _WIDTH else k[:2])
        if st.loop or w is None:
            break
        if pos == off and k == "u8":
            found += 1
            v = st.value
            if v is None:
                return f, None
            if v[0] == "const":
                continue
            for x in sym.walk(v):
                if x[0] == "select":
                    try:
                        a = formula.evaluate(x[2], {})
                        b = formula.evaluate(x[3], {})
                    except formula.Uneval:
                        continue
                    if isinstance(a, int) and isinstance(b, int) and (a ^ b) & mask:
                        conds.append(x[1])
            break
        pos += w
        prev_guard = g
    if not found:
        return f, None
    return f, conds


def emptiness_rule(res, prog, rule, fams):
    """the writer takes the EMPTY bit from the state the public `is_empty()` reads.  A decision over other fields (the counters
    instead of the total weight, the collected entries instead of the stored flag) agrees with it on ordinary histories and parts
    from it after halve/decay, screening or purging: the image then says "empty" for a sketch that is not (weight, theta or error
    offset lost), or the other way round."""
    from .. import specfmt
    n = 0
    for fam in fams:
        owner, meth = specfmt.FAMILIES[fam]["writer"]
        ie = pub_fn(prog, owner, "is_empty")
        f, conds = emptiness_decisions(prog, fam)
        if ie is None or f is None or not conds:
            res.tri(None, rule, "%s|%s" % (rule, fam), "EMPTY bit of the %s flags byte not located / not conditional" % fam)
            continue
        r = ret_expr(prog, ie)
        api = field_support(prog, r) if r is not None else None
        for c in conds:
            n += 1
            sup = field_support(prog, c)
            ok = None
            if api and sup:
                ok = bool(api & sup)
            res.tri(ok, rule, "%s|%s" % (rule, fam),
                    "%s writer sets the EMPTY flag under `%s` (reads %s) while is_empty() reads %s: the two part on states where these fields disagree" % (
                        fam, show(c)[:80], sorted(sup or []), sorted(api or [])), f.id,
                    sample={"rule": rule, "family": fam, "decision": show(c)[:100], "reads": sorted(sup or []), "is_empty_reads": sorted(api or [])})
    return n


# ------------------------------------------------------------------------------------------------ seeds at full width
def narrow_seed_sites(prog):
    """every call of a hasher's `with_seed(seed: u64)` outside the hash module whose argument was widened from a narrower integer on
    the way (`u64::from(self.hash_seed)` with a u32 field, `x as u64` from u32): the seed was *held* in fewer than 64 bits, so two
    public seeds that differ above that width hash alike and the seed hash stamped on images is that of the truncated seed.
    yields (caller fn, callee, narrow type, span); also counts the sites looked at through the returned list's second element"""
    out = []
    n = 0
    for f in sorted(prog.fns.values(), key=lambda x: x.id):
        if f.promoted or f.id.startswith("hash::"):
            continue
        for b, site in f.calls():
            cal = site.get("callee") or ""
            if not (cal.startswith("hash::") and cal.rsplit("::", 1)[-1] in ("with_seed", "compute_seed_hash")) or not site["args"]:
                continue
            n += 1
            op = site["args"][0]
            seen = set()
            for _ in range(12):
                pl = ir.op_place(op)
                if pl is None or not isinstance(pl, int) or pl in seen:
                    break
                seen.add(pl)
                d = f.single_def(pl)
                if d is None or d[2] == "arg":
                    break
                blk = f.blocks[d[0]]
                if d[1] == "t":
                    cs = blk.term[1]
                    cn = (cs.get("callee") or "").rsplit("::", 1)[-1]
                    if cn in ("from", "into") and cs["args"]:
                        src_ty = ir.pl_ty(f, ir.op_place(cs["args"][0])) if ir.op_place(cs["args"][0]) is not None else None
                        if src_ty in ir.INT_RANGES and src_ty not in ("u64", "i64", "u128", "i128", "usize", "isize"):
                            out.append((f, cal, src_ty, site.get("span")))
                            break
                        op = cs["args"][0]
                        continue
                    break
                rv = blk.stmts[d[1]][2]
                if rv[0] == "use":
                    op = rv[1]
                    continue
                if rv[0] == "cast" and rv[1] == "IntToInt":
                    if rv[3] in ir.INT_RANGES and rv[3] not in ("u64", "i64", "u128", "i128", "usize", "isize"):
                        out.append((f, cal, rv[3], site.get("span")))
                        break
                    op = rv[2]
                    continue
                break
    return out, n


def seed_width_rule(res, prog, rule, module_prefixes=None):
    sites, n = narrow_seed_sites(prog)
    res.obligations += 1
    bad = [x for x in sites if module_prefixes is None or x[0].id.startswith(tuple(module_prefixes))]
    for (f, cal, ty, span) in bad:
        res.violate(rule, "%s|%s|%s" % (rule, f.id, cal.rsplit("::", 2)[-2] if cal.count("::") >= 2 else cal),
                    "%s hands %s a seed that was held as %s: public seeds that differ above bit %d hash alike (and stamp the same seed "
                    "hash)" % (f.id, cal, ty, int(ty[1:]) if ty[1:].isdigit() else 0), f.id, span)
    if not bad:
        res.discharged += 1
    res.rule(rule, n, 4, "hasher seeding sites outside the hash module (seed carried at 64 bits)")


# ------------------------------------------------------------------------------------------------ image value clobbered by a later setter
def clobbered_after_set(prog, fns):
    """in each function of `fns`: an object local receives a field value through a setter call (`est.set_hip_accum(v)`: the callee
    stores its parameter into field F of `&mut self`) and a later call on the same local, dominated by the first, runs a callee that
    stores a *constant* into the same F (`est.set_out_of_order(true)` zeroes the accumulator): on the paths where that store runs the
    value set first is gone.  yields (fn, field, setter, clobberer, span)"""
    eff = {}

    def effects(cid):
        """(fields stored from a parameter, fields stored from a constant) by the callee's own body"""
        if cid not in eff:
            from_param, from_const = set(), set()
            g = prog.fns.get(cid)
            if g is not None and g.argc >= 1 and g.local_ty(1).startswith("&mut"):
                sg = None
                for (ff, b, kind, place, rv, span, adt, fld) in sym.field_stores(prog, fns=[g]):
                    if kind != "assign" or rv is None or ir.pl_local(place) != 1:
                        continue
                    sg = sg or Sym(prog, g, ifconv=False)
                    try:
                        e = sg.at(b, "t").rvalue(rv)
                    except Exception:
                        continue
                    while e[0] == "cast":
                        e = e[1]
                    if e[0] == "param" and e[1] >= 2:
                        from_param.add(fld)
                    elif e[0] == "const":
                        from_const.add(fld)
            eff[cid] = (from_param, from_const)
        return eff[cid]
    for f in fns:
        calls = []
        for b, site in f.calls():
            cal = site.get("callee")
            if cal not in prog.fns or not site["args"]:
                continue
            pl = ir.op_place(site["args"][0])
            if pl is None:
                continue
            # `&mut est` is a temporary: find the local it borrows
            loc = ir.pl_local(pl)
            d = f.single_def(loc)
            if d is not None and d[2] == "assign":
                rv = f.blocks[d[0]].stmts[d[1]][2]
                if rv[0] == "ref":
                    loc = ir.pl_local(rv[2])
            calls.append((b, cal, loc, site))
        for (b1, c1, l1, s1) in calls:
            fp, _ = effects(c1)
            if not fp:
                continue
            for (b2, c2, l2, s2) in calls:
                if l2 != l1 or b2 == b1 or not f.dominates(b1, b2):
                    continue
                _, fc = effects(c2)
                for fld in sorted(fp & fc):
                    yield f, fld, c1, c2, s2.get("span")


# ------------------------------------------------------------------------------------------------ fixed tables built by pushing
def pushed_fixed_tables(prog, fns):
    """`Vec::with_capacity(n)` filled by `push` in a counted loop and frozen with `into_boxed_slice()`: the table's length is the number
    of pushes, not n.  Where the loop bound is another quantity than n (the entries an image stores vs the size of the table it
    describes) the free slots are gone: a list that must take one more coupon has nowhere to put it.
    yields (fn, verdict, capacity expr, loop bound expr | None, span); verdict False = bound differs from capacity and nothing
    resizes the vector, None = not decidable (no counted loop / resized / bound not found)"""
    for f in fns:
        if f.promoted:
            continue
        s = None
        for b, site in f.calls():
            if (site.get("callee") or "").rsplit("::", 1)[-1] != "into_boxed_slice" or not site["args"]:
                continue
            pl = ir.op_place(site["args"][0])
            if pl is None:
                continue
            vec = ir.pl_local(pl)
            # follow moves back to the local that was created
            for _ in range(4):
                d = f.single_def(vec)
                if d is not None and d[2] == "assign" and f.blocks[d[0]].stmts[d[1]][2][0] == "use" and ir.op_place(f.blocks[d[0]].stmts[d[1]][2][1]) is not None:
                    vec = ir.pl_local(ir.op_place(f.blocks[d[0]].stmts[d[1]][2][1]))
                else:
                    break
            defs = [d for d in f.defs().get(vec, []) if d[2] == "call"]
            if len(defs) != 1:
                continue
            mk = f.blocks[defs[0][0]].term[1]
            if (mk.get("callee") or "").rsplit("::", 1)[-1] != "with_capacity" or not mk["args"]:
                continue
            s = s or Sym(prog, f)
            cap = s.at(defs[0][0], "t").operand(mk["args"][0])
            pushes, other = [], 0
            for b2, st2 in f.calls():
                nm = (st2.get("callee") or "").rsplit("::", 1)[-1]
                if not st2["args"]:
                    continue
                p2 = ir.op_place(st2["args"][0])
                if p2 is None:
                    continue
                loc = ir.pl_local(p2)
                d2 = f.single_def(loc)
                if d2 is not None and d2[2] == "assign":
                    rv = f.blocks[d2[0]].stmts[d2[1]][2]
                    if rv[0] == "ref":
                        loc = ir.pl_local(rv[2])
                if loc != vec:
                    continue
                if nm == "push":
                    pushes.append(b2)
                elif nm in ("resize", "resize_with", "extend", "extend_from_slice", "append", "insert", "set_len", "truncate"):
                    other += 1
            if not pushes or other:
                yield f, None, cap, None, site.get("span")
                continue
            bound = None
            for (h, body) in s.loops():
                if not all(pb in body for pb in pushes):
                    continue
                for hb in sorted(body):
                    t = f.blocks[hb].term
                    if t[0] == "call" and (t[1].get("callee") or "").rsplit("::", 1)[-1] == "next" and t[1]["args"]:
                        it = s.at(hb, "t").operand(t[1]["args"][0])
                        rg = find_sub(it, lambda x: x[0] == "agg" and "Range" in str(x[1]) and len(x[2]) == 2)
                        if rg is not None:
                            bound = rg[2][1]
                            if rg[2][0] != ("const", 0):
                                bound = None
                        break
                break
            if bound is None:
                yield f, None, cap, None, site.get("span")
            else:
                yield f, (show(bound) == show(cap)) or None if show(bound) == show(cap) else False, cap, bound, site.get("span")


# ------------------------------------------------------------------------------------------------ interpolation windows stay inside the table
def interpolation_window_rule(res, prog, rule, module="hll::cubic_interpolation"):
    """the table interpolators pick a 4-point window around the interval that straddles x (shifted inwards at both ends).  By value:
    the return expression of each public interpolator of the module is evaluated (straddle search replaced by its specification) for
    x at the start, middle and end of *every* interval of tables of several lengths: every index must stay inside the table and
    the result must lie in the straddled interval.  The last interval is reached only by raw estimates just below the table's top
    -- a 0.4 % band of cardinalities per lg_k -- where an off-by-one in the window shift is an index-out-of-bounds panic."""
    from .. import formula
    import bisect
    n = 0
    for f in sorted(prog.fns.values(), key=lambda x: x.id):
        if f.promoted or not f.id.startswith(module + "::") or "{closure" in f.id or f.argc != 3 or not f.exported and not f.is_pub:
            continue
        tys = [f.local_ty(i) for i in (1, 2, 3)]
        if tys[0] != "&[f64]" or tys[2] != "f64":
            continue
        e = ret_expr(prog, f)
        n += 1
        if e is None:
            res.tri(None, rule, "%s|%s" % (rule, f.id), "no single return expression")
            continue
        names = [f.local_name(i) or "arg%d" % i for i in (1, 2, 3)]
        verdict, wit = True, ""
        for ln in (4, 5, 9, 33):
            xs = [float(3 * i * i + 2 * i) for i in range(ln)]
            ys = [float(i) for i in range(ln)]
            for off in range(ln - 1):
                for t in (0.0, 0.5, 0.999):
                    x = xs[off] + t * (xs[off + 1] - xs[off])
                    env = {"@prog": prog, "@ieee": True, names[0]: xs, names[2]: x, "len(%s)" % names[0]: ln, "PtrMetadata(%s)" % names[0]: ln,
                           "@fn:find_straddle": (lambda arr, v: bisect.bisect_right(arr, v) - 1)}
                    if tys[1] == "&[f64]":
                        env[names[1]] = ys
                        env["len(%s)" % names[1]] = ln
                        env["PtrMetadata(%s)" % names[1]] = ln
                    else:
                        env[names[1]] = 1.0
                    try:
                        got = formula.evaluate(e, env)
                    except formula.Uneval as u:
                        if "out of range" in str(u):
                            verdict, wit = False, "table of %d points, x in interval %d (the %s one): an index leaves the table" % (ln, off, "last" if off == ln - 2 else "first" if off == 0 else "inner")
                        elif verdict:
                            verdict, wit = None, str(u)[:60]
                        continue
                    except (TypeError, ZeroDivisionError, IndexError) as u:
                        if verdict:
                            verdict, wit = None, repr(u)[:60]
                        continue
                    if isinstance(got, (int, float)) and not (off - 0.5 <= got <= off + 1.5) and verdict:
                        verdict, wit = False, "table of %d points, x in interval %d: result %.3f is not in the straddled interval [%d, %d]" % (ln, off, got, off, off + 1)
                if verdict is False:
                    break
            if verdict is False:
                break
        res.tri(verdict, rule, "%s|%s" % (rule, f.id), "%s: %s" % (f.id, wit), f.id, sample={"rule": rule, "fn": f.id, "tables": [4, 5, 9, 33]})
    res.rule(rule, n, 2, "table interpolators evaluated over every interval")


# ------------------------------------------------------------------------------------------------ reset hands back an untouched fresh object
def reset_assigns_fresh(prog, owner):
    """`reset(&mut self)` implemented as `*self = <constructor>(..)`: the object assigned is the constructor's result as it came back.  A
    fresh object that is modified between its construction and the assignment (`mem::swap(&mut fresh.map, &mut self.map)` to keep an
    allocation) carries fields that were computed for the part that was swapped away (a cached capacity, a size log): the reset
    sketch is then not in the state a new one is.  yields (fn, verdict, what); verdict False = a mutable borrow of the fresh object (or
    of a part of it) is taken before the assignment; True = assigned untouched; nothing yielded when reset is not of this shape."""
    for f in fns_of(prog, owner, "reset"):
        if f.promoted or f.argc != 1 or not f.local_ty(1).startswith("&mut"):
            continue
        for b in f.blocks:
            if b.cleanup:
                continue
            for i, st in enumerate(b.stmts):
                if st[0] != "=" or isinstance(st[1], int):
                    continue
                pl = st[1]
                if not (ir.pl_local(pl) == 1 and [p[0] for p in ir.pl_proj(pl)] == ["*"]) or st[2][0] != "use":
                    continue
                src = ir.op_place(st[2][1])
                if src is None or not isinstance(src, int):
                    continue
                chain = {src}
                for _ in range(4):       # `*self = move _t` with `_t = move fresh`
                    d0 = f.single_def(src)
                    if d0 is not None and d0[2] == "assign":
                        rv0 = f.blocks[d0[0]].stmts[d0[1]][2]
                        p0 = ir.op_place(rv0[1]) if rv0[0] == "use" else None
                        if p0 is not None and isinstance(p0, int):
                            src = p0
                            chain.add(src)
                            continue
                    break
                defs = f.defs().get(src, [])
                made = [d for d in defs if d[2] == "call"]
                if len(made) != 1 or (f.blocks[made[0][0]].term[1].get("callee") or "") not in prog.fns:
                    continue
                touched = None
                for b2 in f.blocks:
                    if b2.cleanup:
                        continue
                    for st2 in b2.stmts:
                        if st2[0] == "=" and st2[2][0] == "ref" and st2[2][1] == "mut" and ir.pl_local(st2[2][2]) == src:
                            touched = "a mutable borrow of `%s`%s" % (f.local_name(src) or "the fresh object", "".join("." + str(p[2]) for p in ir.pl_proj(st2[2][2]) if p[0] == "."))
                        if st2[0] == "=" and not isinstance(st2[1], int) and ir.pl_local(st2[1]) == src:
                            touched = "a store into `%s`" % (f.local_name(src) or "the fresh object")
                yield f, (touched is None), touched or "assigned as constructed", st[3] if len(st) > 3 else None
