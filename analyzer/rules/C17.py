"""C17 — no valid sequence of public API calls panics (debug or release).

Decided statically (DESIGN §5.17):
  C17.R  configuration-range arithmetic: every checked + - * << >> / % and constant-length index whose operands derive
         only from constants and from values validated by a public constructor / builder (fields written at
         construction) cannot overflow / go out of range over the ranges those constructors admit.
  C17.A  arithmetic on the length of a slice/Vec that is a public-API argument needs a dominating guard.
  C17.P  census (advisory, never a violation) of explicit panics whose condition is a public-API argument: the
         library's precondition checks.
Not decided: state-dependent internal invariants (probe-loop termination, table fullness, counters).
"""
from .. import ir, absint
from ..main import Result
from . import common as C


def is_config_label(prog, lbl):
    """'A:<fn>:<param>' where fn is a public constructor / builder step (returns the owner type or Self)"""
    _, rest = lbl.split(":", 1)
    fid, _, _param = rest.rpartition(":")
    f = prog.fns.get(fid)
    if f is None:
        return False
    rty = f.local_ty(0)
    if f.owner and (rty == f.owner or rty.startswith(f.owner + "<") or rty.startswith(f.owner)):
        return True
    # builders: fn(self, x) -> Self
    if f.owner and f.argc >= 1 and f.local_ty(1) == rty:
        return True
    # free constructors returning a local ADT
    if rty in prog.adts:
        return True
    return False


def run(prog, ctx):
    res = Result("C17")
    scope = set(f.id for f in prog.fns.values() if not ("bit_pack" in f.id and "pack_bits_" in f.id))
    an = absint.Analysis(prog, api_taint=True, scope=scope)
    an.run()
    res.functions_analysed = len(scope)
    exported = [f.id for f in prog.fns.values() if f.exported and not f.promoted]
    res.entry_points = exported[:400]
    res.rule("C17.entries", len(exported), 150, "exported functions seeded with unconstrained (API-tainted) parameters")
    nR = nA = nP = 0
    census = []
    for o in an.obligations:
        t = o.taint
        if absint.W in t or absint.U in t or any(x.startswith("B:") for x in t):
            continue
        a_lbls = [x for x in t if x.startswith("A:")]
        al_lbls = [x for x in t if x.startswith("AL:")]
        if o.kind == "panic" or o.kind == "unwrap":
            if a_lbls and o.status == "unsafe":
                nP += 1
                if len(census) < 60:
                    census.append({"fn": o.fn, "condition": o.label, "args": sorted(a_lbls)[:3]})
            continue
        if o.kind == "alloc":
            continue
        if al_lbls:
            nA += 1
            res.obligations += 1
            if o.status == "safe":
                res.discharged += 1
                res.sample({"rule": "C17.A", "site": o.fn, "detail": o.detail, "operands": o.operands, "verdict": "discharged"})
            elif o.status == "unsafe":
                key = "C17.A|%s|%s|%s|%s" % (o.kind, o.fn, o.detail, o.label)
                res.violate("C17.A", key, "%s in %s: %s on the length of a public-API argument %s is not guarded (%s)" % (
                    o.kind, o.fn, o.detail, sorted(al_lbls)[:2], ["%s in [%s, %s]" % x for x in o.operands]), o.fn, o.span,
                    {"operands": o.operands})
            else:
                res.undecided += 1
            continue
        # configuration-range arithmetic: constants + validated constructor arguments only
        if a_lbls and not all(is_config_label(prog, x) for x in a_lbls):
            continue
        if not a_lbls and not t:
            # constants only
            pass
        nR += 1
        res.obligations += 1
        if o.status == "safe":
            res.discharged += 1
            if a_lbls:
                res.sample({"rule": "C17.R", "site": o.fn, "detail": o.detail, "operands": o.operands, "verdict": "discharged",
                            "config": sorted(a_lbls)[:2]})
        elif o.status == "unsafe":
            key = "C17.R|%s|%s|%s|%s" % (o.kind, o.fn, o.detail, o.label)
            res.violate("C17.R", key, "%s in %s: %s can fail for configuration values the public constructors admit: %s (config: %s)" % (
                o.kind, o.fn, o.detail, ["%s in [%s, %s]" % x for x in o.operands], sorted(a_lbls)[:3]), o.fn, o.span,
                {"operands": o.operands, "config": sorted(a_lbls)})
        else:
            res.undecided += 1
    res.rule("C17.R", nR, 60, "configuration-range arithmetic obligations")
    res.rule("C17.A", nA, 0, "API-argument length arithmetic obligations")
    # ---------------- C17.I structural invariants behind the code's own expect()/assert!/unreachable!() sites
    # (open-addressing probe geometry agreeing between insert / find / grow, tables never full, purge before insert,
    # fixed-size buffers never outgrown): decided by the structural rules of the packs below; a violation there means an
    # internal `expect`/assert can fire on valid use
    import importlib
    INVARIANT_RULES = {"C02": ("C02.Q", "C02.Q2", "C02.A4", "C02.R", "C02.V", "C02.G", "C02.Z", "C02.K"), "C03": ("C03.L", "C03.K", "C03.G"), "C04": ("C04.K", "C04.G", "C04.R", "C04.T", "C04.Z", "C04.N"),
                       "C05": ("C05.D", "C05.N", "C05.M", "C05.Z", "C05.K"), "C06": ("C06.L", "C06.K", "C06.O", "C06.T"), "C07": ("C07.P", "C07.D", "C07.Z", "C07.K", "C07.N"),
                       "C18": ("C18.G", "C18.K"), "C16": ("C16.B", "C16.W"), "C09": ("C09.S",)}
    nI = 0
    for pack, rules in sorted(INVARIANT_RULES.items()):
        try:
            r = importlib.import_module("analyzer.rules." + pack).run(prog, dict(ctx))
        except Exception as ex:
            res.extra.setdefault("undecided_imports", []).append("%s: %r" % (pack, ex))
            continue
        for rid in rules:
            inst = r.rules.get(rid, {}).get("instances", 0) if hasattr(r, "rules") else 0
            nI += inst
        for v in r.violations:
            if v.rule in rules and "anchor-lost" not in v.key:
                res.violate("C17.I", "C17.I|" + v.key, "internal invariant behind an expect/assert can break: " + v.message, getattr(v, "fn", None), getattr(v, "span", None))
        res.obligations += sum(1 for rid in rules)
        res.discharged += sum(1 for rid in rules if not any(v.rule == rid for v in r.violations))
    res.rule("C17.I", nI, 20, "structural-invariant rule instances imported from C02-C07, C16, C18")
    res.extra["precondition_census"] = {"count": nP, "examples": census}
    res.extra["analysis"] = an.stats
    res.explanation = ("interval abstract interpretation of the whole crate (%d functions) with every parameter of the %d exported functions "
                       "unconstrained; obligations = checked arithmetic, shifts, divisions and constant-length indexing whose operands derive only "
                       "from constants and constructor-validated configuration (C17.R) or from the length of an API argument (C17.A)" % (len(scope), len(exported)))
    res.not_decided = ("state-dependent invariants (table fullness, probe termination, counters that only grow with the stream), arithmetic on "
                       "unvalidated direct arguments (documented preconditions; listed in precondition_census)")
    C.interpolation_window_rule(res, prog, "C17.C")
    return res
