"""C10 — t-digest rank and quantile are monotone, in range and mutually consistent.

Decided statically (DESIGN §5.10).  The expression returned at every return site of rank() / quantile() is extracted from MIR
together with the exact branch decisions of every path reaching the site (Sym.path_conditions) and closed-form summaries of
the accumulation loops in front of it.  These formulas are evaluated on sampled digest states that satisfy the digest
invariants (means sorted inside [min,max], weights >= 1, total weight = sum, a weight-1 extreme centroid sits on min/max):
  C10.R  range: every rank result lies in [0,1]; every quantile result lies in [min,max]
  C10.M  monotone: every return expression is non-decreasing in the query (value resp. rank) while the same site is reached
  C10.G  clamps: rank returns 0 / 1 below min / above max; quantile returns min / max for weight < 1 / > W - 1
  C10.B  comparators handed to the binary searches implement lower-bound / upper-bound on the centroid mean
  C10.X  extremes: min/max are folded from the first/last centroid only after the centroid list has its final order
         (no reverse/sort of the list can follow the positional read), and the merged weight is added to the total
Not decided: monotonicity across different return sites (between branches), accuracy, rank(quantile(q)) ~ q.
"""
import random

from .. import ir, sym, formula
from ..main import Result
from . import common as C
from .common import Sym, show

V = "tdigest::sketch::TDigestView"
UNREACH = object()


class Unsupported(Exception):
    pass


def fn_ret_expr(prog, f):
    s = Sym(prog, f)
    rets = [b.idx for b in f.blocks if b.term[0] == "return" and not b.cleanup]
    return s.at(rets[0]).local(0) if len(rets) == 1 else None


def binary_search_by(prog):
    """model of core::slice::binary_search_by for a monotone comparator: index of the first element not Less
    (Ok(i) for an Equal element, else Err(insertion point)); the closure body is evaluated from its extracted expression"""
    cache = {}

    def run(lst, clo):
        if not (isinstance(clo, tuple) and clo and clo[0] == "$closure"):
            raise formula.Uneval("comparator")
        cf = prog.fns.get(clo[1])
        if cf is None:
            raise formula.Uneval("closure body")
        if clo[1] not in cache:
            cache[clo[1]] = fn_ret_expr(prog, cf)
        body = cache[clo[1]]
        if body is None:
            raise formula.Uneval("closure body")
        pname = cf.local_name(2) or "arg2"
        for i, el in enumerate(lst):
            env = {"@prog": prog, pname: el}
            for k, cv in enumerate(clo[2]):
                env["arg1.%d" % k] = cv
            r = formula.evaluate(body, env)
            if not (isinstance(r, tuple) and r[0] == "$variant"):
                raise formula.Uneval("ordering")
            if r[1] != "Less":
                return i
        return len(lst)
    return run


class Model:
    """return sites of one function with their path conditions and the loops in front of them"""

    def __init__(self, prog, f):
        self.prog, self.f = prog, f
        self.s = Sym(prog, f)
        s = self.s
        self.loops = []
        for h, body in s.loops():
            self.loops.append(self._loop(h, body))
        self.sites = []
        for b in f.blocks:
            if b.cleanup:
                continue
            for i, st in enumerate(b.stmts):
                if st[0] != "=" or st[1] != 0:
                    continue
                e = s.at(b.idx, i).rvalue(st[2])
                if not (e[0] == "agg" and e[1].endswith("Some") and e[2]):
                    continue
                paths = s.path_conditions(b.idx, with_blocks=True)
                self.sites.append({"block": b.idx, "idx": i, "expr": e[2][0], "paths": paths, "span": st[3], "loops": self._site_loops(b.idx)})

    def _loop(self, h, body):
        f, s = self.f, self.s
        L = {"header": h, "body": body, "kind": None}
        pre = [p for p in f.preds(h) if p not in body and not f.blocks[p].cleanup]
        L["pre"] = pre[0] if len(pre) == 1 else None
        # iteration: for-range (a `next` call on a Range inside the body) or while (switch at the header)
        for b in sorted(body):
            t = f.blocks[b].term
            if t[0] == "call" and (t[1].get("callee") or "").endswith("::next"):
                e = s.at(b, "t").call_expr(t[1]) if hasattr(s, "call_expr") else None
                if e and e[0] == "call" and e[2] and e[2][0][0] == "agg" and "Range" in e[2][0][1] and len(e[2][0][2]) == 2:
                    L["kind"] = "range"
                    L["iter"] = e
                    L["a"], L["b"] = e[2][0][2]
        if L["kind"] is None and f.blocks[h].term[0] == "switch":
            L["kind"] = "while"
            saved = getattr(s, "_pos", None)
            s._pos = (h, "t")
            L["cond"] = s.operand(f.blocks[h].term[1])
            s._pos = saved
            t = f.blocks[h].term
            inb = [sx for sx in f.succs(h) if sx in body]
            vals = [v for v, tgt in t[2] if tgt in inb]
            L["stay"] = ("eq", vals[0]) if vals and t[3] not in inb else ("ne", tuple(v for v, _ in t[2]))
        # the block deciding stay/leave
        L["cond_blocks"] = set()
        if L["kind"] == "while":
            L["cond_blocks"].add(h)
        elif L["kind"] == "range":
            for b in body:
                t = f.blocks[b].term
                if t[0] == "switch":
                    saved = getattr(s, "_pos", None)
                    s._pos = (b, "t")
                    c = s.operand(t[1])
                    s._pos = saved
                    if c[0] == "discr" and c[1] == L["iter"]:
                        L["cond_blocks"].add(b)
        # carried variables: locals assigned inside the body that also have a definition outside
        L["carried"] = {}
        defs = f.defs()
        for l, ds in defs.items():
            inside = [d for d in ds if d[0] in body and d[2] == "assign"]
            outside = [d for d in ds if d[0] not in body]
            if inside and outside and f.local_name(l):
                if len(inside) > 1 or any(d[2] != "assign" for d in ds if d[0] in body):
                    L["carried"][l] = None
                    continue
                d = inside[0]
                L["carried"][l] = s.at(d[0], d[1]).rvalue(f.blocks[d[0]].stmts[d[1]][2])
        return L

    def _site_loops(self, b):
        """loops in front of block b, in dominance order, with the way b is reached from each: 'iter' (from inside an
        iteration) or 'exit' (after the loop condition failed)"""
        f = self.f
        out = []
        for L in self.loops:
            if not f.dominates(L["header"], b) or b in L["body"]:
                if b in L["body"]:
                    out.append((L, "iter"))
                continue
            # exit edges through which b is reachable
            modes = set()
            for x in L["body"]:
                for y in f.succs(x):
                    if y in L["body"] or f.blocks[y].cleanup:
                        continue
                    if y == b or self.s._reaches(y, b):
                        # ignore exits that can only reach b by re-entering the loop
                        modes.add("exit" if x in L["cond_blocks"] else "iter")
            if len(modes) != 1:
                out.append((L, None))
            else:
                out.append((L, modes.pop()))
        out.sort(key=lambda x: len(self.s._dom_chain(x[0]["header"])))
        return out

    # ---- evaluation on a concrete state
    def holds(self, paths, env, skip):
        """three-valued: True / False / None (a decision could not be evaluated)"""
        unknown = False
        for p in paths:
            ok = True
            for cond, tv, blk in p:
                if blk in skip:
                    continue
                try:
                    v = formula.evaluate(cond, env)
                except formula.Uneval:
                    ok = None
                    break
                if isinstance(v, tuple):
                    ok = None
                    break
                if (tv[0] == "eq" and v != tv[1]) or (tv[0] == "ne" and v in tv[1]):
                    ok = False
                    break
            if ok:
                return True
            if ok is None:
                unknown = True
        return None if unknown else False

    def run_loop(self, L, mode, it, env, skip):
        f, s = self.f, self.s
        if L["kind"] is None or L["pre"] is None or any(u is None for u in L["carried"].values()):
            raise Unsupported("loop at bb%d has no summary" % L["header"])
        cur = {}
        for l in L["carried"]:
            e = s.at(L["pre"], "t").local(l)
            cur[l] = formula.evaluate(e, env)
        keys = {l: show(("var", l, f.local_name(l) or "")) for l in L["carried"]}
        inner = [S for S in self.sites if any(LL is L and m == "iter" for LL, m in S["loops"])]
        n = 0
        if L["kind"] == "range":
            a = formula.evaluate(L["a"], env)
            b = formula.evaluate(L["b"], env)
            ikey = formula.leaf_key(L["iter"])
        while True:
            for l, k in keys.items():
                env[k] = cur[l]
            env["@cache"] = {}
            if L["kind"] == "range":
                if a + n >= b:
                    break
                env[ikey] = a + n
                env["@cache"] = {}
            else:
                c = formula.evaluate(L["cond"], env)
                stay = (c == L["stay"][1]) if L["stay"][0] == "eq" else (c not in L["stay"][1])
                if not stay:
                    break
            if mode == "iter" and n == it:
                return True
            # an earlier iteration that returns makes this state unreachable
            for S in inner:
                h = self.holds(S["paths"], env, skip)
                if h is None:
                    raise Unsupported("undecidable early return")
                if h:
                    return False
            new = {l: formula.evaluate(L["carried"][l], env) for l in L["carried"]}
            cur = new
            n += 1
            if n > 200:
                raise Unsupported("loop bound")
        return mode == "exit"

    def eval_site(self, S, env, it):
        """value returned at site S in state env, or UNREACH; raises Unsupported / formula.Uneval"""
        skip = set()
        env["@cache"] = {}
        for L, m in S["loops"]:
            skip |= L["cond_blocks"]
        if S["loops"] and self.holds(S["paths"], env, skip) is False:
            return UNREACH      # a decision in front of the loops already rules the site out
        for L, m in S["loops"]:
            if m is None:
                raise Unsupported("mixed loop exits")
            if not self.run_loop(L, m, it, env, skip):
                return UNREACH
        h = self.holds(S["paths"], env, skip)
        if h is None:
            raise Unsupported("path condition not evaluable")
        if not h:
            return UNREACH
        return formula.evaluate(S["expr"], env)


def check_extremes(prog, res, R="C10.X"):
    """min/max are folded from the first/last centroid only after the centroid list has its final order, and the merged weight
    is added to the total (shared by C10 and C15)"""
    # ---------------- C10.X extremes after the final ordering; merged weight added
    n_x = 0
    for f in C.fns_of(prog, "tdigest::sketch::TDigestMut"):
        s = Sym(prog, f, ifconv=False)
        stores = []
        for (ff, b, kind, place, rv, span, adt, fld) in sym.field_stores(prog, adt="tdigest::sketch::TDigestMut", fns=[f]):
            if fld in ("min", "max") and rv is not None:
                e = C.resolve_var(prog, f, s.rvalue(rv), s)
                if sym.contains(e, lambda t: t[0] == "index" or (t[0] == "call" and t[1].endswith("index"))) and "centroids" in show(e):
                    stores.append((b, fld, e, span))
        if not stores:
            continue
        reorder = [b for b, st in f.calls() if (st.get("callee") or "").rsplit("::", 1)[-1] in ("reverse", "sort_by", "sort_unstable_by", "sort", "sort_by_key")
                   and "centroids" in show(s.operand(st["args"][0]))]
        for b, fld, e, span in stores:
            n_x += 1
            res.obligations += 1
            later = [r for r in reorder if r != b and s._reaches(b, r)]
            if not later:
                res.discharged += 1
            else:
                res.violate(R, "%s|%s|%s" % (R, f.id, fld), "%s folds %s from a positional read of the centroid list (%s) before the list is re-ordered" % (f.id, fld, show(e)[:80]), f.id, span)
        res.obligations += 1
        cw = [s.rvalue(rv) for (ff, b, kind, place, rv, span, adt, fld) in sym.field_stores(prog, adt="tdigest::sketch::TDigestMut", field="centroids_weight", fns=[f]) if rv is not None]
        if any(C.is_bin(x, "Add") and "centroids_weight" in show(x) for x in cw):
            res.discharged += 1
        elif cw and not all(x[0] == "const" or (x[0] == "field" and x[2] == "centroids_weight") for x in cw):
            res.undecided += 1
        elif not cw and any((st.get("callee") or "").startswith("tdigest::") for _, st in f.calls()):
            res.undecided += 1
        else:
            res.violate(R, "%s|%s|weight" % (R, f.id), "%s does not add the merged weight to centroids_weight" % f.id, f.id)
    C.pairing_rule(res, prog, R, "tdigest::sketch::TDigestMut", "centroids", "centroids_weight", 3)
    res.rule(R, n_x, 2, "min/max folds from the centroid list")


def sample_digest(rnd):
    n = rnd.choice([1, 2, 2, 3, 4, 6])
    mn, mx = rnd.choice([(0.0, 100.0), (-50.0, 50.0), (10.0, 10.0 + rnd.uniform(0.5, 5))])
    ws = [rnd.choice([1, 1, 2, 3, 4, 7, 20]) for _ in range(n)]
    ms = sorted(rnd.uniform(mn, mx) for _ in range(n))
    if rnd.random() < 0.2 and n >= 3:
        j = rnd.randrange(1, n - 1)
        ms[j] = ms[j - 1]            # tied means
    if ws[0] == 1 or rnd.random() < 0.1:
        ms[0] = mn
    if ws[-1] == 1 or rnd.random() < 0.1:
        ms[-1] = mx
    if n == 1 and ws[0] == 1:
        mx = mn
        ms[0] = mn
    if rnd.random() < 0.15:
        # a stream of identical values: every mean is that value and min == max
        v = rnd.choice([0.1, 19.99, 1e-7, 12345.678, -3.3, 1.0 / 3.0])
        mn = mx = v
        ms = [v] * n
    ms.sort()
    return {"n": n, "min": mn, "max": mx, "W": sum(ws), "c": [{"mean": m, "weight": w} for m, w in zip(ms, ws)]}


def base_env(prog, d, bs):
    return {"self.centroids": d["c"], "self.min": d["min"], "self.max": d["max"], "self.centroids_weight": d["W"],
            "@prog": prog, "@ieee": True, "@fn:get": lambda x: x, "@fn:binary_search_by": bs, "@fn:unwrap_or_else": lambda r, f: r,
            "fnref": 0}


def queries(d, what, rnd):
    if what == "rank":
        mn, mx = d["min"], d["max"]
        def mix(u):
            return mn * (1.0 - u) + mx * u          # no overflow for huge ranges
        out = [mn, mx, mix(rnd.random()), mix(rnd.random()), mn - 1.0, mx + 1.0]
        out += [c["mean"] for c in d["c"]]
        out += [a["mean"] / 2 + b["mean"] / 2 for a, b in zip(d["c"], d["c"][1:])]
        out += [a["mean"] * 0.1 + b["mean"] * 0.9 for a, b in zip(d["c"], d["c"][1:])]
        return out
    W = d["W"]
    out = [rnd.random(), rnd.random(), 0.0, 1.0, 1.0 / W, (W - 1.0) / W, 0.5 / W, (W - 0.5) / W]
    acc = 0
    for c in d["c"]:
        out += [(acc + c["weight"] / 2.0) / W, (acc + 0.25) / W, (acc + c["weight"] - 0.25) / W]
        acc += c["weight"]
    return [min(1.0, max(0.0, x)) for x in out]


def run(prog, ctx):
    res = Result("C10")
    rnd = random.Random(10)
    fr = C.fn_one(prog, V, "rank")
    fq = C.fn_one(prog, V, "quantile")
    res.rule("C10.entry", (1 if fr else 0) + (1 if fq else 0), 2, "the rank and quantile routines behind TDigestMut/TDigest")
    if not fr or not fq:
        return res
    res.entry_points = [fr.id, fq.id]
    res.functions_analysed = 2
    bs = binary_search_by(prog)
    thorough = ctx.get("tier") == "thorough"
    n_digests = 1500 if thorough else 300
    digests = [sample_digest(rnd) for _ in range(n_digests)]
    # streams of identical values first (min == max == every mean): the place where interpolation rounding shows
    const_digests = []
    for v in (0.1, 19.99, 1e-7, 12345.678, -3.3, 1.0 / 3.0):
        for n_ in (2, 3, 5):
            ws_ = [rnd.choice([1, 2, 3, 4, 7, 20]) for _ in range(n_)]
            const_digests.append({"n": n_, "min": v, "max": v, "W": sum(ws_), "c": [{"mean": v, "weight": w_} for w_ in ws_]})
    # finite values of huge magnitude on both sides of zero (differences and weight products overflow f64)
    huge_digests = []
    for n_ in (2, 3, 5, 8):
        for top in (1.7e308, 9e307):
            ws_ = [1] + [rnd.choice([2, 7, 40, 300]) for _ in range(n_ - 2)] + [1]
            ms_ = [-top * (1.0 - i_ / (n_ - 1.0)) + top * (i_ / (n_ - 1.0)) for i_ in range(n_)]
            huge_digests.append({"n": n_, "min": ms_[0], "max": ms_[-1], "W": sum(ws_), "c": [{"mean": m_, "weight": w_} for m_, w_ in zip(ms_, ws_)]})
            ws2 = [rnd.choice([3, 50]) for _ in range(n_)]
            huge_digests.append({"n": n_, "min": -top, "max": top, "W": sum(ws2), "c": [{"mean": m_ * 0.5, "weight": w_} for m_, w_ in zip(ms_, ws2)]})
    digests = const_digests + huge_digests + digests
    n_sites = 0
    clamps = {"rank0": 0, "rank1": 0, "qmin": 0, "qmax": 0}
    clamp_bad = {}
    models = {}
    for f, qname, what in ((fr, fr.local_name(2) or "value", "rank"), (fq, fq.local_name(2) or "rank", "quantile")):
        m = Model(prog, f)
        models[what] = m
        s = m.s
        for S in m.sites:
            val = S["expr"]
            n_sites += 1
            res.obligations += 2
            accepted = 0
            mono_pairs = 0
            unsupported = None
            bad_range = bad_mono = None
            for d in digests:
                if unsupported or (accepted >= (400 if thorough else 120) and mono_pairs >= 40):
                    break
                its = [0]
                if any(mm == "iter" for _, mm in S["loops"]):
                    its = list(range(0, max(1, d["n"] - 1)))
                for q in queries(d, what, rnd):
                    for it in its:
                        env = base_env(prog, d, bs)
                        env[qname] = q
                        try:
                            y = m.eval_site(S, env, it)
                        except Unsupported as u:
                            unsupported = str(u)
                            break
                        except (formula.Uneval, ZeroDivisionError) as u:
                            unsupported = "not evaluable: %s" % u
                            break
                        if y is UNREACH:
                            continue
                        accepted += 1
                        lo, hi = (0.0, 1.0) if what == "rank" else (d["min"], d["max"])
                        tol = 0.0 if what == "quantile" else 1e-12        # the range of quantile is exact; rank sums weights in floating point
                        state = {"min": d["min"], "max": d["max"], "centroids": [(c["mean"], c["weight"]) for c in d["c"]], qname: q}
                        ck = None
                        if what == "rank" and q < d["min"]:
                            ck, want = "rank0", 0.0
                        elif what == "rank" and q > d["max"]:
                            ck, want = "rank1", 1.0
                        elif what == "quantile" and d["n"] > 1 and q * d["W"] < 1.0:
                            ck, want = "qmin", d["min"]
                        elif what == "quantile" and d["n"] > 1 and q * d["W"] > d["W"] - 1.0:
                            ck, want = "qmax", d["max"]
                        if ck:
                            clamps[ck] += 1
                            if y != want and ck not in clamp_bad:
                                clamp_bad[ck] = (state, y, want, show(val)[:120], S["span"], f.id)
                        if not (lo - tol <= y <= hi + tol) and bad_range is None:
                            bad_range = (state, y, lo, hi)
                        dq = 1e-6 * ((d["max"] - d["min"]) or 1.0) if what == "rank" else 1e-6
                        env2 = base_env(prog, d, bs)
                        env2[qname] = q + dq
                        try:
                            y2 = m.eval_site(S, env2, it)
                        except (Unsupported, formula.Uneval, ZeroDivisionError):
                            y2 = UNREACH
                        if y2 is not UNREACH:
                            mono_pairs += 1
                            if y2 < y - tol and bad_mono is None:
                                bad_mono = (state, y, y2)
                    if unsupported:
                        break
            label = "%s:%s" % (what, show(val)[:70])
            if unsupported:
                res.undecided += 2
                res.extra.setdefault("undecided_sites", []).append("%s bb%d: %s" % (what, S["block"], unsupported))
                continue
            if accepted == 0:
                # no sampled digest state reaches the site (dead under the digest invariants, e.g. a defensive fall-through)
                res.discharged += 2
                res.extra.setdefault("unreached_sites", []).append("%s bb%d: %s" % (what, S["block"], show(val)[:100]))
                continue
            if bad_range is None:
                res.discharged += 1
            else:
                res.violate("C10.R", "C10.R|" + label, "%s can return %r outside [%r, %r]: expression %s in state %s" % (
                    what, bad_range[1], bad_range[2], bad_range[3], show(val)[:200], bad_range[0]), f.id, S["span"])
            if bad_mono is None:
                res.discharged += 1
                res.sample({"rule": "C10.R/M", "fn": what, "site": "bb%d" % S["block"], "expression": show(val)[:140], "states": accepted, "monotone_pairs": mono_pairs})
            else:
                res.violate("C10.M", "C10.M|" + label, "%s decreases (%r -> %r) when the query increases: expression %s in state %s" % (
                    what, bad_mono[1], bad_mono[2], show(val)[:200], bad_mono[0]), f.id, S["span"])
    # ---------------- C10.M2 monotone across return sites: for one digest state and increasing queries, the value returned by
    # whichever site is reached must not decrease
    n_m2 = 0
    for f, qname, what in ((fr, fr.local_name(2) or "value", "rank"), (fq, fq.local_name(2) or "rank", "quantile")):
        m = models[what]
        res.obligations += 1
        bad = None
        why = None
        chains = 0
        for d in digests[:(400 if thorough else 120)]:
            qs = sorted(set(queries(d, what, rnd)))
            prev = None
            for q in qs:
                got = []
                for S in m.sites:
                    its = list(range(0, max(1, d["n"] - 1))) if any(mm == "iter" for _, mm in S["loops"]) else [0]
                    for it in its:
                        env = base_env(prog, d, bs)
                        env[qname] = q
                        try:
                            y = m.eval_site(S, env, it)
                        except (Unsupported, formula.Uneval, ZeroDivisionError) as u:
                            why = "bb%d: %s" % (S["block"], u)
                            break
                        if y is not UNREACH:
                            got.append((S, y))
                    if why:
                        break
                if why:
                    break
                if len(got) != 1:
                    why = "%d return sites reached for one state" % len(got)
                    break
                S, y = got[0]
                if prev is not None:
                    tol = 1e-9 * max(1.0, abs(prev[1]), abs(y))
                    if y < prev[1] - tol and bad is None:
                        bad = ({"min": d["min"], "max": d["max"], "centroids": [(c["mean"], c["weight"]) for c in d["c"]]}, prev, (q, y, S))
                prev = (q, y, S)
            if why or bad:
                break
            chains += 1
        if why:
            res.undecided += 1
            res.extra.setdefault("undecided_sites", []).append("%s across sites: %s" % (what, why))
        elif bad:
            st, p0, p1 = bad
            res.violate("C10.M", "C10.M|%s|across-sites" % what, "%s is not monotone: %s(%r) = %r (site bb%d) but %s(%r) = %r (site bb%d) in state %s" % (
                what, what, p0[0], p0[1], p0[2]["block"], what, p1[0], p1[1], p1[2]["block"], st), f.id, p1[2]["span"])
        else:
            res.discharged += 1
            n_m2 += 1
            res.sample({"rule": "C10.M across sites", "fn": what, "digest_states": chains})
    res.rule("C10.M2", n_m2, 0, "functions whose results are monotone across return sites on the sampled states")
    res.rule("C10.sites", n_sites, 8, "return sites of rank/quantile evaluated")
    names = {"rank0": "rank(value < min) = 0", "rank1": "rank(value > max) = 1", "qmin": "quantile(rank * W < 1) = min", "qmax": "quantile(rank * W > W - 1) = max"}
    for k, n in clamps.items():
        res.obligations += 1
        if k in clamp_bad:
            st, y, want, ex, span, fid = clamp_bad[k]
            res.violate("C10.G", "C10.G|" + k, "%s does not hold: returns %r (expression %s), expected %r, in state %s" % (names[k], y, ex, want, st), fid, span)
        elif n == 0:
            res.undecided += 1
        else:
            res.discharged += 1
    res.rule("C10.G", sum(1 for v in clamps.values() if v), 4, "clamp regions reached by a return site")

    # ---------------- C10.B comparators
    n_b = 0
    for name, less_when in (("centroid_lower_bound", lambda m_, v: m_ < v), ("centroid_upper_bound", lambda m_, v: not (m_ > v))):
        cf = [x for x in prog.fns.values() if x.item_name == name and x.id.startswith("tdigest")]
        if not cf:
            continue
        body = fn_ret_expr(prog, cf[0])
        n_b += 1
        res.obligations += 1
        bad = None
        for m_ in (-1.0, 0.0, 1.0, 2.5):
            for v in (-1.0, 0.0, 1.0, 2.5):
                try:
                    r = formula.evaluate(body, {"@prog": prog, cf[0].local_name(1) or "c": {"mean": m_, "weight": 1}, cf[0].local_name(2) or "value": v})
                except formula.Uneval as u:
                    bad = "not evaluable (%s)" % u
                    break
                if (r[1] == "Less") != less_when(m_, v) or r[1] == "Equal":
                    bad = "mean=%s value=%s gives %s" % (m_, v, r[1])
            if bad:
                break
        if bad is None:
            res.discharged += 1
        elif bad.startswith("not evaluable"):
            res.undecided += 1
        else:
            res.violate("C10.B", "C10.B|" + name, "%s is not the %s comparator on the centroid mean: %s" % (name, name.split("_", 1)[1], bad), cf[0].id)
    res.rule("C10.B", n_b, 2, "binary-search comparators")

    check_extremes(prog, res, "C10.X")

    # ---------------- C10.F the streaming front end answers from flushed state: with at least two values held (centroids + unflushed
    # buffer) and min < max, a query inside [min, max] is answered by the view (after the flush), not by a shortcut that looked at
    # the centroid list alone; below min / above max a shortcut may only say 0 / 1.  By value over (centroids, buffer, min, max, v).
    n_f = 0
    mut = "tdigest::sketch::TDigestMut"
    for f in C.fns_of(prog, mut):
        if f.promoted or "{closure" in f.id:
            continue
        e = C.ret_expr(prog, f)
        if e is None or not any(x[0] == "call" and x[1].rsplit("::", 1)[-1] == "rank" and "TDigestView" in x[1] for x in sym.walk(e)):
            continue
        arg = next((f.local_name(i) for i in range(2, f.argc + 1) if f.local_name(i)), None)
        if arg is None:
            continue
        n_f += 1
        verdict, wit = True, ""
        n_ev = 0
        for a in (0, 1, 2, 5):
            for b in (0, 1, 2, 9):
                if a + b < 2:
                    continue
                for v in (0.0, 1.0, 2.0, 3.0, 9.0):
                    env = {"@prog": prog, "@ieee": True, "@fn:is_empty": lambda *x: False, "self.min": 1.0, "self.max": 3.0, arg: v,
                           "self.buffer": [2.0] * b, "self.centroids": [0] * a, "@fn:rank": lambda *x: "VIEW", "@fn:is_nan": lambda *x: False,
                           "@lenient": ("rank", "is_empty")}
                    try:
                        got = formula.evaluate(e, env)
                    except (formula.Uneval, TypeError):
                        continue
                    n_ev += 1
                    allowed = ["VIEW"] + ([("$variant", "Some", 0.0)] if v < 1.0 else []) + ([("$variant", "Some", 1.0)] if v > 3.0 else [])
                    if got not in allowed and verdict:
                        verdict = False
                        wit = "with %d centroid(s), %d buffered value(s), min 1, max 3 the query %s(%r) returns %r without consulting the flushed digest" % (a, b, f.item_name, v, got)
        if n_ev == 0:
            verdict = None
        res.tri(verdict, "C10.F", "C10.F|%s" % f.id, "%s: %s" % (f.id, wit), f.id)
    res.rule("C10.F", n_f, 1, "front-end rank shortcuts vs flushed state")

    # ---------------- C10.P cdf / pmf built from rank: cdf pushes rank(p) for the split points in their order and ends with the
    # constant 1; pmf differences the cdf in place from the back (an ascending in-place pass would subtract already-differenced
    # values; a pass that includes index 0 reads index -1).  Unrecognised shapes are undecided.
    n_p = 0
    fc, fp_ = C.fn_one(prog, V, "cdf"), C.fn_one(prog, V, "pmf")
    if fc is not None:
        sc = Sym(prog, fc)
        loops_c = sc.loops()
        in_loop = set().union(*[b for _h, b in loops_c]) if loops_c else set()
        pushes = [(b, st_, sc.at(b, "t").operand(st_["args"][1])) for b, st_ in fc.calls() if (st_.get("callee") or "").endswith("::push") and len(st_["args"]) == 2]
        lp = [(b, v) for b, _s, v in pushes if b in in_loop]
        post = [(b, v) for b, _s, v in pushes if b not in in_loop]
        n_p += 1
        if len(lp) == 1:
            b, v = lp[0]
            calls = [x for x in sym.walk(v) if x[0] == "call"]
            ranks = [x for x in calls if x[1].rsplit("::", 1)[-1] == "rank"]
            rev = any(x[1].rsplit("::", 1)[-1] == "rev" for x in calls)
            from_points = any(x[0] == "param" and fc.local_name(x[1]) == fc.local_name(2) for x in sym.walk(v)) if ranks else False
            ok = None if not ranks or not from_points else (not rev)
            res.tri(ok, "C10.P", "C10.P|cdf|order", "%s: the ranks are pushed for the split points in reverse order" % fc.id, fc.id)
        else:
            res.tri(None, "C10.P", "C10.P|cdf|order", "cdf does not push one rank per split point in a loop", fc.id)
        n_p += 1
        consts = [(b, v) for b, v in post if v[0] == "const"]
        if len(post) == 1 and len(consts) == 1 and lp:
            h = loops_c[0][0]
            after = sc._reaches(h, consts[0][0]) if hasattr(sc, "_reaches") else True
            res.tri(bool(after) and consts[0][1][1] == 1.0, "C10.P", "C10.P|cdf|last",
                    "%s: the last cumulative value pushed is %r, not 1.0 after the loop" % (fc.id, consts[0][1][1]), fc.id)
        elif not post and lp:
            res.tri(False, "C10.P", "C10.P|cdf|last", "%s: no final cumulative value 1.0 is pushed after the ranks of the split points" % fc.id, fc.id)
        else:
            res.tri(None, "C10.P", "C10.P|cdf|last", "cdf tail not recognised", fc.id)
    if fp_ is not None:
        sp = Sym(prog, fp_)
        n_p += 1
        verdict, wit = None, "pmf differencing pass not recognised"
        for b in fp_.blocks:
            if b.cleanup:
                continue
            for st in b.stmts:
                if st[0] != "=" or isinstance(st[1], int) or st[2][0] not in ("bin", "checked"):
                    continue
                try:
                    e = sp.at(b.idx, "t").rvalue(st[2])
                except Exception:
                    continue
                if not (e[0] == "bin" and e[1] == "Sub" and e[2][0] == "call" and e[3][0] == "call"):
                    continue
                l_, r_ = e[2], e[3]
                if not (l_[1].rsplit("::", 1)[-1] == "index_mut" and r_[1].rsplit("::", 1)[-1] == "index" and len(l_[2]) == 2 and len(r_[2]) == 2):
                    continue
                i_, j_ = l_[2][1], r_[2][1]
                if not (j_[0] == "bin" and j_[1] == "Sub" and j_[2] == i_ and j_[3][:2] == ("const", 1)):
                    continue
                chain = [x for x in sym.walk(i_) if x[0] == "call"]
                rng = [x for x in sym.walk(i_) if x[0] == "agg" and "Range" in x[1] and len(x[2]) == 2]
                if not chain or chain[0][1].rsplit("::", 1)[-1] != "next" or len(rng) != 1:
                    continue
                rev = sum(1 for x in chain if x[1].rsplit("::", 1)[-1] == "rev") % 2 == 1
                lo = rng[0][2][0]
                incl = "Inclusive" in rng[0][1]
                if not rev:
                    verdict, wit = False, "the in-place pass `b[i] -= b[i-1]` runs upwards, so each bucket subtracts an already-differenced neighbour"
                elif lo[0] == "const" and lo[1] == 0:
                    verdict, wit = False, "the differencing pass includes index 0 and reads index -1"
                elif lo[0] == "const" and lo[1] == 1 and not incl:
                    verdict, wit = True, ""
        res.tri(verdict, "C10.P", "C10.P|pmf|pass", "%s: %s" % (fp_.id, wit), fp_.id)
    res.rule("C10.P", n_p, 3, "cdf / pmf construction from rank")

    # ---------------- C10.E merge consults the extremes of its argument.  The argument's min / max need not be means of its centroids
    # (a decoded image carries heavy end centroids; the extremes are separate fields of the image): a merge that folds only centroid
    # means into the receiver's min / max loses them.  Decided by reads: the fields behind `min_value()` / `max_value()` are read off
    # the argument somewhere in `merge` or in what it hands the argument to.  Never read = violation.
    mt = "tdigest::sketch::TDigestMut"
    mg = C.pub_fn(prog, mt, "merge")
    n_e = 0
    if mg is not None and mg.argc >= 2:
        role = {}
        for acc in ("min_value", "max_value"):
            af = C.pub_fn(prog, mt, acc)
            if af is None:
                continue
            r = C.ret_expr(prog, af)
            if r is None:
                continue
            fl = set(x[2] for x in sym.walk(r) if x[0] == "field" and x[1][0] == "param" and x[1][1] == 1)
            fl -= {"centroids", "buffer"}
            if len(fl) == 1:
                role[acc] = fl.pop()

        def reads_field(f, param, fld, depth=0):
            """does f read `.fld` off its parameter `param` (directly, or in an in-crate callee it hands the parameter to)?"""
            s_ = C.Sym(prog, f)
            al = {param}
            for b in f.blocks:
                if b.cleanup:
                    continue
                for st in b.stmts:
                    if st[0] != "=":
                        continue
                    for o in sym_places(st[2]):
                        if ir.pl_local(o) in al and any(pr[0] == "." and pr[2] == fld for pr in ir.pl_proj(o)):
                            return True
                    if st[2][0] in ("use", "ref") and isinstance(st[1], int):
                        src = st[2][1] if st[2][0] == "use" else st[2][2]
                        pl = ir.op_place(src) if st[2][0] == "use" else src
                        if pl is not None and ir.pl_local(pl) in al and all(pr[0] == "*" for pr in ir.pl_proj(pl)):
                            al.add(st[1])
            if depth < 2:
                for b, site in f.calls():
                    cal = site.get("callee")
                    if cal in prog.fns:
                        for i, a in enumerate(site["args"]):
                            pl = ir.op_place(a)
                            if pl is not None and ir.pl_local(pl) in al and all(pr[0] == "*" for pr in ir.pl_proj(pl)):
                                if reads_field(prog.fns[cal], i + 1, fld, depth + 1):
                                    return True
            return False

        def sym_places(rv):
            out = []
            def go(x):
                if isinstance(x, list):
                    if len(x) == 2 and x[0] in ("c", "m"):
                        out.append(x[1])
                        return
                    for y in x:
                        go(y)
            go(rv)
            if rv[0] in ("ref", "rawptr") and len(rv) > 2:
                out.append(rv[2])
            return out
        for acc, fld in sorted(role.items()):
            n_e += 1
            ok = reads_field(mg, 2, fld)
            res.tri(True if ok else False, "C10.E", "C10.E|%s" % acc, "TDigestMut::merge never reads `%s` of its argument: the argument's recorded extreme (which need not be the "
                    "mean of an end centroid, e.g. in a decoded digest) is lost, %s() of the result is wrong and rank() saturates inside the true range" % (fld, acc), mg.id)
    res.rule("C10.E", n_e, 2, "extremes of the merge argument consulted")
    # the centroid means rank/quantile interpolate between: a merged mean is the finite weighted mean, exact for ties (C15.A)
    C.import_rules(res, prog, ctx, "C10.A", "C15", ("C15.A",), "merged centroid mean", 3)
    # ---------------- C10.K a decision taken after a call that changes a counter looks at the counter after it (common.stale_count_decisions)
    C.stale_count_rule(res, prog, "C10.K", "tdigest::", "t-digest")
    res.explanation = ("the expression returned at each return site of rank()/quantile() is extracted with the branch decisions of every path to it and "
                       "summaries of the accumulation loops in front of it, and evaluated on %d sampled digest states satisfying the digest invariants; "
                       "range and monotonicity in the query are checked per site" % n_digests)
    res.assumptions = ["digest invariants: centroid means sorted within [min,max], weights >= 1, centroids_weight = sum of weights, a weight-1 first/last centroid has mean min/max",
                       "core::slice::binary_search_by returns the index of the first element whose comparator result is not Less"]
    res.not_decided = "monotonicity across different return sites, accuracy, rank(quantile(q)) ~ q"
    return res
