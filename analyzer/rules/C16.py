"""C16 — hashes are bit-exact MurmurHash3 x64-128 / XXH64 and independent of write chunking.

Decided statically (DESIGN §5.16):
  C16.B  pending-length conservation (necessary for chunking independence): the value of the hasher's buffered-byte
         counter when `Hasher::write` returns, obtained as a select-tree over every path of the function, equals
         (entry counter + len(bytes)) mod block size for every entry counter and every length 0..=3*block
  C16.K  mixing functions equal the published algorithms: the extracted expression of MurmurHash3's block update,
         fmix64 and finish128 (tail mixing, length xor, finalisation), and of XXH64's round, merge_round, avalanche and
         accumulator initialisation, is evaluated against a reference implementation on random 64-bit inputs
  C16.D  derivations: HLL coupon = ((min(lz(h2),62)+1) << 26) | (h1 & (2^26-1)); seed hash = murmur(seed LE bytes, seed
         0).h1 & 0xffff; default seed 9001  (theta, CPC, Count-Min and Bloom derivations are decided by C04.S, C05.R,
         C08.U, C09.I)
Not decided: full chunking independence (the byte *contents* carried across calls), the loops of XXH64::finish64.
"""
import random

from .. import ir, sym, formula
from ..main import Result
from . import common as C
from .common import Sym, show

M64 = (1 << 64) - 1
C1, C2 = 0x87c37b91114253d5, 0x4cf5ad432745937f
P1, P2, P3, P4, P5 = 0x9E3779B185EBCA87, 0xC2B2AE3D27D4EB4F, 0x165667B19E3779F9, 0x85EBCA77C2B2AE63, 0x27D4EB2F165667C5


def rotl(x, r):
    return ((x << r) | (x >> (64 - r))) & M64


def ref_fmix64(k):
    k ^= k >> 33
    k = (k * 0xff51afd7ed558ccd) & M64
    k ^= k >> 33
    k = (k * 0xc4ceb9fe1a85ec53) & M64
    return k ^ (k >> 33)


def ref_murmur_update(h1, h2, k1, k2):
    k1 = (k1 * C1) & M64
    k1 = rotl(k1, 31)
    k1 = (k1 * C2) & M64
    h1 ^= k1
    h1 = rotl(h1, 27)
    h1 = (h1 + h2) & M64
    h1 = (h1 * 5 + 0x52dce729) & M64
    k2 = (k2 * C2) & M64
    k2 = rotl(k2, 33)
    k2 = (k2 * C1) & M64
    h2 ^= k2
    h2 = rotl(h2, 31)
    h2 = (h2 + h1) & M64
    h2 = (h2 * 5 + 0x38495ab5) & M64
    return h1, h2


def ref_murmur_finish(h1, h2, total, rem, k1, k2):
    if rem > 0:
        if rem > 8:
            k2 = (k2 * C2) & M64
            k2 = rotl(k2, 33)
            k2 = (k2 * C1) & M64
            h2 ^= k2
        k1 = (k1 * C1) & M64
        k1 = rotl(k1, 31)
        k1 = (k1 * C2) & M64
        h1 ^= k1
    t = (total + rem) & M64
    h1 ^= t
    h2 ^= t
    h1 = (h1 + h2) & M64
    h2 = (h2 + h1) & M64
    h1 = ref_fmix64(h1)
    h2 = ref_fmix64(h2)
    h1 = (h1 + h2) & M64
    h2 = (h2 + h1) & M64
    return (h1, h2)


def ref_xx_round(acc, inp):
    acc = (acc + inp * P2) & M64
    acc = rotl(acc, 31)
    return (acc * P1) & M64


def ref_xx_merge(acc, val):
    v = ref_xx_round(0, val)
    acc ^= v
    return (acc * P1 + P4) & M64


def ref_xx_final(h):
    h ^= h >> 33
    h = (h * P2) & M64
    h ^= h >> 29
    h = (h * P3) & M64
    return h ^ (h >> 32)


def ret_expr(prog, f):
    s = Sym(prog, f)
    rets = [b.idx for b in f.blocks if b.term[0] == "return" and not b.cleanup]
    return s.at(rets[0]).local(0) if rets else ("unknown",)


def array_len(prog, ty):
    """length of `[u8; N]` where N is a literal or a named constant of the crate; None if it cannot be resolved"""
    n = ty[5:-1].strip()
    if n.isdigit():
        return int(n)
    hits = [v.get("v") for k, v in prog.consts.items() if k.rsplit("::", 1)[-1] == n.rsplit("::", 1)[-1] and isinstance(v.get("v"), int)]
    return hits[0] if len(set(hits)) == 1 else None


def run(prog, ctx):
    res = Result("C16")
    rnd = random.Random(16)
    hashers = {}
    for im in prog.impls:
        if im.get("trait") == "std::hash::Hasher":
            w = [did for nm, did, _k in im["items"] if nm == "write"]
            if w and w[0] in prog.fns:
                hashers[im["self_ty"]] = prog.fns[w[0]]
    # a `write` that only hands its argument to one private worker of the same type: analyse the worker
    writers = dict(hashers)      # the `write` functions themselves (length accounting looks at both)
    for ty_, f_ in list(hashers.items()):
        adt_ = prog.adts.get(ty_) or {"variants": [{"fields": []}]}
        carry_ = set(n for n, t in adt_["variants"][0]["fields"] if t == "usize" or t.startswith("[u8; "))
        for _hop in range(2):
            stores_ = any(True for _ in sym.field_stores(prog, adt=ty_, fns=[f_]) if _[2] != "agg" and _[7] in carry_) or bool(Sym(prog, f_).loops())
            same_ = [prog.fns[st_["callee"]] for _b, st_ in f_.calls() if st_.get("callee") in prog.fns and prog.fns[st_["callee"]].owner == ty_
                     and prog.fns[st_["callee"]].argc == 2 and len(st_["args"]) == 2]
            if not stores_ and len(same_) == 1 and same_[0].local_ty(2) == f_.local_ty(2):
                f_ = same_[0]
                hashers[ty_] = f_
            else:
                break
    res.rule("C16.hashers", len(hashers), 2, "impl Hasher in the crate (MurmurHash3X64128, XxHash64)")
    res.entry_points = [f.id for f in hashers.values()]
    res.functions_analysed = 0

    # ---------------- C16.B pending-length conservation
    n_b = 0
    for ty, f in sorted(hashers.items()):
        adt = prog.adts.get(ty)
        if not adt:
            continue
        fields = adt["variants"][0]["fields"]
        buf = [(n, t) for n, t in fields if t.startswith("[u8; ")]
        cnt = [n for n, t in fields if t == "usize"]
        if not buf or not cnt:
            res.obligations += 1
            res.undecided += 1      # buffer / counter held in a different shape
            continue
        block = array_len(prog, buf[0][1])
        if block is None:
            res.obligations += 1
            res.undecided += 1
            continue
        s = Sym(prog, f)
        res.functions_analysed += 1
        for c in cnt:
            e = s.field_exit_value(c)
            n_b += 1
            res.obligations += 1
            if e is None:
                res.undecided += 1
                continue
            ck = "self.%s" % c
            bad = None
            n = 0
            try:
                for b0 in range(block):
                    for ln in range(0, 3 * block + 2):
                        got = formula.evaluate(e, {ck: b0, "len(bytes)": ln})
                        n += 1
                        if got != (b0 + ln) % block:
                            bad = (b0, ln, got, (b0 + ln) % block)
                            break
                    if bad:
                        break
            except formula.Uneval as u:
                res.undecided += 1
                res.extra.setdefault("uneval", []).append("%s: %s" % (f.id, u))
                continue
            if bad is None:
                res.discharged += 1
                res.sample({"rule": "C16.B", "fn": f.id, "counter": c, "block": block, "points": n, "exit_value": show(e)[:200]})
            else:
                res.violate("C16.B", "C16.B|%s|%s" % (ty, c),
                            "after write() of %d byte(s) with %d byte(s) already buffered, %s.%s is %d but %d bytes are pending (block %d): the buffered-length counter is not conserved on some path" % (
                                bad[1], bad[0], ty.rsplit("::", 1)[-1], c, bad[2], bad[3], block), f.id)
    res.rule("C16.B", n_b, 2, "buffered-length counters")

    # ---------------- C16.W typed writes: std's `write_u8 .. write_u128 / write_usize / write_i*` forward to write(); an impl that overrides
    # one of them adds a second way for bytes to enter the hash, which has to leave the hasher in the state write(&v.to_le_bytes())
    # leaves it in.  Decided by value where the override's effect can be evaluated: (1) the buffered-length counter at exit is
    # (pending + width) mod block for every pending length; (2) scalar words handed straight to a block routine of the hasher are the
    # little-endian 8-byte words of the value, in order.  A path that forwards to write() is covered by the rules on write().
    n_w = 0
    WIDTH = {"u8": 1, "i8": 1, "u16": 2, "i16": 2, "u32": 4, "i32": 4, "u64": 8, "i64": 8, "u128": 16, "i128": 16, "usize": 8, "isize": 8}
    for im in prog.impls:
        if im.get("trait") != "std::hash::Hasher":
            continue
        ty = im["self_ty"]
        adt = prog.adts.get(ty)
        if not adt:
            continue
        fields = adt["variants"][0]["fields"]
        buf = [(n, t) for n, t in fields if t.startswith("[u8; ")]
        cnt = [n for n, t in fields if t == "usize"]
        block = array_len(prog, buf[0][1]) if buf else None
        for nm, did, _k in im["items"]:
            if not nm.startswith("write_") or did not in prog.fns:
                continue
            g = prog.fns[did]
            width = WIDTH.get(nm[len("write_"):])
            if width is None or g.argc != 2:
                res.tri(None, "C16.W", "C16.W|%s|%s" % (ty, nm), "override %s of unknown width" % nm, g.id)
                n_w += 1
                continue
            n_w += 1
            sg = Sym(prog, g)
            pn = g.local_name(2) or "i"
            verdict, wit = None, "effect of %s not evaluable" % nm
            # (1) buffered-length counter
            if block and len(cnt) == 1:
                e = sg.field_exit_value(cnt[0])
                if e is not None:
                    for b0 in range(block):
                        try:
                            got = formula.evaluate(e, {"@prog": prog, "self.%s" % cnt[0]: b0, "self.%s" % buf[0][0]: list(range(block)),
                                                       "len(self.%s)" % buf[0][0]: block, pn: 0x5a})
                        except (formula.Uneval, TypeError, IndexError):
                            continue
                        if not isinstance(got, int):
                            continue
                        if verdict is None:
                            verdict = True
                        if got != (b0 + width) % block and verdict is not False:
                            verdict, wit = False, ("with %d byte(s) pending, %s leaves %s.%s = %d although %d byte(s) are pending after it (block %d): write() never "
                                                   "leaves the hasher in that state" % (b0, nm, ty.rsplit("::", 1)[-1], cnt[0], got, (b0 + width) % block, block))
            # (2) words handed to a block routine
            if verdict is not False and width % 8 == 0:
                val = 0
                for j in range(width):
                    val |= (0x11 * (j + 1) & 0xff) << (8 * j)
                words = [(val >> (64 * j)) & 0xFFFFFFFFFFFFFFFF for j in range(width // 8)]
                for b, site in g.calls():
                    cal = site.get("callee") or ""
                    h = prog.fns.get(cal)
                    if h is None or h.owner != ty or h.item_name == "write" or len(site["args"]) != 1 + len(words):
                        continue
                    if not all((h.local_ty(i + 2) or "") == "u64" for i in range(len(words))):
                        continue
                    try:
                        got = [formula.evaluate(sg.at(b, "t").operand(a), {"@prog": prog, pn: val}, bits=128) for a in site["args"][1:]]
                    except (formula.Uneval, TypeError, IndexError):
                        continue
                    got = [x & 0xFFFFFFFFFFFFFFFF if isinstance(x, int) else x for x in got]
                    if got == words:
                        verdict = True if verdict is None else verdict
                    elif all(isinstance(x, int) for x in got):
                        verdict, wit = False, ("%s hands the words %s to %s for the value 0x%x; its little-endian bytes, read the way write() reads a block, "
                                               "are the words %s" % (nm, [hex(x) for x in got], h.item_name, val, [hex(x) for x in words]))
            res.tri(verdict, "C16.W", "C16.W|%s|%s" % (ty, nm), "%s: %s" % (g.id, wit), g.id)
    res.rule("C16.W", n_w, 0, "typed write_* overrides of the Hasher impls (none on the pinned tree)")

    # ---------------- C16.T length accounting: the length mixed into the digest (L = the u64 length counter, plus the pending
    # counter when the finishing routine adds it) grows by exactly len(bytes) per write(), whatever the entry state.  The counter's
    # change over write() = its direct stores + (calls of helpers that add a constant to it) x (how often each is executed: once
    # under its path condition, or the trip count of the enclosing `for` over a Range / chunks_exact).
    n_t = 0
    for ty, f in sorted(writers.items()):
        adt = prog.adts.get(ty)
        if not adt:
            continue
        fields = adt["variants"][0]["fields"]
        buf = [(n, t) for n, t in fields if t.startswith("[u8; ")]
        cnt = [n for n, t in fields if t == "usize"]
        if not buf or len(cnt) != 1:
            continue
        block = array_len(prog, buf[0][1])
        if block is None:
            continue
        cnt = cnt[0]
        ctor = [g for g in C.fns_of(prog, ty) if g.argc == 1 and not g.promoted and "{closure" not in g.id]
        lenf = None
        for g in ctor:
            e = C.ret_expr(prog, g)
            if e is not None and e[0] == "agg" and len(e[2]) == len(fields):
                zs = [fields[i][0] for i, x in enumerate(e[2]) if fields[i][1] == "u64" and x in (("const", 0), ("const", 0, "u64"))]
                zs = [z for z in zs if z]
                if len(zs) == 1:
                    lenf = zs[0]
        n_t += 1
        if lenf is None:
            res.tri(None, "C16.T", "C16.T|%s" % ty, "no single zero-initialised u64 length counter in %s" % ty, f.id)
            continue
        fk, ck = "self.%s" % lenf, "self.%s" % cnt
        # does the finishing side add the pending counter to the length?
        adds_pending = False
        for g in C.fns_of(prog, ty):
            if g.id == f.id or g.promoted:
                continue
            sg = Sym(prog, g)
            for b in g.blocks:
                if b.cleanup:
                    continue
                for st in b.stmts:
                    if st[0] == "=" and st[2][0] in ("bin", "checked"):
                        try:
                            e = sg.at(b.idx, "t").rvalue(st[2])
                        except Exception:
                            continue
                        if e[0] == "bin" and e[1] in ("Add", "AddWithOverflow") and set(formula.top_leaves(e)) == {fk, ck}:
                            adds_pending = True
        s = Sym(prog, f)
        e_cnt = s.field_exit_value(cnt) if hashers[ty].id == f.id else Sym(prog, hashers[ty]).field_exit_value(cnt)
        e_len = s.field_exit_value(lenf)
        direct = any(True for _ in sym.field_stores(prog, adt=ty, field=lenf, fns=[f]))
        if e_cnt is None or (direct and e_len is None):
            res.tri(None, "C16.T", "C16.T|%s" % ty, "no closed form for the counters of %s at the exit of write()" % ty, f.id)
            continue
        # helper calls that add a constant to the length counter
        sites = []
        undec = None
        loops = s.loops()
        for b, site in f.calls():
            tgt = site.get("callee")
            g = prog.fns.get(tgt) if tgt else None
            if g is None or g.owner != ty:
                continue
            stores = any(h.id in prog.fns and any(True for _ in sym.field_stores(prog, adt=ty, field=lenf, fns=[h])) for h in [g] + list(C.reach_from(prog, [g.id])))
            if not stores:
                continue
            eg = Sym(prog, g).field_exit_value(lenf)
            d = None
            if eg is not None:
                try:
                    d0, d1 = formula.evaluate(eg, {fk: 0}), formula.evaluate(eg, {fk: 1000})
                    if d1 - d0 == 1000:
                        d = d0
                except (formula.Uneval, TypeError):
                    pass
            if d is None:
                undec = "the effect of %s on %s is not a constant increment" % (g.id, lenf)
                break
            inl = [(h, body) for h, body in loops if b in body]
            trip = None
            if inl:
                h, body = min(inl, key=lambda x: len(x[1]))
                nxt = [(bb, st_) for bb, st_ in f.calls() if bb in body and (st_.get("callee") or "").endswith("::next")]
                latches = [x for x in body if h in f.succs(x)]
                if len(nxt) != 1 or not all(f.dominates(b, x) for x in latches):
                    undec = "loop around the call of %s is not a plain counted loop" % g.id
                    break
                trip = s.at(nxt[0][0], "t").operand(nxt[0][1]["args"][0])
                while trip[0] == "call" and trip[1].rsplit("::", 1)[-1] in ("into_iter", "by_ref", "deref_mut"):
                    trip = trip[2][0]
                pre = h
            sites.append((b, g, d, trip, C.path_pred(s, inl and h or b)))
        if undec:
            res.tri(None, "C16.T", "C16.T|%s" % ty, undec, f.id)
            continue
        bad, n_ev = None, 0
        try:
            for b0 in range(block):
                for ln in range(0, 3 * block + 2):
                    for t0 in (0, 5 * block):
                        env = {ck: b0, fk: t0, "len(bytes)": ln, "@prog": prog}
                        tot = formula.evaluate(e_len, env) if direct else t0
                        for (b, g, d, trip, pp) in sites:
                            r = pp(env)
                            if r is None:
                                raise formula.Uneval("path condition of block %d" % b)
                            if not r:
                                continue
                            if trip is None:
                                tot += d
                            elif trip[0] == "agg" and "Range" in trip[1] and len(trip[2]) == 2:
                                tot += d * max(0, formula.evaluate(trip[2][1], env) - formula.evaluate(trip[2][0], env))
                            elif trip[0] == "call" and trip[1].rsplit("::", 1)[-1] == "chunks_exact":
                                tot += d * (formula.seq_len(trip[2][0], env) // formula.evaluate(trip[2][1], env))
                            else:
                                raise formula.Uneval("trip count %s" % show(trip)[:80])
                        c1 = formula.evaluate(e_cnt, env)
                        got = tot + (c1 if adds_pending else 0)
                        want = t0 + (b0 if adds_pending else 0) + ln
                        n_ev += 1
                        if got != want and bad is None:
                            bad = "with %d byte(s) pending and %d accounted, write() of %d byte(s) leaves the digest length at %d, expected %d" % (b0, t0, ln, got, want)
            res.tri(bad is None, "C16.T", "C16.T|%s" % ty, "%s: %s (length = %s%s)" % (f.id, bad, lenf, " + " + cnt if adds_pending else ""), f.id,
                    sample={"rule": "C16.T", "fn": f.id, "length": lenf + (" + " + cnt if adds_pending else ""), "helper_sites": [(b, g.id, d, show(trip)[:60] if trip else None) for (b, g, d, trip, pp) in sites], "points": n_ev})
        except (formula.Uneval, TypeError) as u:
            res.tri(None, "C16.T", "C16.T|%s" % ty, "length accounting of %s not evaluable: %s" % (ty, u), f.id)
    res.rule("C16.T", n_t, 2, "length accounting over write()")

    # ---------------- C16.C every input byte is consumed exactly once: the slices of the input that write() hands to the block
    # mixer, to the 8-byte reader and to the carry buffer are evaluated on a concrete input of distinct values for every carry fill
    # and input length (call sites under their path conditions; sites in a `for` over a Range / chunks_exact once per element).
    # A value consumed twice is a violation; a value never consumed is one when every site could be evaluated.
    n_c = 0

    def iter_values(itx, env):
        while itx[0] == "call" and itx[1].rsplit("::", 1)[-1] in ("into_iter", "by_ref", "deref_mut", "iter"):
            itx = itx[2][0]
        if itx[0] == "agg" and "Range" in itx[1] and len(itx[2]) == 2:
            return list(range(formula.evaluate(itx[2][0], env), formula.evaluate(itx[2][1], env)))
        if itx[0] == "call" and itx[1].rsplit("::", 1)[-1] == "chunks_exact":
            base = formula.evaluate(itx[2][0], env)
            n_ = formula.evaluate(itx[2][1], env)
            if isinstance(base, list) and isinstance(n_, int) and n_ > 0:
                return [base[i_:i_ + n_] for i_ in range(0, len(base) - n_ + 1, n_)]
        raise formula.Uneval("iterable " + show(itx)[:60])

    def consumed_by(fnm, args_vals, block):
        """which input values a call consumes: the whole source of a copy, one block of what the block mixer receives, the bytes the
        8-byte reader is given"""
        if fnm == "copy_from_slice":
            return args_vals[1] if len(args_vals) > 1 and isinstance(args_vals[1], list) else None
        if fnm == "read_u64_le":
            return args_vals[0] if isinstance(args_vals[0], list) else None
        lists = [a for a in args_vals if isinstance(a, list)]
        if lists:
            return lists[0][:block]
        return []
    for ty, f in sorted(hashers.items()):
        adt = prog.adts.get(ty)
        if not adt:
            continue
        fields = adt["variants"][0]["fields"]
        buf = [(n, t) for n, t in fields if t.startswith("[u8; ")]
        cnt = [n for n, t in fields if t == "usize"]
        if not buf or len(cnt) != 1:
            continue
        block = array_len(prog, buf[0][1])
        if block is None:
            continue
        bufn, cntn = buf[0][0], cnt[0]
        pname = f.local_name(2) or "bytes"
        s = Sym(prog, f)
        loops = s.loops()
        sites = []
        composite_helper = False
        for b, site in f.calls():
            cal = site.get("callee") or ""
            nm = cal.rsplit("::", 1)[-1]
            g = prog.fns.get(cal)
            if not (nm in ("copy_from_slice", "read_u64_le") or (g is not None and g.owner == ty)):
                continue
            args = [s.at(b, "t").operand(a) for a in site["args"]]
            if not any(any(y[0] == "param" and y[1] == 2 for y in sym.walk(a)) for a in args):
                continue
            if g is not None and g.owner == ty and g.id not in prog.fns.get(f.id, f).id:
                # a helper of the hasher that itself splits / copies / loops over what it is given is not a block routine: what it
                # consumes cannot be read off its arguments here
                inner = [(st_.get("callee") or "").rsplit("::", 1)[-1] for _b, st_ in g.calls()]
                if Sym(prog, g).loops() or any(x in ("copy_from_slice", "split_at", "chunks_exact", "chunks", "split_at_checked") for x in inner) or any(
                        (st_.get("callee") in prog.fns and prog.fns[st_["callee"]].owner == ty) for _b, st_ in g.calls()):
                    composite_helper = True
                    continue
            inl = [(h, body) for h, body in loops if b in body]
            itx = None
            if inl:
                h, body = min(inl, key=lambda x: len(x[1]))
                nxt = [(bb, st_) for bb, st_ in f.calls() if bb in body and (st_.get("callee") or "").endswith("::next")]
                if len(nxt) == 1:
                    itx = s.at(nxt[0][0], "t").operand(nxt[0][1]["args"][0])
            def mk_pred(blk):
                paths = s.path_conditions(blk)

                def pred(env):
                    if paths is None:
                        return None
                    unknown = False
                    for pth in paths:
                        ok = True
                        for c_, tv in pth:
                            if "next(" in show(c_):
                                continue        # loop control: the iterations are enumerated separately
                            try:
                                v = formula.evaluate(c_, env)
                            except (formula.Uneval, TypeError, IndexError, ZeroDivisionError):
                                ok = None
                                continue
                            if isinstance(v, tuple):
                                ok = None
                                continue
                            if (tv[0] == "eq" and v != tv[1]) or (tv[0] == "ne" and v in tv[1]):
                                ok = False
                                break
                        if ok:
                            return True
                        if ok is None:
                            unknown = True
                    return None if unknown else False
                return pred
            sites.append((b, nm, args, itx, bool(inl), mk_pred(b)))
        n_c += 1
        verdict, wit, complete = True, "", not composite_helper
        try:
            for b0 in range(block):
                for ln in (0, 1, block - b0 - 1, block - b0, block - b0 + 1, block, 2 * block - b0, 2 * block + 3, 3 * block + block // 2):
                    if ln < 0:
                        continue
                    data = [1000 + j for j in range(ln)]
                    env = {"@prog": prog, pname: data, "len(%s)" % pname: ln, "self.%s" % bufn: list(range(block)), "self.%s" % cntn: b0}
                    seen = {}
                    for (b, nm, args, itx, inloop, pp) in sites:
                        r = pp(env)
                        if r is False:
                            continue
                        if r is None:
                            complete = False
                            continue
                        if inloop and itx is None:
                            complete = False
                            continue
                        rounds = [None]
                        if inloop:
                            try:
                                rounds = iter_values(itx, env)
                            except (formula.Uneval, TypeError):
                                complete = False
                                continue
                        nkey = sorted(set(show(y) for a in args for y in sym.walk(a) if y[0] == "call" and y[1].rsplit("::", 1)[-1] == "next"))
                        for item in rounds:
                            env2 = dict(env)
                            if inloop:
                                if not nkey:
                                    complete = False
                                    break
                                for k in nkey:
                                    env2[k] = item
                                    env2["(%s as Some).0" % k] = item
                            try:
                                vals = []
                                for a in args:
                                    try:
                                        vals.append(formula.evaluate(a, env2))
                                    except (formula.Uneval, TypeError, IndexError):
                                        vals.append(None)
                                got = consumed_by(nm, vals, block)
                            except (formula.Uneval, TypeError):
                                got = None
                            if got is None:
                                complete = False
                                continue
                            for v in got:
                                if isinstance(v, int) and v >= 1000:
                                    seen[v] = seen.get(v, 0) + 1
                    dup = sorted(v for v, c_ in seen.items() if c_ > 1)
                    if dup and verdict:
                        verdict, wit = False, "with %d byte(s) pending, a write of %d bytes hands input byte %d to the hash more than once" % (b0, ln, dup[0] - 1000)
                    missing = [v for v in data if v not in seen]
                    if missing and complete and verdict:
                        verdict, wit = False, "with %d byte(s) pending, a write of %d bytes never consumes input byte %d (consumed: %d of %d)" % (b0, ln, missing[0] - 1000, len(seen), ln)
        except (formula.Uneval, TypeError) as u:
            verdict, wit = None, "not evaluable: %s" % (u,)
        if verdict and not complete:
            verdict, wit = None, "some consuming call could not be evaluated"
        res.tri(verdict, "C16.C", "C16.C|%s" % ty, "%s: %s" % (f.id, wit), f.id, sample={"rule": "C16.C", "fn": f.id, "sites": [(b, nm) for (b, nm, *_r) in sites]})
    # the same for the tail handling of the finishing routines: no buffered byte is fed to the hash twice (8-byte lanes read through
    # the little-endian reader inside a counted loop, evaluated on a buffer of distinct values)
    for ty, wf in sorted(hashers.items()):
        adt = prog.adts.get(ty)
        fields = adt["variants"][0]["fields"] if adt else []
        buf = [(n, t) for n, t in fields if t.startswith("[u8; ")]
        cnt = [n for n, t in fields if t == "usize"]
        if not buf or len(cnt) != 1:
            continue
        block = array_len(prog, buf[0][1])
        if block is None:
            continue
        bufn, cntn = buf[0][0], cnt[0]
        for f in C.fns_of(prog, ty):
            if f.promoted or f.argc != 1 or f.local_ty(1).startswith("&mut") or not any((st.get("callee") or "").endswith("read_u64_le") for _b, st in f.calls()):
                continue
            s = Sym(prog, f)
            loops = s.loops()
            n_c += 1
            verdict, wit = True, ""
            evaluated = 0
            for b0 in range(block):
                env = {"@prog": prog, "self.%s" % bufn: [2000 + j for j in range(block)], "self.%s" % cntn: b0, "len(self.%s)" % bufn: block}
                seen = {}
                for b, site in f.calls():
                    if not (site.get("callee") or "").endswith("read_u64_le"):
                        continue
                    a = s.at(b, "t").operand(site["args"][0])
                    inl = [(h, body) for h, body in loops if b in body]
                    rounds = [None]
                    nkey = sorted(set(show(y) for y in sym.walk(a) if y[0] == "call" and y[1].rsplit("::", 1)[-1] == "next"))
                    try:
                        if inl:
                            h, body = min(inl, key=lambda x: len(x[1]))
                            nxt = [(bb, st_) for bb, st_ in f.calls() if bb in body and (st_.get("callee") or "").endswith("::next")]
                            if len(nxt) != 1 or not nkey:
                                continue
                            rounds = iter_values(s.at(nxt[0][0], "t").operand(nxt[0][1]["args"][0]), env)
                        for item in rounds:
                            env2 = dict(env)
                            for k in nkey:
                                env2[k] = item
                            got = formula.evaluate(a, env2)
                            if isinstance(got, list):
                                evaluated += 1
                                for v in got:
                                    if isinstance(v, int) and v >= 2000:
                                        seen[v] = seen.get(v, 0) + 1
                    except (formula.Uneval, TypeError, IndexError):
                        continue
                dup = sorted(v for v, c_ in seen.items() if c_ > 1)
                if dup and verdict:
                    verdict, wit = False, "with %d byte(s) in the carry buffer, buffered byte %d is read into the hash more than once" % (b0, dup[0] - 2000)
            if verdict and not evaluated:
                verdict, wit = None, "no tail read could be evaluated"
            res.tri(verdict, "C16.C", "C16.C|%s" % f.id, "%s: %s" % (f.id, wit), f.id)
    res.rule("C16.C", n_c, 2, "input bytes consumed exactly once by write() / buffered bytes by the finishing routine")

    # ---------------- C16.K mixing functions
    n_k = 0

    def check_fn(fid, leaves_map, ref, n_in, label):
        nonlocal n_k
        f = prog.fns.get(fid)
        if f is None:
            # the private helper was renamed, merged or inlined: look for any function of the module with the same arity
            # that computes the reference step; none found = this step is not decided (no evidence that it is wrong)
            mod = fid.rsplit("::", 1)[0]
            for g in sorted(prog.fns.values(), key=lambda x: x.id):
                if g.promoted or not g.id.startswith(mod + "::") or g.argc != n_in or "{closure" in g.id:
                    continue
                ge = ret_expr(prog, g)
                try:
                    names = [g.local_name(i + 1) or "arg%d" % (i + 1) for i in range(n_in)]
                    okg = True
                    for _ in range(8):
                        vals = [rnd.getrandbits(64) for _ in range(n_in)]
                        envg = dict(zip(names, vals))
                        envg["@prog"] = prog
                        if formula.evaluate(ge, envg) != ref(*vals):
                            okg = False
                            break
                    if okg:
                        f = g
                        leaves_map = names
                        break
                except (formula.Uneval, TypeError):
                    continue
            if f is None:
                res.obligations += 1
                res.undecided += 1
                res.extra.setdefault("uneval", []).append("%s: no function of %s computes this step on its own (renamed / inlined)" % (label, mod))
                return
        e = ret_expr(prog, f)
        n_k += 1
        res.obligations += 1
        res.functions_analysed += 1
        try:
            for _ in range(48):
                vals = [rnd.getrandbits(64) for _ in range(n_in)]
                env = dict(zip(leaves_map, vals))
                env["@cache"] = {}
                env["@prog"] = prog
                got = formula.evaluate(e, env)
                want = ref(*vals)
                if got != want:
                    res.violate("C16.K", "C16.K|" + label, "%s differs from the published algorithm: for inputs %s it yields %s, reference %s" % (fid, [hex(v) for v in vals], got, want), fid)
                    return
            res.discharged += 1
            res.sample({"rule": "C16.K", "fn": fid, "inputs_tried": 48})
        except formula.Uneval as u:
            res.undecided += 1
            res.extra.setdefault("uneval", []).append("%s: %s" % (fid, u))
    check_fn("hash::murmurhash::fmix64", ["k"], ref_fmix64, 1, "fmix64")
    check_fn("hash::xxhash::round", ["acc", "input"], ref_xx_round, 2, "xx-round")
    check_fn("hash::xxhash::merge_round", ["acc", "val"], ref_xx_merge, 2, "xx-merge-round")
    check_fn("hash::xxhash::finalize", ["hash"], ref_xx_final, 1, "xx-avalanche")
    # murmur block update (field effects)
    fu = prog.fns.get("hash::murmurhash::MurmurHash3X64128::update")
    if fu is not None:
        s = Sym(prog, fu)
        st = s.straightline_effects()
        n_k += 1
        res.obligations += 1
        if not st or "h1" not in st or "h2" not in st:
            res.undecided += 1
        else:
            ok = True
            try:
                for _ in range(48):
                    h1, h2, k1, k2 = [rnd.getrandbits(64) for _ in range(4)]
                    env = {"self.h1": h1, "self.h2": h2, "k1": k1, "k2": k2, "@cache": {}}
                    got = (formula.evaluate(st["h1"], env), formula.evaluate(st["h2"], dict(env, **{"@cache": {}})))
                    if got != ref_murmur_update(h1, h2, k1, k2):
                        res.violate("C16.K", "C16.K|murmur-update", "MurmurHash3 block update differs from the published algorithm (h1,h2,k1,k2 = %s)" % [hex(x) for x in (h1, h2, k1, k2)], fu.id)
                        ok = False
                        break
                tot = st.get("total")
                if ok and tot is not None and formula.evaluate(tot, {"self.total": 100}) != 116:
                    res.violate("C16.K", "C16.K|murmur-total", "MurmurHash3 block update does not add 16 to the total length", fu.id)
                    ok = False
                if ok:
                    res.discharged += 1
            except formula.Uneval as u:
                res.undecided += 1
    # murmur finish128
    ff = prog.fns.get("hash::murmurhash::MurmurHash3X64128::finish128")
    if ff is not None:
        e = ret_expr(prog, ff)
        n_k += 1
        res.obligations += 1
        lv = formula.leaves(e)
        k1k = [k for k in lv if k.startswith("read_u64_le(") and "RangeTo" in k]
        k2k = [k for k in lv if k.startswith("read_u64_le(") and "RangeTo" not in k]
        # by value on concrete carry buffers whose bytes beyond the pending length are stale (non-zero): the tail words must be
        # taken from the pending bytes only
        conc = None
        try:
            conc = True
            for rem in range(0, 16):
                for _ in range(4):
                    h1, h2 = rnd.getrandbits(64), rnd.getrandbits(64)
                    total = rnd.randrange(0, 1 << 20) * 16
                    buf = [rnd.randrange(1, 256) for _ in range(16)]
                    k1 = int.from_bytes(bytes(buf[:min(rem, 8)]), "little")
                    k2 = int.from_bytes(bytes(buf[8:rem]), "little") if rem > 8 else 0
                    env = {"@prog": prog, "self.h1": h1, "self.h2": h2, "self.total": total, "self.buf_len": rem, "self.buf": buf,
                           "@fn:fmix64": ref_fmix64, "@fn:read_u64_le": lambda bs: int.from_bytes(bytes(bs[:8]), "little"), "@cache": {}}
                    got = formula.evaluate(e, env)
                    if tuple(got) != ref_murmur_finish(h1, h2, total, rem, k1, k2):
                        conc = (rem,)
                        break
                if conc is not True:
                    break
        except (formula.Uneval, TypeError, KeyError):
            conc = None
        if conc is not None and conc is not True:
            res.violate("C16.K", "C16.K|murmur-finish", "MurmurHash3 finish128 differs from the published algorithm for a tail of %d byte(s) when the carry buffer holds stale bytes beyond the pending length" % conc[0], ff.id)
            n_k -= 0
        try:
            if conc is not None and conc is not True:
                raise formula.Uneval("already reported")
            if not k1k or not k2k:
                if conc is True:
                    res.discharged += 1
                    res.sample({"rule": "C16.K", "fn": ff.id, "tails": "0..=15 x 4 concrete carry buffers"})
                    raise formula.Uneval("done")
                raise formula.Uneval("tail reads not found")
            bad = None
            for rem in range(0, 16):
                for _ in range(6):
                    h1, h2, k1, k2 = [rnd.getrandbits(64) for _ in range(4)]
                    total = rnd.randrange(0, 1 << 20) * 16
                    env = {"self.h1": h1, "self.h2": h2, "self.total": total, "self.buf_len": rem, k1k[0]: k1, k2k[0]: k2,
                           "@fn:fmix64": ref_fmix64, "@cache": {}}
                    got = formula.evaluate(e, env)
                    want = ref_murmur_finish(h1, h2, total, rem, k1, k2)
                    if tuple(got) != want:
                        bad = (rem, got, want)
                        break
                if bad:
                    break
            if bad:
                res.violate("C16.K", "C16.K|murmur-finish", "MurmurHash3 finish128 differs from the published algorithm for a tail of %d byte(s)" % bad[0], ff.id)
            else:
                res.discharged += 1
                res.sample({"rule": "C16.K", "fn": ff.id, "tails": "0..=15 x 6 random states"})
        except formula.Uneval as u:
            if str(u) not in ("done", "already reported"):
                res.undecided += 1
                res.extra.setdefault("uneval", []).append("%s: %s" % (ff.id, u))
    # xxhash accumulator initialisation
    fx = prog.fns.get("hash::xxhash::XxHash64::with_seed")
    if fx is not None:
        e = ret_expr(prog, fx)
        n_k += 1
        res.obligations += 1
        if e[0] == "agg":
            names = [n for n, t in prog.adts["hash::xxhash::XxHash64"]["variants"][0]["fields"]]
            vals = dict(zip(names, e[2]))
            try:
                ok = True
                for _ in range(16):
                    sd = rnd.getrandbits(64)
                    want = {"v1": (sd + P1 + P2) & M64, "v2": (sd + P2) & M64, "v3": sd, "v4": (sd - P1) & M64, "total_len": 0, "buffer_len": 0}
                    for k, w in want.items():
                        if formula.evaluate(vals[k], {"seed": sd}) != w:
                            ok = False
                            res.violate("C16.K", "C16.K|xx-init|" + k, "XXH64 accumulator %s is initialised as %s, not as the published algorithm requires" % (k, show(vals[k])), fx.id)
                            break
                    if not ok:
                        break
                if ok:
                    res.discharged += 1
            except (formula.Uneval, KeyError):
                res.undecided += 1
        else:
            res.undecided += 1
    # re-seeding in place: a `&mut self` method of the XXH64 state that takes a u64 and stores the accumulators has to leave them as
    # the seeding constructor does for that value (an accumulator filled from the *old* seed only shows once a full stripe is hashed)
    xx_adt = prog.adts.get("hash::xxhash::XxHash64")
    if xx_adt:
        xnames = [n for n, t in xx_adt["variants"][0]["fields"]]
        for g_ in sorted((g for g in prog.fns.values() if not g.promoted and g.owner == "hash::xxhash::XxHash64" and g.argc == 2
                          and (g.local_ty(1) or "").startswith("&mut") and g.local_ty(2) == "u64"), key=lambda g: g.id):
            stored = set(fld for (ff, bb, kind, place, rv, span, adt, fld) in sym.field_stores(prog, adt="hash::xxhash::XxHash64", fns=[g_]) if kind == "assign")
            if not ({"v1", "v2", "v3", "v4"} & stored) or not {"v1", "v2", "v3", "v4"} <= set(xnames):
                continue
            n_k += 1
            sg_ = Sym(prog, g_)
            pn_ = g_.local_name(2) or "seed"
            verdict, wit = None, "accumulators not evaluable"
            try:
                for _ in range(8):
                    sd, old_sd = rnd.getrandbits(64), rnd.getrandbits(64)
                    want = {"v1": (sd + P1 + P2) & M64, "v2": (sd + P2) & M64, "v3": sd, "v4": (sd - P1) & M64}
                    env = {"@prog": prog, pn_: sd, "self.seed": old_sd, "self.v1": 11, "self.v2": 22, "self.v3": 33, "self.v4": 44,
                           "self.total_len": 5, "self.buffer_len": 5}
                    for k_, w_ in want.items():
                        ev = sg_.field_exit_value_seq(k_)
                        if ev is None:
                            raise formula.Uneval(k_)
                        got = formula.evaluate(ev, env)
                        if verdict is None:
                            verdict = True
                        if got != w_ and verdict is not False:
                            verdict, wit = False, "after %s(%#x) on a state seeded with %#x accumulator %s is %#x, a fresh state for that seed has %#x" % (g_.item_name, sd, old_sd, k_, got, w_)
            except (formula.Uneval, TypeError, KeyError):
                if verdict is not False:
                    verdict = None
            res.tri(verdict, "C16.K", "C16.K|xx-reseed|%s" % g_.item_name, "XXH64 %s: %s" % (g_.id, wit), g_.id)
    res.rule("C16.K", n_k, 6, "mixing functions compared with the reference algorithms")

    # ---------------- C16.D derivations
    n_d = 0
    # which fields of the murmur state carry the seed: those the seeding constructor fills from its parameter
    murmur_seed_idx = []
    for g_ in prog.fns.values():
        if g_.promoted or not (g_.owner or "").endswith("MurmurHash3X64128") or g_.argc != 1 or g_.local_ty(1) != "u64":
            continue
        eg_ = ret_expr(prog, g_)
        if eg_ is not None and eg_[0] == "agg":
            murmur_seed_idx = [i_ for i_, x_ in enumerate(eg_[2]) if x_[0] == "param"]
    fc = prog.fns.get("hll::coupon")
    if fc is not None:
        e = ret_expr(prog, fc)
        lv = formula.leaves(e)
        a = [k for k in lv if "finish128" in k and k.endswith(".0")]
        b = [k for k in lv if "finish128" in k and k.endswith(".1")]
        n_d += 1
        res.obligations += 2
        if a and b:
            envs = [{a[0]: rnd.getrandbits(64), b[0]: rnd.getrandbits(64) >> rnd.randrange(0, 64)} for _ in range(200)] + [{a[0]: M64, b[0]: 0}, {a[0]: 0, b[0]: 1}, {a[0]: 5, b[0]: M64}]
            ok, cex, n, why = formula.equivalent(e, lambda env: ((min(64 - env[b[0]].bit_length(), 62) + 1) << 26) | (env[a[0]] & ((1 << 26) - 1)), envs)
            if ok:
                res.discharged += 1
                res.sample({"rule": "C16.D", "fn": "hll::coupon", "formula": show(e)[:160]})
            elif ok is False:
                res.violate("C16.D", "C16.D|coupon", "hll::coupon is %s, expected ((min(lz(h2),62)+1) << 26) | (h1 & (2^26-1)): %s" % (show(e)[:120], cex), fc.id)
            else:
                res.undecided += 1
            seeds = [t[2][i_] for t in sym.walk(e) if t[0] == "agg" and "MurmurHash3X64128" in t[1] and t[2] for i_ in murmur_seed_idx if i_ < len(t[2])]
            if any(x == ("const", 9001) for x in seeds):
                res.discharged += 1
            elif seeds and all(x[0] == "const" for x in seeds):
                res.violate("C16.D", "C16.D|coupon-seed", "hll::coupon hashes with seed %s, expected the default seed 9001" % [show(x) for x in seeds], fc.id)
            else:
                res.undecided += 1
        else:
            res.undecided += 2
    fs = prog.fns.get("hash::compute_seed_hash")
    if fs is not None:
        s = Sym(prog, fs)
        e = ret_expr(prog, fs)
        n_d += 1
        res.obligations += 1
        lv = [k for k in formula.leaves(e) if "finish128" in k and k.endswith(".0")]
        seeded0 = None if not murmur_seed_idx else sym.contains(e, lambda t: t[0] == "agg" and "MurmurHash3X64128" in t[1] and all(i_ < len(t[2]) and t[2][i_] == ("const", 0) for i_ in murmur_seed_idx))
        wrote = any((st.get("callee") or "").endswith("Hasher>::write") and "to_le_bytes" in show(s.operand(st["args"][1])) and "seed" in show(s.operand(st["args"][1])) for _, st in fs.calls())
        ok = None
        if lv:
            ok, cex, n, why = formula.equivalent(e, lambda env: env[lv[0]] & 0xffff, [{lv[0]: rnd.getrandbits(64)} for _ in range(32)])
        if ok and seeded0 and wrote:
            res.discharged += 1
        elif ok is None or seeded0 is None:
            res.undecided += 1
        else:
            res.violate("C16.D", "C16.D|seed-hash", "compute_seed_hash is no longer murmur(seed.to_le_bytes(), seed 0).h1 & 0xffff (%s)" % show(e)[:100], fs.id)
    ds = prog.consts.get("hash::DEFAULT_UPDATE_SEED")
    n_d += 1
    res.obligations += 1
    if ds is not None and ds.get("v") == 9001:
        res.discharged += 1
    elif ds is None:
        res.undecided += 1
    else:
        res.violate("C16.D", "C16.D|default-seed", "DEFAULT_UPDATE_SEED is %s, expected 9001" % (ds.get("v") if ds else None))
    # floating-point items: the Java/C++ sketches hash Double.doubleToLongBits(v), i.e. every NaN as 0x7ff8000000000000 and -0.0 as
    # +0.0; the value each public update_f64 hands on is evaluated for NaNs of either sign and with a payload, both zeros, and an
    # ordinary value
    import struct as _st
    def _f(bits):
        return _st.unpack("<d", _st.pack("<Q", bits))[0]
    probes = [(0x3ff8000000000000, 0x3ff8000000000000), (0x0, 0x0), (0x8000000000000000, 0x0), (0x7ff8000000000000, 0x7ff8000000000000),
              (0xfff8000000000000, 0x7ff8000000000000), (0x7ff8000000000123, 0x7ff8000000000000), (0xfff0000000000001, 0x7ff8000000000000),
              (0xc008000000000000, 0xc008000000000000)]
    for fu in sorted((g for g in prog.fns.values() if not g.promoted and g.exported and g.item_name == "update_f64" and g.argc == 2), key=lambda g: g.id):
        n_d += 1
        su = Sym(prog, fu)
        pn = fu.local_name(2) or "value"
        verdict, wit = None, "no call in %s receives a value derived from the item" % fu.id
        for b, site in fu.calls():
            if len(site["args"]) < 2:
                continue
            try:
                a = su.at(b, "t").operand(site["args"][1])
            except Exception:
                continue
            if not sym.contains(a, lambda t: t[0] == "param" and t[1] == 2):
                continue
            try:
                for bits_in, want in probes:
                    got = formula.evaluate(a, {"@prog": prog, "@ieee": True, pn: _f(bits_in)})
                    if isinstance(got, float):
                        got = _st.unpack("<Q", _st.pack("<d", got))[0]
                    if not isinstance(got, int):
                        raise formula.Uneval("non-integer item")
                    if verdict is None:
                        verdict = True
                    if got != want and verdict is not False:
                        verdict, wit = False, "for the double with bits 0x%016x %s hashes 0x%016x; doubleToLongBits semantics give 0x%016x" % (bits_in, fu.id, got, want)
            except (formula.Uneval, TypeError, IndexError, ZeroDivisionError):
                continue
            if verdict is not None:
                break
        res.tri(verdict, "C16.D", "C16.D|f64|%s" % fu.id, "floating-point items: %s" % wit, fu.id)
    res.rule("C16.D", n_d, 3, "derivations")
    res.explanation = ("the extracted expression DAGs of the hashing functions are evaluated against reference implementations of MurmurHash3 x64-128 "
                       "and XXH64 on random inputs; the buffered-length counter of each Hasher::write is obtained as a select-tree over all paths and "
                       "checked against (entry + len) mod block for every entry value and every length up to three blocks")
    res.not_decided = "chunking independence of the buffered byte contents; the tail loops of XXH64::finish64"
    # the Count-Min bucket: row*num_buckets + h1 % num_buckets with the full 64-bit h1 (C08.U evaluates the extracted index)
    C.import_rules(res, prog, ctx, "C16.D.bucket", "C08", ("C08.U",), "Count-Min bucket derivation", 1)
    # the seed travels at 64 bits from the public constructors to the hashers
    C.seed_width_rule(res, prog, "C16.S")
    return res
