"""C13 — every image variant Java/C++ can emit is read back to the state it encodes.

Decided statically (DESIGN §5.13): for every family the reader's I/O model (read sites with their path conditions over the
values read before) is run on every image variant of the published format (specfmt.IMAGES: serial versions, flag
combinations, compact/updatable forms, float/double encodings), with its branches evaluated on the image's preamble values.
  C13.L  the reader consumes exactly the variant's tokens, in order, with the published widths and endianness, and does
         not reject the variant on its preamble values
  C13.K  no payload is skipped: no `advance` over input is executed on any variant
  C13.V  every serial version / mode / flag the format defines selects a reader path (no variant is undecodable)
Not decided: that the decoded state equals the encoded state (payload semantics); the HLL4 "updatable" aux table has
the same token kinds as the compact pair list and is not distinguished by this rule.
"""
import re
from .. import ir, sym, formula, proto, specfmt
from ..main import Result
from . import common as C
from . import C12


def absint_read(callee):
    nm = (callee or "").rsplit("::", 1)[-1]
    return nm.startswith("read_") or nm == "read_exact"


def run(prog, ctx):
    res = Result("C13")
    total = 0
    decided = 0
    for fam in sorted(specfmt.IMAGES):
        spec = specfmt.FAMILIES[fam]
        rf = C.pub_fn(prog, *spec["reader"])
        if rf is None:
            res.violate("C13.L", "C13.L|%s|missing" % fam, "deserialize entry of %s no longer exists" % fam)
            continue
        rsites = proto.model(prog, rf, "r")
        n_img = 0
        for name, lay, opt in specfmt.IMAGES[fam]():
            stream = []
            for k, v in lay:
                if isinstance(v, str):
                    v = C12.LABELS.get(v)
                stream.append((k, v))
            env = {"@prog": prog, "is_f32": opt.get("is_f32", 0)}
            total += 1
            n_img += 1
            res.obligations += 1
            verdict, detail = proto.reader_accepts(rsites, stream, env)
            if verdict is True:
                res.discharged += 1
                decided += 1
                if n_img <= 1:
                    res.sample({"rule": "C13.L", "family": fam, "image": name, "tokens": [k for k, v in stream]})
            elif verdict is None:
                res.undecided += 1
                res.extra.setdefault("undecided_reasons", set()).add("%s [%s]: %s" % (fam, name, detail))
            else:
                if opt.get("tail_optional") and "after the image ends" in detail:
                    res.undecided += 1
                    continue
                decided += 1
                rule = "C13.K" if "skips over" in detail else "C13.L"
                res.violate(rule, "%s|%s|%s" % (rule, fam, name), "%s image variant `%s` is not read back: %s" % (fam, name, detail), rf.id)
        res.extra.setdefault("families", {})[fam] = {"read_sites": len(rsites), "images": n_img}
    # C13.P  an updatable SET image stores the coupon table as laid out by the other implementations' probe sequence:
    #        start = coupon & mask, stride = ((coupon & (2^26-1)) >> lg_size) | 1  (the table is adopted slot for slot)
    from . import C02
    n_p = C02.check_set_probe(prog, res, "C13.P")
    res.rule("C13.P", n_p, 1, "probe formula of the HLL coupon hash set")
    # C13.E  decoded theta state is self-consistent in every reader arm: a sketch decoded as empty has no entries and theta = MAX
    #        (legacy images carry no emptiness flag; deriving it from the entry count alone turns a non-empty sketch whose
    #        entries were all screened into an empty one and loses theta)
    import itertools
    from .. import formula
    MAXT = 9223372036854775807
    CT = "theta::sketch::CompactThetaSketch"
    n_e = 0
    # model of the entry reader: a list with as many items as its count argument says (the count is the usize parameter; the
    # other integer parameter is theta)
    re_fn = next((g for g in prog.fns.values() if not g.promoted and g.owner == CT and g.item_name == "read_entries"), None)
    cnt_pos = None
    if re_fn is not None:
        cp = [i for i in range(re_fn.argc) if re_fn.local_ty(i + 1) in ("usize", "u32")]
        if len(cp) == 1:
            cnt_pos = cp[0]

    def read_entries_model(*a):
        if cnt_pos is None or cnt_pos >= len(a) or a[cnt_pos] is None:
            raise formula.Uneval("entry reader not modelled")
        return [0] * min(int(a[cnt_pos]), 64)
    for f in [x for x in prog.fns.values() if not x.promoted and x.owner == CT and x.item_name.startswith("deserialize")]:
        sf = sym.Sym(prog, f)
        aggs = {}
        for (ff, b, kind, place, rv, span, adt, fld) in sym.field_stores(prog, adt=CT, fns=[f]):
            if kind == "agg" and fld in ("empty", "theta", "entries") and rv is not None:
                aggs.setdefault(b, {})[fld] = (sf.at(b, 0).rvalue(rv), span)
        for b, flds in sorted(aggs.items()):
            if len(flds) != 3:
                continue
            E, T, N = flds["empty"][0], flds["theta"][0], ("len", flds["entries"][0])
            paths = sf.path_conditions(b) or []
            conds = [c for pth in paths for (c, tv) in pth]
            keys = set(k for e in [E, T, N] for k in formula.leaves(e) if (k.startswith("read_") and "@" in k and k.endswith("()")) or k == "pre_longs")
            # decisions that involve the same fields (or fields compared with them) constrain the arm; all others are dropped
            ckeys = {}
            for c in conds:
                ckeys[id(c)] = set(k for k in formula.leaves(c) if (k.startswith("read_") and "@" in k and k.endswith("()")) or k == "pre_longs")
            grow = True
            while grow:
                grow = False
                for c in conds:
                    ks = ckeys[id(c)]
                    if ks & keys and not ks <= keys and len(keys | ks) <= 5:
                        keys |= ks
                        grow = True
            keys = sorted(keys)
            slim = set()
            for pth in paths:
                slim.add(tuple((c, tv) for (c, tv) in pth if ckeys[id(c)] and ckeys[id(c)] <= set(keys)))
            paths = sorted(slim, key=len)
            if len(keys) > 5:
                continue
            n_e += 1
            res.obligations += 1
            doms = [((1, 2, 3) if k == "pre_longs" else (0, 1, 5, MAXT - 1, MAXT)) for k in keys]
            bad = None
            evaluated = 0
            for vals in itertools.product(*doms):
                env = dict(zip(keys, vals))
                env["@prog"] = prog
                env["@fn:read_entries"] = read_entries_model
                env["@lenient"] = ("read_entries",)
                # the arm must be reachable with these field values: some path's decisions all hold (a decision that cannot be
                # evaluated - remaining input, seed hash - is taken as satisfiable)
                reach_ok = not paths
                for pth in paths:
                    ok_p = True
                    for c, tv in pth:
                        try:
                            v = formula.evaluate(c, env)
                        except (formula.Uneval, TypeError):
                            continue
                        if isinstance(v, tuple):
                            continue
                        if (tv[0] == "eq" and v != tv[1]) or (tv[0] == "ne" and v in tv[1]):
                            ok_p = False
                            break
                    if ok_p:
                        reach_ok = True
                        break
                if not reach_ok:
                    continue
                try:
                    e, t, n = formula.evaluate(E, env), formula.evaluate(T, env), formula.evaluate(N, env)
                except (formula.Uneval, TypeError):
                    continue
                evaluated += 1
                if e and (n != 0 or t != MAXT):
                    bad = ({k: v for k, v in zip(keys, vals)}, n, t)
                    break
            if bad:
                res.violate("C13.E", "C13.E|%s" % f.id, "%s can decode an image as EMPTY although it has %d entr%s / theta %s (field values %s): emptiness %s" % (
                    f.id, bad[1], "y" if bad[1] == 1 else "ies", "= MAX" if bad[2] == MAXT else "< MAX", bad[0], sym.show(E)[:120]), f.id, flds["empty"][1])
            elif evaluated:
                res.discharged += 1
            else:
                res.undecided += 1
    res.rule("C13.E", n_e, 4, "theta reader arms constructing a sketch (emptiness consistent with entries and theta)")
    # C13.O  a reader fills a local buffer from the image in a loop; anything it *derives* from the buffer's content (a recount of
    #        set bits for Java's "dirty" Bloom images, a checksum, a minimum) must be computed after the loop, not before it
    n_o = 0
    readers = []
    for fam in sorted(specfmt.FAMILIES):
        rf_ = C.pub_fn(prog, *specfmt.FAMILIES[fam]["reader"])
        if rf_ is not None:
            readers.append(rf_)
    for f in [g for g in C.reach_from(prog, readers) if not g.id.startswith(("core::", "std::", "alloc::")) and "deserialize" in g.item_name]:
        sf = sym.Sym(prog, f, ifconv=False)
        loops = sf.loops()
        if not loops:
            continue
        # locals that own a slice-like buffer
        bufs = [l for l in range(len(f.locals)) if f.local_name(l) and f.local_ty(l).startswith(("std::boxed::Box<[", "std::vec::Vec<", "alloc::boxed::Box<[", "alloc::vec::Vec<"))]
        for L in bufs:
            alias = {L}
            changed = True
            while changed:
                changed = False
                for b in f.blocks:
                    for st in b.stmts:
                        if st[0] == "=" and isinstance(st[1], int) and st[1] not in alias and st[2][0] in ("use", "cast", "ref"):
                            op = st[2][1] if st[2][0] == "use" else st[2][2]
                            pl = op[1] if st[2][0] != "ref" and isinstance(op, list) and op and op[0] in ("c", "m") else (st[2][2] if st[2][0] == "ref" else None)
                            if pl is None:
                                continue
                            base = pl if isinstance(pl, int) else pl[0]
                            if base in alias and f.local_name(st[1]) is None:
                                alias.add(st[1])
                                changed = True
            fill_loops = []
            for hdr, body in loops:
                has_read = any(f.blocks[b].term[0] == "call" and absint_read(f.blocks[b].term[1].get("callee")) for b in body)
                has_mut = any(st[0] == "=" and ((st[2][0] == "ref" and st[2][1] == "mut" and (st[2][2] if isinstance(st[2][2], int) else st[2][2][0]) in alias) or
                                               (not isinstance(st[1], int) and st[1][0] in alias and any(p[0] in ("[]", "*") for p in st[1][1])))
                              for b in body for st in f.blocks[b].stmts)
                # `for w in &mut buf` takes the mutable borrow before the loop: stores through the iterator item inside the body
                stores_item = any(st[0] == "=" and not isinstance(st[1], int) and len(st[1][1]) == 1 and st[1][1][0][0] == "*" for b in body for st in f.blocks[b].stmts)
                pre_mut = any(st[0] == "=" and st[2][0] == "ref" and st[2][1] == "mut" and (st[2][2] if isinstance(st[2][2], int) else st[2][2][0]) in alias
                              for b in f.blocks if f.dominates(b.idx, hdr) and b.idx not in body for st in b.stmts)
                if has_read and (has_mut or (stores_item and pre_mut)):
                    fill_loops.append((hdr, body))
            if not fill_loops:
                continue
            n_o += 1
            res.obligations += 1
            early = None
            for b, site in f.calls():
                nm = (site.get("callee") or "").rsplit("::", 1)[-1]
                if nm in ("len", "capacity", "is_empty", "iter_mut", "as_mut_ptr", "deref_mut", "index_mut", "into_iter", "into_boxed_slice", "reserve", "with_capacity", "remaining",
                          # sizing / initialising the buffer writes it, it does not derive anything from its content
                          "resize", "resize_with", "fill", "fill_with", "clear", "truncate", "push", "extend", "extend_from_slice", "reserve_exact", "shrink_to_fit", "set_len") or any(b in body for _, body in fill_loops):
                    continue
                uses = False
                for a in site["args"]:
                    if a[0] in ("c", "m"):
                        pl = a[1]
                        base = pl if isinstance(pl, int) else pl[0]
                        if base in alias:
                            uses = True
                if uses and any(sf._reaches(b, hdr) for hdr, _ in fill_loops):
                    early = (b, site.get("callee"), site.get("span"))
            if early:
                res.violate("C13.O", "C13.O|%s|%s" % (f.id, f.local_name(L)), "%s reads the content of `%s` (%s) before the loop that fills it from the image: whatever it derives describes the empty buffer" % (
                    f.id, f.local_name(L), early[1]), f.id, early[2])
            else:
                res.discharged += 1
    res.rule("C13.O", n_o, 2, "buffers filled from the image in reader loops")
    if "undecided_reasons" in res.extra:
        res.extra["undecided_reasons"] = sorted(res.extra["undecided_reasons"])[:12]
    res.rule("C13.L", total, 80, "image variants x families run through the reader models")
    res.rule("C13.decided", decided, 78, "variants decided")
    res.functions_analysed = sum(v["read_sites"] for v in res.extra["families"].values())
    res.entry_points = ["%s::%s" % specfmt.FAMILIES[f]["reader"] for f in sorted(specfmt.IMAGES)]
    # an updatable Hll4 image re-inserts its aux pairs one by one: the aux table's insert / find / grow probe geometry (C02.Q, Q2)
    C.import_rules(res, prog, ctx, "C13.Q", "C02", ("C02.Q", "C02.Q2"), "aux table rebuilt from an image", 2)
    # ---------------- C13.T the aux area of an Hll4 array image: a compact image lists aux_count pairs back to back, an updatable
    # one carries the whole aux table of 2^lg_arr ints (lg_arr in the preamble).  The trip count of the reader's aux loop is
    # evaluated for both forms; its roles are taken from the expression itself (the u32 read = aux_count, the bool parameter = the
    # compact flag, the u8 parameter = lg_arr).  A count that does not depend on the flag at all reads updatable images wrongly.
    n_t = 0
    f4 = C.fn_one(prog, "hll::array4::Array4", "deserialize")
    if f4 is not None:
        from .common import Sym, show
        s4 = Sym(prog, f4)
        for h, body in s4.loops():
            if not any(b in body and "::read_u32" in (st.get("callee") or "") for b, st in f4.calls()):
                continue
            nxt = [(b, st) for b, st in f4.calls() if b in body and (st.get("callee") or "").endswith("::next")]
            if len(nxt) != 1:
                continue
            trip = s4.at(nxt[0][0], "t").operand(nxt[0][1]["args"][0])
            while trip[0] == "call" and trip[1].rsplit("::", 1)[-1] in ("into_iter", "by_ref"):
                trip = trip[2][0]
            if not (trip[0] == "agg" and "Range" in trip[1] and len(trip[2]) == 2):
                continue
            n_t += 1
            lv = formula.top_leaves(trip[2][1])
            reads = [k for k in lv if k.startswith("read_u32")]
            bools = [k for k, x in lv.items() if x[0] == "param" and f4.local_ty(x[1]) == "bool"]
            u8s = [k for k, x in lv.items() if x[0] == "param" and f4.local_ty(x[1]) == "u8"]
            if len(reads) != 1:
                res.tri(None, "C13.T", "C13.T|hll4-aux", "aux loop bound not recognised: %s" % show(trip)[:120], f4.id)
                continue
            if not bools:
                res.tri(False, "C13.T", "C13.T|hll4-aux", "%s reads %s aux ints whatever the compact flag says: an updatable Hll4 image carries the whole aux table of "
                        "2^lg_arr ints with empty cells, which is then decoded as aux_count back-to-back pairs" % (f4.id, show(trip[2][1])[:80]), f4.id)
                continue
            verdict, wit = None, ""
            try:
                verdict = True
                for cnt, lg in ((2, 3), (5, 4), (1, 2)):
                    for flag, want in ((1, cnt), (0, 1 << lg)):
                        env = {"@prog": prog, reads[0]: cnt}
                        for k in bools:
                            env[k] = flag
                        for k in u8s:
                            env[k] = lg
                        got = formula.evaluate(trip[2][1], env) - formula.evaluate(trip[2][0], env)
                        if got != want and verdict:
                            verdict, wit = False, "compact=%d aux_count=%d lg_arr=%d: reads %d ints, the layout has %d" % (flag, cnt, lg, got, want)
            except (formula.Uneval, TypeError):
                verdict = None
            res.tri(verdict, "C13.T", "C13.T|hll4-aux", "%s: %s" % (f4.id, wit), f4.id)
    res.rule("C13.T", n_t, 1, "aux area of Hll4 images: ints read vs the compact / updatable layout")
    # ---------------- C13.Z a reader may refuse an image early when the bytes left cannot hold the announced number of elements,
    # but the element size in that test must not exceed what one element actually occupies in the narrowest encoding the loop
    # reads (t-digest values are 4 bytes in the float form): `count > remaining / K` with K larger than that rejects valid images
    n_z = 0
    SIZES = {"u8": 1, "i8": 1, "u16": 2, "i16": 2, "u32": 4, "i32": 4, "f32": 4, "u64": 8, "i64": 8, "f64": 8, "usize": 8}
    from .common import Sym as _Sym
    for g in prog.fns.values():
        if g.promoted or "{closure" in g.id or not any(g.id.startswith(specfmt.FAMILIES[f_]["reader"][0].rsplit("::", 1)[0]) for f_ in specfmt.FAMILIES):
            continue
        if not any(proto.R_RE.match(st.get("callee") or "") for _b, st in g.calls()):
            continue
        sg = None
        for bb in g.blocks:
            if bb.cleanup:
                continue
            for st in bb.stmts:
                if not (st[0] == "=" and st[2][0] == "bin" and st[2][1] in ("Gt", "Ge", "Lt", "Le")):
                    continue
                sg = sg or _Sym(prog, g)
                try:
                    e = sg.at(bb.idx, "t").rvalue(st[2])
                except Exception:
                    continue
                cnt, lim = (e[2], e[3]) if e[1] in ("Gt", "Ge") else (e[3], e[2])
                if not (lim[0] == "bin" and lim[1] == "Div" and any(y[0] == "call" and y[1].rsplit("::", 1)[-1] in ("position", "remaining") for y in sym.walk(lim[2]))):
                    continue
                kx = lim[3]
                K = None
                if kx[0] == "const" and isinstance(kx[1], int):
                    K = kx[1]
                elif kx[0] == "call" and "size_of" in kx[1]:
                    tys_ = set((s_.get("gargs") or [None])[0] for _b, s_ in g.calls() if (s_.get("callee") or "").endswith("size_of"))
                    K = SIZES.get(tys_.pop()) if len(tys_) == 1 else None
                if K is None or cnt[0] == "const":
                    continue
                ck = show(cnt)
                for h, body in sg.loops():
                    nxt = [(b, s_) for b, s_ in g.calls() if b in body and (s_.get("callee") or "").endswith("::next")]
                    if len(nxt) != 1:
                        continue
                    trip = sg.at(nxt[0][0], "t").operand(nxt[0][1]["args"][0])
                    if ck not in show(trip):
                        continue
                    reads = [(b, re.sub(r"_(le|be)$", "", (s_.get("callee") or "").rsplit("::read_", 1)[-1])) for b, s_ in g.calls() if b in body and proto.R_RE.match(s_.get("callee") or "")]
                    if not reads:
                        continue
                    bools = [g.local_name(i_) for i_ in range(1, g.argc + 1) if g.local_ty(i_) == "bool" and g.local_name(i_)]
                    import itertools as _it
                    best = None
                    for vals in _it.product((0, 1), repeat=len(bools)):
                        env = dict(zip(bools, vals))
                        env["@prog"] = prog
                        tot = 0
                        for b, ty_ in reads:
                            if C.path_pred(sg, b)(env) is not False:
                                tot += SIZES.get(ty_, 8)
                        best = tot if best is None else min(best, tot)
                    n_z += 1
                    res.tri(bool(best is None or K <= best), "C13.Z", "C13.Z|%s|%s" % (g.id, ck.split("@")[0]),
                            "%s refuses an image when %s exceeds the bytes left divided by %d, but one element of that loop occupies only %s bytes in its narrowest "
                            "encoding: a valid image is rejected as too short" % (g.id, ck, K, best), g.id, st[3] if len(st) > 3 else None)
    res.rule("C13.Z", n_z, 0, "early length checks vs the element size actually read")
    # sibling reader calls pass their same-typed flags in the declared order (C11.A): a foreign image sets flag combinations this
    # library never writes, so crossed `compact` / `ooo` arguments only show on such images
    C.import_rules(res, prog, ctx, "C13.A", "C11", ("C11.A",), "crossed same-type arguments on the reader paths", 50)
    # ---------------- C13.S / C13.D decoded compact theta sketches: (S) the seed hash stamped on the result comes from the image or from the
    # seed the caller reads with -- never from a constant seed (serial version 1 carries no seed hash); (D) the ordered form is
    # recorded only when the entries that were read verbatim from the image have been compared with each other
    CT = "theta::sketch::CompactThetaSketch"
    rdr = C.pub_fn(prog, CT, "deserialize")
    n_sd = 0
    if rdr is not None and CT in prog.adts:
        names = [x[0] for x in prog.adts[CT]["variants"][0]["fields"]]
        raw_readers = set()
        for g in prog.fns.values():
            if g.promoted or not g.id.startswith("theta::"):
                continue
            cs = [(st.get("callee") or "").rsplit("::", 1)[-1] for _, st in g.calls()]
            if any(c.startswith("read_u64") for c in cs) and "push" in cs and not any(c.startswith("sort") or c.startswith("checked_add") for c in cs):
                raw_readers.add(g.id)
        for g in [rdr] + [x for x in C.reach_from(prog, [rdr.id]) if x.id != rdr.id and x.id.startswith("theta::sketch::") and not x.promoted]:
            sg = None
            for b in g.blocks:
                if b.cleanup:
                    continue
                for i_, st in enumerate(b.stmts):
                    if not (st[0] == "=" and st[2][0] == "agg" and isinstance(st[2][1], (list, tuple)) and st[2][1][0] == "adt" and st[2][1][1] == CT):
                        continue
                    sg = sg or sym.Sym(prog, g)
                    ops = dict(zip(st[2][1][4], st[2][2]))
                    if "seed_hash" in ops:
                        n_sd += 1
                        e = sg.at(b.idx, i_).operand(ops["seed_hash"])
                        calls = [y for y in sym.walk(e) if y[0] == "call" and y[1].rsplit("::", 1)[-1] == "compute_seed_hash"]
                        from_image = any(y[0] == "call" and "@" in str(y[1]) and "read_" in str(y[1]) for y in sym.walk(e))
                        verdict = None
                        if from_image:
                            verdict = True
                        elif calls:
                            verdict = all(sym.contains(c, lambda t: t[0] in ("param", "var", "field")) for c in calls)
                        res.tri(verdict, "C13.S", "C13.S|%s" % g.id, "%s stamps the decoded sketch with the hash of a constant seed (%s): an image read with the "
                                "caller's seed comes back with another seed's hash and its re-serialized form is rejected by readers using that seed" % (g.id, show(e)[:80]), g.id, st[3])
                    if "ordered" in ops and "entries" in ops:
                        ee = sg.at(b.idx, i_).operand(ops["entries"])
                        raw = any(y[0] == "call" and y[1] in raw_readers for y in sym.walk(ee))
                        if not raw:
                            continue
                        n_sd += 1
                        eo = sg.at(b.idx, i_).operand(ops["ordered"])
                        looks = any(y[0] == "call" and y[1] in prog.fns and y[1] not in raw_readers and any(
                            z[0] == "call" and z[1] in raw_readers for a in y[2] for z in sym.walk(a)) for y in sym.walk(eo))
                        is_const_true = eo[0] == "const" and eo[1] in (1, True)
                        only_flags = not looks and not sym.contains(eo, lambda t: t[0] == "call" and t[1] in raw_readers)
                        verdict = True if looks else (False if (is_const_true or only_flags) else None)
                        res.tri(verdict, "C13.D", "C13.D|%s" % g.id, "%s records the decoded entries as ordered (%s) without having compared them: the compressed writer "
                                "subtracts consecutive entries and panics / wraps on an image whose entries are not ascending" % (g.id, show(eo)[:60]), g.id, st[3])
    res.rule("C13.S", n_sd, 3, "seed hash and ordered flag of decoded compact theta sketches")
    res.rule("C13.D", n_sd, 3, "ordered flag of decoded compact theta sketches (counted with C13.S)")
    res.explanation = ("reader I/O models extracted from MIR, simulated on every image variant of the published formats with branches evaluated on the "
                       "variant's preamble values")
    res.not_decided = "equality of decoded and encoded state; HLL4 updatable aux-table semantics"
    return res
