"""C13 — every image variant Java/C++ can emit is read back to the state it encodes.

Decided statically (DESIGN §5.13): for every family the reader's I/O model (read sites with their path conditions over the
values read before) is run on every image variant of the published format (specfmt.IMAGES: serial versions, flag
combinations, compact/updatable forms, float/double encodings), with its branches evaluated on the image's preamble values.
  C13.L  the reader consumes exactly the variant's tokens, in order, with the published widths and endianness, and does
         not reject the variant on its preamble values
  C13.K  no payload is skipped: no `advance` over input is executed on any variant
  C13.V  every serial version / mode / flag the format defines selects a reader path (no variant is undecodable)
Not decided: that the decoded state equals the encoded state (payload semantics); the HLL4 "updatable" aux table has
the same token kinds as the compact pair list and is not distinguished by this rule.
"""
from .. import ir, sym, formula, proto, specfmt
from ..main import Result
from . import common as C
from . import C12


def run(prog, ctx):
    res = Result("C13")
    total = 0
    decided = 0
    for fam in sorted(specfmt.IMAGES):
        spec = specfmt.FAMILIES[fam]
        rf = C.pub_fn(prog, *spec["reader"])
        if rf is None:
            res.violate("C13.L", "C13.L|%s|missing" % fam, "deserialize entry of %s no longer exists" % fam)
            continue
        rsites = proto.model(prog, rf, "r")
        n_img = 0
        for name, lay, opt in specfmt.IMAGES[fam]():
            stream = []
            for k, v in lay:
                if isinstance(v, str):
                    v = C12.LABELS.get(v)
                stream.append((k, v))
            env = {"@prog": prog, "is_f32": opt.get("is_f32", 0)}
            total += 1
            n_img += 1
            res.obligations += 1
            verdict, detail = proto.reader_accepts(rsites, stream, env)
            if verdict is True:
                res.discharged += 1
                decided += 1
                if n_img <= 1:
                    res.sample({"rule": "C13.L", "family": fam, "image": name, "tokens": [k for k, v in stream]})
            elif verdict is None:
                res.undecided += 1
                res.extra.setdefault("undecided_reasons", set()).add("%s [%s]: %s" % (fam, name, detail))
            else:
                if opt.get("tail_optional") and "after the image ends" in detail:
                    res.undecided += 1
                    continue
                decided += 1
                rule = "C13.K" if "skips over" in detail else "C13.L"
                res.violate(rule, "%s|%s|%s" % (rule, fam, name), "%s image variant `%s` is not read back: %s" % (fam, name, detail), rf.id)
        res.extra.setdefault("families", {})[fam] = {"read_sites": len(rsites), "images": n_img}
    # C13.P  an updatable SET image stores the coupon table as laid out by the other implementations' probe sequence:
    #        start = coupon & mask, stride = ((coupon & (2^26-1)) >> lg_size) | 1  (the table is adopted slot for slot)
    from . import C02
    n_p = C02.check_set_probe(prog, res, "C13.P")
    res.rule("C13.P", n_p, 1, "probe formula of the HLL coupon hash set")
    # C13.E  decoded theta state is self-consistent in every reader arm: a sketch decoded as empty has no entries and theta = MAX
    #        (legacy images carry no emptiness flag; deriving it from the entry count alone turns a non-empty sketch whose
    #        entries were all screened into an empty one and loses theta)
    import itertools
    from .. import formula
    MAXT = 9223372036854775807
    CT = "theta::sketch::CompactThetaSketch"
    n_e = 0
    for f in [x for x in prog.fns.values() if not x.promoted and x.owner == CT and x.item_name.startswith("deserialize")]:
        sf = sym.Sym(prog, f)
        aggs = {}
        for (ff, b, kind, place, rv, span, adt, fld) in sym.field_stores(prog, adt=CT, fns=[f]):
            if kind == "agg" and fld in ("empty", "theta", "entries") and rv is not None:
                aggs.setdefault(b, {})[fld] = (sf.at(b, 0).rvalue(rv), span)
        for b, flds in sorted(aggs.items()):
            if len(flds) != 3:
                continue
            E, T, N = flds["empty"][0], flds["theta"][0], ("len", flds["entries"][0])
            paths = sf.path_conditions(b) or []
            conds = [c for pth in paths for (c, tv) in pth]
            keys = set(k for e in [E, T, N] for k in formula.leaves(e) if (k.startswith("read_") and "@" in k and k.endswith("()")) or k == "pre_longs")
            # decisions that involve the same fields (or fields compared with them) constrain the arm; all others are dropped
            ckeys = {}
            for c in conds:
                ckeys[id(c)] = set(k for k in formula.leaves(c) if (k.startswith("read_") and "@" in k and k.endswith("()")) or k == "pre_longs")
            grow = True
            while grow:
                grow = False
                for c in conds:
                    ks = ckeys[id(c)]
                    if ks & keys and not ks <= keys and len(keys | ks) <= 5:
                        keys |= ks
                        grow = True
            keys = sorted(keys)
            slim = set()
            for pth in paths:
                slim.add(tuple((c, tv) for (c, tv) in pth if ckeys[id(c)] and ckeys[id(c)] <= set(keys)))
            paths = sorted(slim, key=len)
            if len(keys) > 5:
                continue
            n_e += 1
            res.obligations += 1
            doms = [((1, 2, 3) if k == "pre_longs" else (0, 1, 5, MAXT - 1, MAXT)) for k in keys]
            bad = None
            evaluated = 0
            for vals in itertools.product(*doms):
                env = dict(zip(keys, vals))
                env["@prog"] = prog
                env["@fn:read_entries"] = lambda c, n, t: [0] * min(int(n), 64) if n is not None else None
                env["@lenient"] = ("read_entries",)
                # the arm must be reachable with these field values: some path's decisions all hold (a decision that cannot be
                # evaluated - remaining input, seed hash - is taken as satisfiable)
                reach_ok = not paths
                for pth in paths:
                    ok_p = True
                    for c, tv in pth:
                        try:
                            v = formula.evaluate(c, env)
                        except (formula.Uneval, TypeError):
                            continue
                        if isinstance(v, tuple):
                            continue
                        if (tv[0] == "eq" and v != tv[1]) or (tv[0] == "ne" and v in tv[1]):
                            ok_p = False
                            break
                    if ok_p:
                        reach_ok = True
                        break
                if not reach_ok:
                    continue
                try:
                    e, t, n = formula.evaluate(E, env), formula.evaluate(T, env), formula.evaluate(N, env)
                except (formula.Uneval, TypeError):
                    continue
                evaluated += 1
                if e and (n != 0 or t != MAXT):
                    bad = ({k: v for k, v in zip(keys, vals)}, n, t)
                    break
            if bad:
                res.violate("C13.E", "C13.E|%s" % f.id, "%s can decode an image as EMPTY although it has %d entr%s / theta %s (field values %s): emptiness %s" % (
                    f.id, bad[1], "y" if bad[1] == 1 else "ies", "= MAX" if bad[2] == MAXT else "< MAX", bad[0], sym.show(E)[:120]), f.id, flds["empty"][1])
            elif evaluated:
                res.discharged += 1
            else:
                res.undecided += 1
    res.rule("C13.E", n_e, 4, "theta reader arms constructing a sketch (emptiness consistent with entries and theta)")
    if "undecided_reasons" in res.extra:
        res.extra["undecided_reasons"] = sorted(res.extra["undecided_reasons"])[:12]
    res.rule("C13.L", total, 80, "image variants x families run through the reader models")
    res.rule("C13.decided", decided, 78, "variants decided")
    res.functions_analysed = sum(v["read_sites"] for v in res.extra["families"].values())
    res.entry_points = ["%s::%s" % specfmt.FAMILIES[f]["reader"] for f in sorted(specfmt.IMAGES)]
    res.explanation = ("reader I/O models extracted from MIR, simulated on every image variant of the published formats with branches evaluated on the "
                       "variant's preamble values")
    res.not_decided = "equality of decoded and encoded state; HLL4 updatable aux-table semantics"
    return res
