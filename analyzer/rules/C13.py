"""C13 — every image variant Java/C++ can emit is read back to the state it encodes.

Decided statically (DESIGN §5.13): for every family the reader's I/O model (read sites with their path conditions over the
values read before) is run on every image variant of the published format (specfmt.IMAGES: serial versions, flag
combinations, compact/updatable forms, float/double encodings), with its branches evaluated on the image's preamble values.
  C13.L  the reader consumes exactly the variant's tokens, in order, with the published widths and endianness, and does
         not reject the variant on its preamble values
  C13.K  no payload is skipped: no `advance` over input is executed on any variant
  C13.V  every serial version / mode / flag the format defines selects a reader path (no variant is undecodable)
Not decided: that the decoded state equals the encoded state (payload semantics); the HLL4 "updatable" aux table has
the same token kinds as the compact pair list and is not distinguished by this rule.
"""
from .. import ir, sym, formula, proto, specfmt
from ..main import Result
from . import common as C
from . import C12


def run(prog, ctx):
    res = Result("C13")
    total = 0
    decided = 0
    for fam in sorted(specfmt.IMAGES):
        spec = specfmt.FAMILIES[fam]
        rf = C.pub_fn(prog, *spec["reader"])
        if rf is None:
            res.violate("C13.L", "C13.L|%s|missing" % fam, "deserialize entry of %s no longer exists" % fam)
            continue
        rsites = proto.model(prog, rf, "r")
        n_img = 0
        for name, lay, opt in specfmt.IMAGES[fam]():
            stream = []
            for k, v in lay:
                if isinstance(v, str):
                    v = C12.LABELS.get(v)
                stream.append((k, v))
            env = {"@prog": prog, "is_f32": opt.get("is_f32", 0)}
            total += 1
            n_img += 1
            res.obligations += 1
            verdict, detail = proto.reader_accepts(rsites, stream, env)
            if verdict is True:
                res.discharged += 1
                decided += 1
                if n_img <= 1:
                    res.sample({"rule": "C13.L", "family": fam, "image": name, "tokens": [k for k, v in stream]})
            elif verdict is None:
                res.undecided += 1
                res.extra.setdefault("undecided_reasons", set()).add("%s [%s]: %s" % (fam, name, detail))
            else:
                if opt.get("tail_optional") and "after the image ends" in detail:
                    res.undecided += 1
                    continue
                decided += 1
                rule = "C13.K" if "skips over" in detail else "C13.L"
                res.violate(rule, "%s|%s|%s" % (rule, fam, name), "%s image variant `%s` is not read back: %s" % (fam, name, detail), rf.id)
        res.extra.setdefault("families", {})[fam] = {"read_sites": len(rsites), "images": n_img}
    # C13.P  an updatable SET image stores the coupon table as laid out by the other implementations' probe sequence:
    #        start = coupon & mask, stride = ((coupon & (2^26-1)) >> lg_size) | 1  (the table is adopted slot for slot)
    from . import C02
    n_p = C02.check_set_probe(prog, res, "C13.P")
    res.rule("C13.P", n_p, 1, "probe formula of the HLL coupon hash set")
    if "undecided_reasons" in res.extra:
        res.extra["undecided_reasons"] = sorted(res.extra["undecided_reasons"])[:12]
    res.rule("C13.L", total, 80, "image variants x families run through the reader models")
    res.rule("C13.decided", decided, 78, "variants decided")
    res.functions_analysed = sum(v["read_sites"] for v in res.extra["families"].values())
    res.entry_points = ["%s::%s" % specfmt.FAMILIES[f]["reader"] for f in sorted(specfmt.IMAGES)]
    res.explanation = ("reader I/O models extracted from MIR, simulated on every image variant of the published formats with branches evaluated on the "
                       "variant's preamble values")
    res.not_decided = "equality of decoded and encoded state; HLL4 updatable aux-table semantics"
    return res
