"""C11 — serialize then deserialize is lossless for every sketch family.

Decided statically (DESIGN §5.11): for every family and every abstract sketch state, the concrete token sequence the
writer model produces (C12 machinery: write sites, path conditions, value provenance evaluated under the state) is fed to
the reader model (read sites with their path conditions over previously read values): the reader must consume exactly
the writer's tokens, in order, with the same widths and endianness, taking its branches on the preamble values the writer
actually wrote.  A dropped, added, widened, narrowed, byte-swapped or mis-conditioned field on either side breaks this.
Not decided: equality of all query results after the round trip (payload semantics).
"""
from .. import ir, sym, formula, proto, specfmt
from ..main import Result
from . import common as C
from . import C12
from .common import show


_BUILDS = {}


def ok_reachable(prog, rf, env):
    """three-valued: is some construction of the reader's owner type (in the reader itself or the same-module functions it
    reaches) reachable under env?  False only when every construction is refuted by a decision that evaluates definitely."""
    owner = rf.owner
    if not owner:
        return None
    key = rf.id
    if key not in _BUILDS:
        builds = []
        for g in [rf] + [x for x in C.reach_from(prog, [rf.id]) if x.id != rf.id and x.id.split("::")[0] == rf.id.split("::")[0]]:
            sg = None
            for b in g.blocks:
                if b.cleanup:
                    continue
                for st in b.stmts:
                    if st[0] == "=" and st[2][0] == "agg" and isinstance(st[2][1], (list, tuple)) and st[2][1][0] == "adt" and st[2][1][1] == owner:
                        sg = sg or sym.Sym(prog, g)
                        builds.append((g, C.path_pred(sg, b.idx)))
        _BUILDS[key] = builds
    builds = _BUILDS[key]
    own = [pp for g, pp in builds if g.id == rf.id or True]
    if not own:
        return None
    out = False
    for pp in own:
        r = pp(env)
        if r is True:
            return True
        if r is None:
            out = None
    return out


# families whose empty image is the image of a sketch straight out of a public constructor: (is this abstract state that sketch?,
# constructor names to look for on the reader's owner type)
FRESH = {
    "cpc": (lambda st: st.get("empty") and st.get("has_hip"), ("with_seed", "new")),
    "countmin": (lambda st: st.get("empty"), ("with_seed", "new")),
    "tdigest": (lambda st: st.get("n") == 0 or st.get("empty"), ("make", "try_new", "new")),
}


def _owner_builds(prog, g, owner):
    out = []
    for b in g.blocks:
        if b.cleanup:
            continue
        for i, st in enumerate(b.stmts):
            if st[0] == "=" and st[2][0] == "agg" and isinstance(st[2][1], (list, tuple)) and st[2][1][0] == "adt" and st[2][1][1] == owner:
                out.append((b.idx, i, st))
    return out


def fresh_state_rule(prog, res, fam, rf, ctor_names, stream, label):
    """C11.E: after the reader has consumed the image of a freshly constructed sketch, every numeric field of the object it builds
    (evaluated under the values it has just read) equals the field the constructor builds for the same configuration.  A field that
    the image does not carry and the reader fills with its own default is where the two can drift apart (the next update then
    starts from a state no constructor produces)."""
    owner = rf.owner
    env = dict(proto.LAST_ENV)
    env["@prog"] = prog
    env["@ieee"] = True
    # landing names of the reads: configuration values the constructor is called with
    landed = {}
    for (ti, rs) in proto.ALIGN:
        if rs.extra and ti < len(stream) and isinstance(stream[ti][1], (int, float)) and not isinstance(stream[ti][1], bool):
            landed[rs.extra] = stream[ti][1]
    # the reader-side construction reached under the values read
    cands = []
    for g in [rf] + [x for x in C.reach_from(prog, [rf.id]) if x.id != rf.id and x.id.split("::")[0] == rf.id.split("::")[0] and not x.promoted]:
        sg = None
        for (b, i, st) in _owner_builds(prog, g, owner):
            sg = sg or sym.Sym(prog, g)
            if C.path_pred(sg, b)(env) is not False:        # not refuted by the values read (a seed comparison stays unknown)
                cands.append((g, sg, b, i, st))
    if len(cands) != 1:
        return
    rbuild = cands[0]
    # the constructor-side construction
    cbuild = None
    for nm in ctor_names:
        for cf in prog.fns.values():
            if cf.promoted or cf.owner != owner or cf.item_name != nm or cf.id == rbuild[0].id:
                continue
            bs = _owner_builds(prog, cf, owner)
            if len(bs) == 1:
                cbuild = (cf, sym.Sym(prog, cf), bs[0])
                break
        if cbuild:
            break
    if cbuild is None:
        return
    cf, sc, (cb, ci, cst) = cbuild
    cenv = {"@prog": prog, "@ieee": True}
    for i in range(1, cf.argc + 1):
        nm = cf.local_name(i)
        if nm in landed:
            cenv[nm] = landed[nm]
    g, sg, b, i, st = rbuild
    # re-assigned locals of the reader (`let mut kxp = 0.0; if has_hip { kxp = read }`): their value on the path this image takes
    vars_ = {}
    for rop in st[2][2]:
        try:
            for y in sym.walk(sg.at(b, i).operand(rop)):
                if y[0] == "var":
                    vars_[y[1]] = show(y)
        except Exception:
            pass
    if vars_:
        for l, v in C.reaching_values(prog, g, sg, b, vars_.keys(), env).items():
            env[vars_[l]] = v
    rnames, rops = st[2][1][4], st[2][2]
    cnames, cops = cst[2][1][4], cst[2][2]
    for fname, rop in zip(rnames, rops):
        if fname not in cnames:
            continue
        cop = cops[list(cnames).index(fname)]
        try:
            rv = formula.evaluate(sg.at(b, i).operand(rop), env)
            cv = formula.evaluate(sc.at(cb, ci).operand(cop), cenv)
        except (formula.Uneval, TypeError, IndexError, ZeroDivisionError, KeyError):
            continue
        if isinstance(rv, bool) or isinstance(cv, bool) or not isinstance(rv, (int, float)) or not isinstance(cv, (int, float)):
            continue
        res.obligations += 1
        if rv == cv:
            res.discharged += 1
        else:
            res.violate("C11.E", "C11.E|%s|%s" % (fam, fname), "%s: deserialize() of the image of a freshly constructed sketch (%s) builds `%s` = %r, the constructor %s "
                        "builds %r: the restored sketch does not continue like the one that was serialized" % (fam, label, fname, rv, cf.id, cv), g.id, st[3])


def run(prog, ctx):
    res = Result("C11")
    total = 0
    decided = 0
    n_kk = [0]
    for fam in sorted(specfmt.FAMILIES):
        if ctx.get("families") and fam not in ctx["families"]:
            continue
        spec = specfmt.FAMILIES[fam]
        wf = C.pub_fn(prog, *spec["writer"])
        rf = C.pub_fn(prog, *spec["reader"])
        if wf is None or rf is None:
            res.violate("C11.L", "C11.L|%s|missing" % fam, "serialize/deserialize entry of %s no longer exists" % fam)
            continue
        wsites = proto.model(prog, wf, "w")
        rsites = proto.model(prog, rf, "r")
        keys = C12.leaf_keys_of(wsites)
        res.extra.setdefault("families", {})[fam] = {"write_sites": len(wsites), "read_sites": len(rsites)}
        for st in spec["states"]():
            st = dict(st)
            for k, v in C12.LABELS.items():
                st.setdefault(k, v)
            env = specfmt.state_env(fam, st, keys)
            env["@prog"] = prog
            toks = proto.concrete_tokens(wsites, env)
            total += 1
            res.obligations += 1
            label = {k: v for k, v in st.items() if k not in C12.LABELS}
            if any(k.startswith("?") for k, v, s_ in toks):
                res.undecided += 1
                continue
            toks = C12.collapse(toks)
            stream = [(k, v) for k, v, s_ in toks]
            renv = {"@prog": prog, "is_f32": 0}
            verdict, detail = proto.reader_accepts(rsites, stream, renv)
            if verdict is True:
                # C11.F field agreement: the variable a read lands in must not be the name of a *different* written field
                wl = [proto.value_label(s_.value) for k, v, s_ in toks]
                names = set(x for x in wl if x)
                swapped = None
                for (ti, rs) in proto.ALIGN:
                    rl = rs.extra
                    if rl and ti < len(wl) and wl[ti] and rl != wl[ti] and rl in names and wl[ti] in set(r.extra for _, r in proto.ALIGN if r.extra):
                        swapped = (ti, wl[ti], rl)
                        break
                if swapped:
                    decided += 1
                    res.violate("C11.F", "C11.F|%s|%s->%s" % (fam, swapped[1], swapped[2]),
                                "%s: position %d carries `%s` in serialize() but deserialize() stores it as `%s` (two fields of equal width are swapped on one side)" % (
                                    fam, swapped[0], swapped[1], swapped[2]), rf.id)
                    continue
                # C11.K the reader, having consumed the image, must also *return* it: some construction of the sketch type in the
                # reader must be reachable under the values it has just read (a final validation that refutes the writer's own
                # image -- e.g. a bit count the writer can legitimately produce -- loses the sketch)
                kv = ok_reachable(prog, rf, dict(proto.LAST_ENV))
                n_kk[0] += 1
                if kv is False:
                    decided += 1
                    res.violate("C11.K", "C11.K|%s|%s" % (fam, ",".join("%s=%s" % kv_ for kv_ in sorted(label.items()))),
                                "%s: deserialize() reads the whole image serialize() writes in state %s and then rejects it: no construction of the "
                                "sketch is reachable under the values read" % (fam, label), rf.id)
                    continue
                res.discharged += 1
                decided += 1
                if total <= 3:
                    res.sample({"rule": "C11.L", "family": fam, "state": label, "tokens": [k for k, v in stream]})
                # C11.E the image of a freshly constructed sketch restores what the constructor builds
                fresh = FRESH.get(fam)
                if fresh is not None and fresh[0](st):
                    try:
                        fresh_state_rule(prog, res, fam, rf, fresh[1], stream, label)
                    except Exception as ex:
                        res.extra.setdefault("undecided_items", []).append("C11.E|%s not evaluable: %r" % (fam, ex))
            elif verdict is None:
                res.undecided += 1
                res.extra.setdefault("undecided_reasons", set()).add("%s: %s" % (fam, detail))
            else:
                decided += 1
                res.violate("C11.L", "C11.L|%s|%s" % (fam, ",".join("%s=%s" % kv for kv in sorted(label.items()))),
                            "%s: what serialize() writes in state %s is not what deserialize() reads: %s; written: %s" % (fam, label, detail, [k for k, v in stream]), rf.id)
    # ---------------- C11.U a state field the reader reads must reach the object it returns: a value that is read, range-checked
    # and then dropped (the object is built from something else) does not survive the round trip.  A read is "used" when it is an
    # operand of anything but a comparison or an error message; reads that are compared for equality (check fields: version,
    # family, seed hash) or that only size a loop / an allocation are exempt.
    n_u = 0
    FMT = ("fmt::", "Arguments", "new_display", "new_debug", "format", "deserial", "insufficient_data", "Error::")
    for fam in sorted(specfmt.FAMILIES):
        if ctx.get("families") and fam not in ctx["families"]:
            continue
        rf = C.pub_fn(prog, *specfmt.FAMILIES[fam]["reader"])
        if rf is None:
            continue
        for g in [rf] + [x for x in C.reach_from(prog, [rf.id]) if x.id != rf.id and x.id.split("::")[0] == rf.id.split("::")[0] and not x.promoted and "{closure" not in x.id]:
            reads = [(b, site) for b, site in g.calls() if proto.R_RE.match(site.get("callee") or "")]
            if not reads:
                continue
            sg = sym.Sym(prog, g)
            tags = {}
            for b, site in reads:
                tags["%s@%s#%d()" % ((site.get("callee") or "").rsplit("::", 1)[-1], g.item_name, b)] = (b, site)
            if not tags:
                continue
            used, eq_checked, compared = set(), set(), set()
            for bb in g.blocks:
                if bb.cleanup:
                    continue
                for st in bb.stmts:
                    if st[0] != "=":
                        continue
                    try:
                        e = sg.at(bb.idx, "t").rvalue(st[2])
                    except Exception:
                        continue
                    inside = set(show(y) for y in sym.walk(e) if y[0] == "call" and show(y) in tags)
                    if not inside:
                        continue
                    if st[2][0] in ("bin", "checked") and st[2][1] in ("Eq", "Ne"):
                        eq_checked |= inside
                    elif st[2][0] in ("bin", "checked") and st[2][1] in ("Lt", "Le", "Gt", "Ge"):
                        compared |= inside
                    elif st[2][0] == "agg":
                        used |= inside
                    elif not isinstance(st[1], int):
                        used |= inside          # stored into a place (a field of the object under construction)
                t = bb.term
                if t[0] == "call":
                    cal = t[1].get("callee") or ""
                    if any(x in cal for x in FMT):
                        continue
                    short = cal.rsplit("::", 1)[-1]
                    for a in t[1]["args"]:
                        try:
                            e = sg.at(bb.idx, "t").operand(a)
                        except Exception:
                            continue
                        inside = set(show(y) for y in sym.walk(e) if y[0] == "call" and show(y) in tags)
                        if not inside:
                            continue
                        if short in ("eq", "ne"):
                            eq_checked |= inside
                        elif short in ("contains", "cmp", "partial_cmp", "lt", "le", "gt", "ge"):
                            compared |= inside
                        elif proto.R_RE.match(cal) or short in ("map_err", "branch", "from_residual", "unwrap", "expect", "into", "from", "try_from", "try_into", "clone", "min", "max"):
                            pass
                        else:
                            used |= inside
                if t[0] == "switch":
                    try:
                        e = sg.at(bb.idx, "t").operand(t[1])
                    except Exception:
                        e = None
                    if e is not None and e[0] != "discr":
                        inside = set(show(y) for y in sym.walk(e) if y[0] == "call" and show(y) in tags)
                        eq_checked |= inside
            for tg in sorted(tags):
                if tg in used or tg in eq_checked:
                    continue
                if tg not in compared:
                    continue            # never looked at: padding / unused field
                n_u += 1
                res.tri(False, "C11.U", "C11.U|%s|%s" % (g.id, tg.split("@")[0]), "%s reads %s, range-checks it and then drops it: the object it returns is built without that "
                        "value, so the field does not survive serialize -> deserialize" % (g.id, tg), g.id, tags[tg][1].get("span"))
            n_u += len([tg for tg in tags if tg in used])
            # sibling constructions: the same constructor reached on two paths of the reader takes each argument from the image on
            # both or on neither (a field restored on the empty path and replaced by a constant on the other is lost)
            by_callee = {}
            for bb, site in g.calls():
                cal = site.get("callee") or ""
                if cal in prog.fns and not proto.R_RE.match(cal) and prog.fns[cal].owner == g.owner and site["args"]:
                    by_callee.setdefault(cal, []).append((bb, site))
            for cal, sites_ in sorted(by_callee.items()):
                if len(sites_) < 2:
                    continue
                per = []
                for bb, site in sites_:
                    row = []
                    for a in site["args"]:
                        try:
                            e = sg.at(bb, "t").operand(a)
                        except Exception:
                            e = ("unknown",)
                        row.append((set(show(y) for y in sym.walk(e) if y[0] == "call" and show(y) in tags), e))
                    per.append(row)
                for i in range(min(len(r) for r in per)):
                    with_tag = [r[i] for r in per if r[i][0]]
                    # only where the value had been read on that path as well (the read dominates the construction)
                    consts = [(r[i], bb_) for r, (bb_, _s) in zip(per, sites_) if not r[i][0] and r[i][1][0] in ("const", "static")
                              and with_tag and all(g.dominates(tags[tg][0], bb_) for tg in with_tag[0][0])]
                    # a construction that sits on a branch taken *because of* the value read (`if n == 0 && theta == MAX { build(MAX) }`) may
                    # pass the constant the branch has just established: that is not a dropped value
                    def strip_(x):
                        while isinstance(x, tuple) and x and x[0] == "cast":
                            x = x[1]
                        return x

                    def truthy(tv_):
                        return (tv_[0] == "ne" and 0 in tv_[1]) or (tv_[0] == "eq" and tv_[1] not in (0, False))
                    def implied_eqs(c_, want_true):
                        """equalities (expr, const) that hold when condition c_ has the given truth value"""
                        c_ = strip_(c_)
                        if not isinstance(c_, tuple) or not c_:
                            return []
                        if want_true and c_[0] == "bin" and c_[1] == "Eq":
                            a_, b_ = strip_(c_[2]), strip_(c_[3])
                            out_ = []
                            if b_[0] == "const":
                                out_.append((a_, b_[1]))
                            if a_[0] == "const":
                                out_.append((b_, a_[1]))
                            return out_
                        if want_true and c_[0] == "select" and strip_(c_[3])[0] == "const" and strip_(c_[3])[1] in (0, False):
                            return implied_eqs(c_[1], True) + implied_eqs(c_[2], True)       # a && b
                        if want_true and c_[0] == "bin" and c_[1] == "BitAnd":
                            return implied_eqs(c_[2], True) + implied_eqs(c_[3], True)
                        return []
                    pinned = []
                    e_tag = with_tag[0][1] if with_tag else None
                    if e_tag is not None and not (strip_(e_tag)[0] == "call" and show(strip_(e_tag)) in with_tag[0][0]):
                        continue        # a value computed from what was read (not the field itself): a constant elsewhere is no evidence
                    for (rc, bb_) in consts:
                        cval = rc[1][1] if rc[1][0] == "const" else None
                        paths_ = sg.path_conditions(bb_) or []
                        all_paths = bool(paths_)
                        for pth in paths_:
                            hit = False
                            for c_, tv_ in pth:
                                # the expression handed over elsewhere is itself the branch condition, with the constant's truth value
                                if strip_(c_) == strip_(e_tag) and cval in (0, 1, True, False) and truthy(tv_) == bool(cval):
                                    hit = True
                                # the value read is compared for equality with the very constant that is handed over
                                if truthy(tv_) and any(x_ == strip_(e_tag) and k_ == cval for x_, k_ in implied_eqs(c_, True)):
                                    hit = True
                            if not hit:
                                all_paths = False
                        pinned.append(all_paths)
                    if consts and all(pinned):
                        n_u += 1
                        res.obligations += 1
                        res.undecided += 1
                        continue
                    consts = [rc for (rc, bb_) in consts]
                    if with_tag and consts:
                        n_u += 1
                        res.tri(False, "C11.U", "C11.U|%s|%s|arg%d" % (g.id, cal.rsplit("::", 1)[-1], i), "%s builds the object with %s(.., %s, ..) on one path and with the constant %s in the same "
                                "position on another: the value read from the image is dropped there and does not survive the round trip" % (
                                    g.id, cal.rsplit("::", 1)[-1], sorted(with_tag[0][0])[0], show(consts[0][1])), g.id)
    res.rule("C11.U", n_u, 20, "image fields read by the readers that reach the returned object")
    # ---------------- C11.W CpcWrapper::new reads a prefix of the CPC image: in every state, each token the full reader lands in
    # a field the wrapper also keeps (by landing name) must be consumed by the wrapper at the same position and landed in the same
    # field; the wrapper may stop early only where nothing it keeps follows
    n_w = 0
    if not ctx.get("families") or "cpc" in ctx["families"]:
        wf = C.pub_fn(prog, *specfmt.FAMILIES["cpc"]["writer"])
        rf = C.pub_fn(prog, *specfmt.FAMILIES["cpc"]["reader"])
        xf = C.pub_fn(prog, "cpc::wrapper::CpcWrapper", "new")
        if wf is not None and rf is not None and xf is not None:
            wsites, rsites, xsites = proto.model(prog, wf, "w"), proto.model(prog, rf, "r"), proto.model(prog, xf, "r")
            keeps = set(x.extra for x in xsites if x.extra)
            keys = C12.leaf_keys_of(wsites)
            for st in specfmt.FAMILIES["cpc"]["states"]():
                st = dict(st)
                for k, v in C12.LABELS.items():
                    st.setdefault(k, v)
                env = specfmt.state_env("cpc", st, keys)
                env["@prog"] = prog
                toks = proto.concrete_tokens(wsites, env)
                label = {k: v for k, v in st.items() if k not in C12.LABELS}
                if any(k.startswith("?") for k, v, s_ in toks):
                    continue
                stream = [(k, v) for k, v, s_ in C12.collapse(toks)]
                v1, _d1 = proto.reader_accepts(rsites, stream, {"@prog": prog})
                full = [(i, r.extra) for i, r in proto.ALIGN]
                if v1 is not True:
                    continue
                v2, d2 = proto.reader_accepts(xsites, stream, {"@prog": prog})
                wrap = dict((i, r.extra) for i, r in proto.ALIGN)
                n_w += 1
                if v2 is None:
                    res.tri(None, "C11.W", "C11.W|%s" % label, "wrapper model undecided: %s" % d2, xf.id)
                    continue
                if v2 is False and "stops after" not in d2:
                    res.tri(False, "C11.W", "C11.W|mismatch|%s" % ",".join("%s=%s" % kv for kv in sorted(label.items())),
                            "CpcWrapper::new does not follow the image CpcSketch::serialize writes in state %s: %s" % (label, d2), xf.id)
                    continue
                missing = [(i, nm) for i, nm in full if nm in keeps and wrap.get(i) != nm]
                res.tri(not missing, "C11.W", "C11.W|field|%s" % ",".join("%s=%s" % kv for kv in sorted(label.items())),
                        "in state %s CpcSketch::deserialize reads %s but CpcWrapper::new does not (it reads %s there): the wrapper keeps its default and "
                        "disagrees with the full sketch" % (label, ["`%s` at position %d" % (nm, i) for i, nm in missing], [wrap.get(i) for i, nm in missing]), xf.id)
    res.rule("C11.W", n_w, 6, "CPC states read by the wrapper and by the full reader")
    # ---------------- C11.M a writer that takes `&mut self` (t-digest folds its buffer first) must finish changing the sketch
    # before it emits the first byte: a value written earlier would otherwise describe a state the sketch no longer has
    n_m = 0
    for fam in sorted(specfmt.FAMILIES):
        if ctx.get("families") and fam not in ctx["families"]:
            continue
        wf = C.pub_fn(prog, *specfmt.FAMILIES[fam]["writer"])
        if wf is None or wf.argc < 1 or not wf.local_ty(1).startswith("&mut"):
            continue
        owner = wf.owner
        sw = sym.Sym(prog, wf, ifconv=False)
        writes = [b for b, site in wf.calls() if "::write_" in (site.get("callee") or "") or (site.get("callee") or "").endswith("SketchBytes::write")]
        memo = {}

        def mutates(tgt):
            if tgt not in memo:
                memo[tgt] = any(True for g in C.reach_from(prog, [tgt]) if g.owner == owner for _ in sym.field_stores(prog, adt=owner, fns=[g]) if _[2] == "assign")
            return memo[tgt]
        for b, site in wf.calls():
            tgt = site.get("callee")
            if not tgt or tgt not in prog.fns or prog.fns[tgt].owner != owner:
                continue
            g = prog.fns[tgt]
            if g.argc < 1 or not g.local_ty(1).startswith("&mut") or not mutates(tgt):
                continue
            n_m += 1
            res.obligations += 1
            early = [w for w in writes if w != b and sw._reaches(w, b)]
            if early:
                res.violate("C11.M", "C11.M|%s|%s" % (fam, g.item_name), "%s calls %s, which changes the sketch, after it has already written part of the image; fields emitted earlier (flags, counts) can describe the state before the change" % (wf.id, g.id), wf.id, site.get("span"))
            else:
                res.discharged += 1
    res.rule("C11.M", n_m, 1, "state-changing calls inside `&mut self` writers")
    # ---------------- C11.A crossed arguments on the codec paths: a reader or writer that hands its local `x` to the callee's
    # parameter `y` and its local `y` to the parameter `x` (same type) decodes one field as the other
    entries = []
    for fam in sorted(specfmt.FAMILIES):
        if ctx.get("families") and fam not in ctx["families"]:
            continue
        for side in ("writer", "reader"):
            e_ = C.pub_fn(prog, *specfmt.FAMILIES[fam][side])
            if e_ is not None:
                entries.append(e_)
    codec_fns = [g for g in C.reach_from(prog, entries) if not g.id.startswith(("core::", "std::", "alloc::"))]
    n_a = 0
    for g in codec_fns:
        n_a += sum(1 for b_, st_ in g.calls() if st_.get("callee") in prog.fns and prog.fns[st_["callee"]].argc >= 2)
    for (f_, b_, g_, i_, j_, names) in C.swapped_arguments(prog, codec_fns):
        res.obligations += 1
        res.violate("C11.A", "C11.A|%s->%s|%s/%s" % (f_.id, g_.id, names[0], names[1]), "%s passes its `%s` as parameter `%s` of %s and its `%s` as parameter `%s` (two arguments of the same type are crossed)" % (
            f_.id, names[1], names[0], g_.id, names[0], names[1]), f_.id, f_.blocks[b_].term[1].get("span"))
    res.obligations += 1
    res.discharged += 1
    res.rule("C11.A", n_a, 50, "in-crate calls with two or more arguments on the codec paths (crossed-argument lint)")
    if "undecided_reasons" in res.extra:
        res.extra["undecided_reasons"] = sorted(res.extra["undecided_reasons"])[:12]
    res.rule("C11.K", n_kk[0], 40, "accepted images whose construction must stay reachable")
    res.rule("C11.L", total, 50, "abstract states x families round-tripped through the writer and reader models")
    res.rule("C11.decided", decided, 45, "states decided")
    res.functions_analysed = sum(v["write_sites"] + v["read_sites"] for v in res.extra["families"].values())
    res.entry_points = ["%s::%s / %s::%s" % (specfmt.FAMILIES[f]["writer"] + specfmt.FAMILIES[f]["reader"]) for f in sorted(specfmt.FAMILIES)]
    # theta compressed form: the entry-count width the writer announces is the one the reader consumes (C12.N)
    # ---------------- C11.C a value the reader has just put into the object is not wiped by a later setter (restore order)
    n_c = 0
    rfns = []
    for fam, spec in sorted(specfmt.FAMILIES.items()):
        rf = C.pub_fn(prog, *spec["reader"])
        if rf is not None:
            rfns += [g for g in C.reach_from(prog, [rf.id]) if not g.promoted and g.id.split("::")[0] == rf.id.split("::")[0]]
    seen_c = set()
    for g in rfns:
        if g.id in seen_c:
            continue
        seen_c.add(g.id)
        n_c += 1
        for (f_, fld, c1, c2, span) in C.clobbered_after_set(prog, [g]):
            res.obligations += 1
            res.violate("C11.C", "C11.C|%s|%s" % (f_.id, fld), "%s restores `%s` through %s and then calls %s, which overwrites it with a constant on some path: the "
                        "decoded object differs from the one that was written (and re-serializes to different bytes)" % (f_.id, fld, c1.rsplit("::", 1)[-1], c2.rsplit("::", 1)[-1]), f_.id, span)
    res.obligations += 1
    res.discharged += 1
    res.rule("C11.C", n_c, 20, "reader functions scanned for set-then-clobber sequences")
    n_z = C.emptiness_rule(res, prog, "C11.Z", sorted(C.EMPTY_FLAG))
    res.rule("C11.Z", n_z, 4, "conditions under which a writer sets the EMPTY flag vs the state is_empty() reads")
    C.import_rules(res, prog, ctx, "C11.N", "C12", ("C12.N", "C12.S"), "entry counts the writer announces vs the entries it emits", 3)
    C.import_rules(res, prog, ctx, "C11.V", "C12", ("C12.V",), "signed Count-Min counters are written sign-extended (what the reader range-checks)", 3)
    res.explanation = ("co-simulation of the writer and reader I/O models extracted from MIR: the token sequence the writer emits in each abstract state is "
                       "consumed by the reader model, whose branches are evaluated on the preamble values actually written")
    res.not_decided = "semantic equality of the restored sketch (payload values and derived state)"
    return res
