"""C12 — emitted bytes follow the DataSketches cross-language binary layout.

Decided statically (DESIGN §5.12): for every family the writer's I/O model (every write site with its token kind, value
provenance and guards, callees inlined) is evaluated under every abstract sketch state and the resulting concrete token
sequence is compared with the published layout of specfmt.py: token kinds (width + endianness), order, optional-field
conditions, constant values (preamble size as a function of the state, serial version, family id, flag masks, mode byte)
and provenance labels of the variable fields (which state variable a position carries).
Not decided: that payload *values* (register bytes, compressed CPC words, hash entries) are the right ones.
"""
from .. import ir, sym, formula, proto, specfmt
from ..main import Result
from . import common as C
from .common import show, Sym

LABELS = {"hip": 1001.25, "kxq0": 1002.25, "kxq1": 1003.25, "numatcurmin": 777, "min": -5.5, "max": 99.5, "nsv": 71, "tw": 72, "ww": 73, "kxp": 3.25}
IMPLS = {"frequencies": None}


def norm_kind(k):
    return k


def kinds_match(wk, sk):
    if wk == sk:
        return True
    if sk in ("u16", "u32") and wk.rstrip("*") in (sk + "le", sk + "be"):
        return wk.endswith("*") == sk.endswith("*")
    if sk.rstrip("*") in ("u16", "u32") and wk.rstrip("*") in (sk.rstrip("*") + "le", sk.rstrip("*") + "be") and wk.endswith("*") == sk.endswith("*"):
        return True
    return False


def collapse(tokens):
    """merge consecutive repetitions of the same loop site group"""
    out = []
    for k, v, st in tokens:
        if k.endswith("*") and out and out[-1][0] == k and out[-1][2] is st:
            continue
        out.append((k, v, st))
    return out


def leaf_keys_of(sites):
    keys = set()
    for st in sites:
        if st.value is not None:
            keys |= set(formula.leaves(st.value).keys())
        for path in st.guards:
            for cond, tv in path:
                keys |= set(formula.leaves(cond).keys())
    return keys


def check_family(prog, res, fam, rule="C12"):
    spec = specfmt.FAMILIES[fam]
    owner, meth = spec["writer"]
    f = C.pub_fn(prog, owner, meth)
    if f is None:
        res.violate(rule + ".L", "%s.L|%s|missing" % (rule, fam), "%s::%s no longer exists" % (owner, meth))
        return 0
    sites = proto.model(prog, f, "w")
    keys = leaf_keys_of(sites)
    n_states = 0
    unknown_states = 0
    for st in spec["states"]():
        st = dict(st)
        for k, v in LABELS.items():
            st.setdefault(k, v)
        env = specfmt.state_env(fam, st, keys)
        env["@prog"] = prog
        toks = collapse(proto.concrete_tokens(sites, env))
        want = spec["layout"](st)
        n_states += 1
        res.obligations += 1
        if any(k.startswith("?") for k, v, s_ in toks):
            # presence of some site could not be decided from the mapped leaves: ignore loop-iterator guards
            toks2 = []
            undec = False
            for k, v, s_ in toks:
                if k.startswith("?"):
                    undec = True
                    unknown_conds = set()
                    for path in s_.guards:
                        for c, tv in path:
                            if proto.guard_holds(c, tv, env) is None and "next(" not in show(c):
                                unknown_conds.add(show(c)[:80])
                    res.extra.setdefault("unknown_conditions", {}).setdefault(fam, set()).update(unknown_conds)
                    break
                toks2.append((k, v, s_))
            if undec:
                unknown_states += 1
                res.undecided += 1
                continue
            toks = collapse(toks2)
        label = {k: v for k, v in st.items() if k not in LABELS}
        # compare
        bad = None
        if len(toks) != len(want):
            bad = "token count %d, layout has %d" % (len(toks), len(want))
        else:
            for i, ((wk, wv, ws), (sk, sv)) in enumerate(zip(toks, want)):
                if not kinds_match(wk, sk):
                    bad = "position %d: writer emits %s (%s), layout has %s" % (i, wk, show(ws.value)[:50] if ws.value else "", sk)
                    break
                if isinstance(sv, str):
                    sv = LABELS[sv]
                if sv is not None and wv is not None and wv != sv:
                    bad = "position %d (%s): writer value %s = %s, layout requires %s" % (i, wk, show(ws.value)[:60] if ws.value else "?", wv, sv)
                    break
        if bad is not None and len(toks) != len(want):
            # a single value written by the same loop as the repeated group that follows it (`once(a).chain(rest).for_each(write)`):
            # `K, K*` and `K*` cannot be told apart by counting tokens -- if the two sequences agree once such pairs are merged the
            # state is undecided, not a mismatch
            def merged(seq):
                out = []
                for k in seq:
                    if out and k.endswith("*") and out[-1].rstrip("*") == k.rstrip("*"):
                        out[-1] = k
                    elif out and out[-1].endswith("*") and out[-1].rstrip("*") == k.rstrip("*"):
                        continue
                    else:
                        out.append(k)
                return out
            a_, b_ = merged([k for k, v, s_ in toks]), merged([sk for sk, sv in want])
            if len(a_) == len(b_) and all(kinds_match(x, y) for x, y in zip(a_, b_)):
                res.undecided += 1
                unknown_states += 1
                continue
        if bad is None:
            res.discharged += 1
            if n_states <= 2:
                res.sample({"rule": rule + ".L", "family": fam, "state": label, "tokens": ["%s=%s" % (k, v) if v is not None else k for k, v, _ in toks]})
        else:
            res.violate(rule + ".L", "%s.L|%s|%s" % (rule, fam, ",".join("%s=%s" % kv for kv in sorted(label.items()))),
                        "%s image of state %s does not follow the published layout: %s; emitted: %s" % (
                            fam, label, bad, [k for k, v, _ in toks]), f.id)
    if fam in res.extra.get("unknown_conditions", {}):
        res.extra["unknown_conditions"][fam] = sorted(res.extra["unknown_conditions"][fam])[:10]
    res.extra.setdefault("families", {})[fam] = {"write_sites": len(sites), "states": n_states, "undecided_states": unknown_states}
    return n_states


def run(prog, ctx):
    res = Result("C12")
    total = 0
    for fam in sorted(specfmt.FAMILIES):
        total += check_family(prog, res, fam)
    res.rule("C12.L", total, 50, "abstract states x families evaluated against the published layouts")
    und = sum(v["undecided_states"] for v in res.extra["families"].values())
    res.rule("C12.decided", total - und, 50, "states whose token sequence could be decided")
    fams = prog.consts
    ids = {"THETA": 3, "HLL": 7, "FREQUENCY": 10, "CPC": 16, "COUNTMIN": 18, "TDIGEST": 20, "BLOOMFILTER": 21}
    n = 0
    for name, fid in ids.items():
        c = fams.get("codec::family::Family::" + name)
        res.obligations += 1
        n += 1
        if c is not None and isinstance(c.get("v"), dict) and c["v"].get("id") == fid:
            res.discharged += 1
        else:
            res.violate("C12.F", "C12.F|" + name, "family id of %s is %s, the published id is %d" % (name, c.get("v") if c else None, fid))
    # C12.N  compressed theta (serVer 4): the entry count is written in ceil(bit_length(n) / 8) bytes
    def spec_neb(n):
        return (n.bit_length() + 7) // 8
    ns = [0, 1, 2, 127, 128, 255, 256, 257, 300, 65535, 65536, 65537, (1 << 24) - 1, 1 << 24, (1 << 24) + 1, (1 << 31), (1 << 32) - 1]
    nf = C.fn_by_semantics(prog, "theta::sketch", "num_entries_bytes", 1, lambda call: all(call(n) == spec_neb(n) for n in (1, 255, 300, 65535, 70000)))
    n_n = 0
    if nf is not None:
        n_n = 1
        e_ = C.ret_expr(prog, nf)
        verdict, wit = None, ""
        try:
            verdict = True
            for n in ns:
                got = formula.evaluate(e_, {"@prog": prog, nf.local_name(1) or "num_entries": n})
                if got != spec_neb(n):
                    verdict, wit = False, "n=%d: %r byte(s), the format uses %d" % (n, got, spec_neb(n))
                    break
        except (formula.Uneval, TypeError):
            verdict = None
        res.tri(verdict, "C12.N", "C12.N|num_entries_bytes", "%s: %s" % (nf.id, wit), nf.id)
    res.rule("C12.N", n_n, 1, "width of the entry-count field of compressed theta images")
    # ---------------- C12.S frequent items: the image announces `active_items` and then carries that many counters and that many
    # items; the two lists are produced by sibling selectors of the map, which must select on the occupancy array the map itself
    # uses to decide whether a slot is active (a selector keyed on another array writes a different number of entries after a
    # purge has left stale data behind)
    n_s = 0
    M = "frequencies::reverse_purge_item_hash_map::ReversePurgeItemHashMap"

    def elem_field(x):
        """field of self an element expression reads: index(self.F, _) / self.F[_] / next(iter(self.F))"""
        x0 = x
        while isinstance(x, tuple) and x and x[0] == "call" and x[1].rsplit("::", 1)[-1] in ("next", "iter", "into_iter", "deref", "index", "copied", "cloned") and x[2]:
            x = x[2][0]
        if isinstance(x, tuple) and x and x[0] == "index":
            x = x[1]
        if isinstance(x, tuple) and x and x[0] == "field" and x[1][0] == "param" and x[1][1] == 1 and x is not x0:
            return x[2]
        return None
    mfns = [f for f in prog.fns.values() if not f.promoted and f.id.startswith(M) and "{closure" not in f.id]
    occ = set()
    for f in mfns:
        if f.local_ty(0) == "bool" and f.argc == 2:
            e = C.ret_expr(prog, f)
            if e is not None and e[0] == "bin" and e[1] in ("Gt", "Ne") and e[3][:2] == ("const", 0):
                fld = elem_field(e[2])
                if fld:
                    occ.add(fld)
    for f in mfns:
        if "Vec<" not in f.local_ty(0):
            continue
        sf = Sym(prog, f)
        for b, site in f.calls():
            if not (site.get("callee") or "").endswith("::push"):
                continue
            guards = [elem_field(t[1]) for t in sf.cmp_facts_at(b) if len(t) == 3 and t[0] in ("Gt", "Ne") and t[2][:2] == ("const", 0)]
            guards = [g for g in guards if g]
            n_s += 1
            if len(occ) != 1 or len(set(guards)) != 1:
                res.tri(None, "C12.S", "C12.S|%s" % f.id, "selector guard or the map's occupancy test not recognised (occupancy %s, guards %s)" % (sorted(occ), guards), f.id)
                continue
            res.tri(guards[0] in occ, "C12.S", "C12.S|%s" % f.id,
                    "%s selects the entries to serialize by `%s[i] > 0` while the map decides occupancy by `%s[i] > 0`: after a purge the counters / items "
                    "written no longer match the announced number of active items" % (f.id, guards[0], sorted(occ)[0]), f.id, site.get("span"))
    res.rule("C12.S", n_s, 2, "frequent-items selectors vs the map's occupancy test")
    res.rule("C12.F", n, 7, "family ids")
    res.functions_analysed = sum(v["write_sites"] for v in res.extra["families"].values())
    res.entry_points = ["%s::%s" % specfmt.FAMILIES[f]["writer"] for f in sorted(specfmt.FAMILIES)]
    # a theta image is written from the compact form: what compact() hands over (theta, emptiness) is what the image carries
    # ---------------- C12.V  Count-Min counters are written as 8-byte little-endian two's-complement values: a signed counter type
    # narrower than 64 bits has to be sign-extended on the way out.  Decided by where the counter goes inside `to_bytes`: into a cast
    # to a 64-bit integer (extension), or only into the narrow type's own `to_*_bytes` (at most N of the 8 bytes can then depend on
    # it: the upper bytes of a negative counter are not 0xff and the image is rejected / misread by every reader).
    n_v = 0
    for g in sorted(prog.fns.values(), key=lambda x: x.id):
        if g.promoted or g.item_name != "to_bytes" or "CountMinValue>::" not in g.id or g.argc != 1:
            continue
        ty = g.local_ty(1)
        if ty not in ("i8", "i16", "i32"):
            continue
        n_v += 1
        alias = {1}
        wide = narrow = other = 0
        changed = True
        while changed:
            changed = False
            for b in g.blocks:
                for st in b.stmts:
                    if st[0] == "=" and isinstance(st[1], int) and st[2][0] == "use" and st[2][1][0] in ("c", "m") and isinstance(st[2][1][1], int) and st[2][1][1] in alias and st[1] not in alias:
                        alias.add(st[1])
                        changed = True

        def uses(o):
            return isinstance(o, (list, tuple)) and len(o) == 2 and o[0] in ("c", "m") and ir.pl_local(o[1]) in alias
        for b in g.blocks:
            if b.cleanup:
                continue
            for st in b.stmts:
                if st[0] != "=":
                    continue
                rv = st[2]
                if rv[0] == "use":
                    continue
                if rv[0] == "cast" and uses(rv[2]):
                    if rv[1] == "IntToInt" and rv[4] in ("i64", "u64", "i128", "u128", "isize", "usize"):
                        wide += 1
                    else:
                        other += 1
                elif any(uses(o) for o in rv[1:] if isinstance(o, (list, tuple))) or (rv[0] == "ref" and ir.pl_local(rv[2]) in alias):
                    other += 1
            if b.term[0] == "call":
                site = b.term[1]
                if any(uses(a) for a in site["args"]):
                    cal = site.get("callee") or ""
                    if cal.rsplit("::", 1)[-1] in ("to_le_bytes", "to_be_bytes", "to_ne_bytes") and ("<impl %s>" % ty) in cal:
                        narrow += 1
                    elif cal.rsplit("::", 1)[-1] in ("from", "into") and isinstance(site.get("dest"), int) and g.local_ty(site["dest"]) in ("i64", "i128"):
                        wide += 1       # `i64::from(self)`: the lossless (sign-extending) conversion
                    else:
                        other += 1
        ok = True if wide else (False if narrow and not other else None)
        res.tri(ok, "C12.V", "C12.V|%s" % ty, "%s counters leave to_bytes() only through %s::to_*_bytes (%d bytes): the 8-byte field is not the sign-extended "
                "value the layout requires, a negative counter is written zero-extended" % (ty, ty, int(ty[1:]) // 8), g.id,
                sample={"rule": "C12.V", "type": ty, "widening_casts": wide})
    res.rule("C12.V", n_v, 3, "signed Count-Min counter types narrower than 64 bits")
    # an Hll4 image lists one aux pair per exception nibble: a register that keeps the token nibble without an entry (or an entry whose
    # register holds an ordinary nibble) cannot be decoded from the layout
    C.import_rules(res, prog, ctx, "C12.A", "C02", ("C02.A4",), "Hll4 exception nibbles and the aux pairs the image lists", 1)
    C.import_rules(res, prog, ctx, "C12.P", "C04", ("C04.P",), "compact form handed to the theta writer", 1)
    res.explanation = ("writer I/O models (write sites with token kind, value provenance and guards, callees inlined) of the seven families, evaluated "
                       "under every abstract sketch state of specfmt.py and compared token by token with the published layouts")
    res.not_decided = "payload values (register bytes, compressed CPC words, hashes)"
    return res
