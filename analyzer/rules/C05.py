"""C05 — the CPC sketch state is exactly the set of distinct (row, column) coupons seen.

Decided statically (DESIGN §5.5):
  C05.R  derivation: row = h1 & (k-1), col = min(lz(h2), 63), pair = row << 6 | col, sentinel avoidance only for
         u32::MAX (formula evaluated on a grid); hasher seeded with the sketch seed
  C05.N  novelty pairing: num_coupons += 1 and the HIP update happen exactly on the novel edge; the three zones are
         selected by col < offset (delete, inverted logic), col < offset + 8 (window bit), else insert
  C05.F  thresholds: flavor boundaries 32C<3K, 2C<K, 8C<27K; offset = max(0,(8C-19K) >> (lg_k+3)); promotion at
         32C >= 3K; window move at 8C >= (27 + 8*offset)K  (formulas evaluated over lg_k 4..=26 and coupon grids)
  C05.M  window move: window byte = (pattern >> new_offset) & 0xff, offset stored = old + 1, first interesting column
         clamped to the new offset under exactly `fic > new_offset`, KXP refreshed exactly when new_offset & 7 == 0
Not decided: matrix equality for all coupon streams.
"""
import random

from .. import ir, sym, formula
from ..main import Result
from . import common as C
from .common import Sym, show

S = "cpc::sketch::CpcSketch"


def spec_flavor(lg_k, c):
    k = 1 << lg_k
    if c == 0:
        return "Empty"
    if 32 * c < 3 * k:
        return "Sparse"
    if 2 * c < k:
        return "Hybrid"
    if 8 * c < 27 * k:
        return "Pinned"
    return "Sliding"


def spec_offset(lg_k, c):
    k = 1 << lg_k
    t = 8 * c - 19 * k
    return 0 if t < 0 else (t >> (lg_k + 3)) & 0xff


def grid(rnd):
    for lg in range(4, 27):
        k = 1 << lg
        cs = {0, 1, 2, k // 32, 3 * k // 32 - 1, 3 * k // 32, 3 * k // 32 + 1, k // 2 - 1, k // 2, k // 2 + 1, 27 * k // 8 - 1, 27 * k // 8,
              27 * k // 8 + 1, 19 * k // 8, 19 * k // 8 + 1, 4 * k, 8 * k, 30 * k, 58 * k}
        for _ in range(6):
            cs.add(rnd.randrange(0, 60 * k))
        for c in sorted(cs):
            if 0 <= c < 2**32:
                yield lg, c


def run(prog, ctx):
    res = Result("C05")
    upd = C.pub_fn(prog, S, "update")
    res.rule("C05.entry", 1 if upd else 0, 1, "CpcSketch::update")
    if not upd:
        return res
    reach = C.reach_from(prog, [upd])
    res.functions_analysed = len(reach)
    res.entry_points = [upd.id]
    rnd = random.Random(5)

    # ---------------- C05.R
    s = Sym(prog, upd)
    n_r = 0
    for b, site in upd.calls():
        cal = site.get("callee") or ""
        if cal.startswith(S) and len(site["args"]) == 2 and cal != upd.id:
            e = s.at(b).operand(site["args"][1])
            lv = formula.leaves(e)
            h1 = [k for k in lv if k.endswith(".0") and "finish128" in k]
            h2 = [k for k in lv if k.endswith(".1") and "finish128" in k]
            lg = [k for k in lv if k.endswith("lg_k")]
            if not (h1 and h2 and lg):
                continue
            n_r += 1
            res.obligations += 2
            h1, h2, lg = min(h1, key=len), min(h2, key=len), lg[0]
            envs = []
            for L in range(4, 27):
                for _ in range(6):
                    envs.append({h1: rnd.getrandbits(64), h2: rnd.getrandbits(64) >> rnd.randrange(0, 64), lg: L})
                envs.append({h1: (1 << 64) - 1, h2: 0, lg: L})
                envs.append({h1: rnd.getrandbits(64), h2: 1, lg: L})

            def spec(env):
                k = 1 << env[lg]
                col = min(64 - env[h2].bit_length(), 63)
                rc = ((env[h1] & (k - 1)) << 6) | col
                rc &= 0xffffffff
                if rc == 0xffffffff:
                    rc ^= 64
                return rc
            ok, cex, n, why = formula.equivalent(e, spec, envs)
            if ok:
                res.discharged += 1
                res.sample({"rule": "C05.R", "pair": show(e)[:160], "grid_points": n})
            elif ok is False:
                res.violate("C05.R", "C05.R|pair", "the (row, col) pair derived in CpcSketch::update differs from row=h1&(k-1), col=min(lz(h2),63), pair=row<<6|col (e.g. %s)" % (cex,), upd.id, site["span"])
            else:
                res.undecided += 1
            if sym.contains(e, lambda t: t[0] == "field" and t[2] == "seed"):
                res.discharged += 1
            elif sym.contains(e, lambda t: t[0] == "field" and t[1] == ("param", 1, "self") and "seed" in t[2]):
                res.discharged += 1
            elif not sym.contains(e, lambda t: t[0] == "field" and t[1] == ("param", 1, "self") and t[2] != "lg_k"):
                # no field of the sketch other than lg_k flows into the pair: the hasher cannot depend on the configured seed
                res.violate("C05.R", "C05.R|seed", "CpcSketch::update does not seed the hasher with the sketch seed", upd.id)
            else:
                res.undecided += 1
    res.rule("C05.R", n_r, 1, "row/col derivation")

    # ---------------- C05.N novelty pairing
    n_n = 0
    for f in reach:
        if f.owner != S:
            continue
        s = Sym(prog, f)
        incs = [(b, e, span) for b, place, e, span, _s in C.assignments(prog, f)
                if not isinstance(place, int) and place[1][-1][0] == "." and place[1][-1][2] == "num_coupons" and C.is_bin(e, "Add")]
        for b, e, span in incs:
            n_n += 1
            res.obligations += 2
            facts = s.cmp_facts_at(b)
            novel = [x for x in facts if x[0] == "true"]
            if novel:
                res.discharged += 1
            elif facts:
                res.undecided += 1      # guarded by something this rule does not recognise as the novelty flag
            else:
                # unconditional inside a helper: the guard may sit at the helper's call sites (one level up)
                sites = [(g, bb) for g in reach if g.id != f.id for bb, st in g.calls() if st.get("callee") == f.id]
                fs = [(g, bb, Sym(prog, g).cmp_facts_at(bb)) for g, bb in sites]
                if fs and all(any(x[0] == "true" for x in fx) for _g, _bb, fx in fs):
                    res.discharged += 1
                elif fs and all(fx for _g, _bb, fx in fs):
                    res.undecided += 1
                else:
                    res.violate("C05.N", "C05.N|%s|count" % f.id, "num_coupons is incremented in %s unconditionally (not guarded by the novelty of the coupon%s)" % (
                        f.id, ", nor at its call site in %s" % [g.id for g, _bb, fx in fs if not fx][:2] if fs else ""), f.id, span)
            hip = [bb for bb, st in f.calls() if (st.get("callee") or "").endswith("::update_hip")]
            if hip and any(set(repr(x) for x in s.cmp_facts_at(h)) == set(repr(x) for x in facts) for h in hip):
                res.discharged += 1
            elif hip and any(not s.cmp_facts_at(h) for h in hip) and facts:
                res.violate("C05.N", "C05.N|%s|hip" % f.id, "the HIP update in %s runs unconditionally while the coupon count increment is guarded" % f.id, f.id, span)
            else:
                res.undecided += 1
        # zones
        dels = [b for b, st in f.calls() if (st.get("callee") or "").endswith("::maybe_delete")]
        inss = [b for b, st in f.calls() if (st.get("callee") or "").endswith("::maybe_insert")]
        if dels and inss and f.argc >= 2:
            # zones by evaluation of the exact path conditions over every (col, window_offset): early zone (col < offset) reaches
            # the delete, late zone (col >= offset + 8) reaches the insert, the window zone reaches neither and stores
            # old | 1 << (col - offset) into the row's window byte
            pname = f.local_name(2) or "arg2"
            preds_d = [C.path_pred(s, b) for b in dels]
            preds_i = [C.path_pred(s, b) for b in inss]
            stores = list(C.buffer_stores(prog, f, "sliding_window"))
            preds_w = [C.path_pred(s, st[0]) for st in stores]
            bad = {}
            unknown = False
            window = [0x00, 0x01, 0x80, 0x55, 0xff, 0x10, 0x02, 0x7f]
            for off in range(0, 57):
                for col in range(0, 64):
                    for row in (0, 3, 7):
                        env = {"@prog": prog, pname: (row << 6) | col, "self.window_offset": off, "self.sliding_window": window, "self.lg_k": 3}
                        d = [p(env) for p in preds_d]
                        i = [p(env) for p in preds_i]
                        w = [p(env) for p in preds_w]
                        if None in d or None in i:
                            unknown = True
                            continue
                        zone = "early" if col < off else ("late" if col >= off + 8 else "window")
                        if any(d) != (zone == "early"):
                            bad.setdefault("early-zone", "col=%d offset=%d: delete %sreached" % (col, off, "" if any(d) else "not "))
                        if any(i) != (zone == "late"):
                            bad.setdefault("late-zone", "col=%d offset=%d: insert %sreached" % (col, off, "" if any(i) else "not "))
                        if zone != "window" and any(x is True for x in w):
                            bad.setdefault("window-zone", "col=%d offset=%d: window byte stored outside the window zone" % (col, off))
                        if zone == "window":
                            for (b_, base, ie, val, span, _s), wp in zip(stores, w):
                                if wp is not True:
                                    continue
                                try:
                                    ri = formula.evaluate(ie, env)
                                    nv = formula.evaluate(val, env)
                                except (formula.Uneval, IndexError, TypeError):
                                    unknown = True
                                    continue
                                if ri != row or (nv & 0xff) != (window[row] | (1 << (col - off))) & 0xff:
                                    bad.setdefault("window-zone", "col=%d offset=%d row=%d: stores %r at row %r, expected %r" % (col, off, row, nv, ri, window[row] | (1 << (col - off))))
                            if not any(x is True for x in w) and not (window[row] >> (col - off)) & 1 and stores:
                                bad.setdefault("window-zone", "col=%d offset=%d row=%d: a new window bit is not stored" % (col, off, row))
            msgs = {"early-zone": "maybe_delete (early zone) in %s is not selected exactly by col < window_offset" % f.id,
                    "late-zone": "maybe_insert (late zone) in %s is not selected exactly by col >= window_offset + 8" % f.id,
                    "window-zone": "the window zone of %s does not store old | 1 << (col - offset) exactly for offset <= col < offset + 8" % f.id}
            for k in ("early-zone", "late-zone", "window-zone"):
                res.tri(False if k in bad else (None if unknown else True), "C05.N", "C05.N|%s|%s" % (f.id, k), msgs[k] + (": " + bad[k] if k in bad else ""), f.id)
    # ordering: the HIP registers are advanced for a new coupon before the window can move (move_window recomputes KXP from the
    # matrix that already contains the coupon; advancing afterwards subtracts the coupon's probability twice)
    cs_fields = [x[0] for v in prog.adts.get(S, {}).get("variants", []) for x in v.get("fields", [])]
    if "hip_est_accum" in cs_fields and "window_offset" in cs_fields:
        _e = {}

        def eff(callee, fld):
            if not callee or callee not in prog.fns:
                return False
            if (callee, fld) not in _e:
                _e[(callee, fld)] = any(True for g_ in C.reach_from(prog, [callee]) if g_.owner == S for _ in sym.field_stores(prog, adt=S, field=fld, fns=[g_]))
            return _e[(callee, fld)]
        for f in reach:
            if f.owner != S:
                continue
            sf = Sym(prog, f, ifconv=False)
            hips = [b for b, st in f.calls() if eff(st.get("callee"), "hip_est_accum") and not eff(st.get("callee"), "window_offset")]
            moves = [b for b, st in f.calls() if eff(st.get("callee"), "window_offset")]
            for hb in hips:
                if not moves:
                    continue
                res.obligations += 1
                if any(mb != hb and sf._reaches(mb, hb) for mb in moves):
                    res.violate("C05.N", "C05.N|%s|hip-after-move" % f.id, "%s can advance the HIP registers after the window has moved: the KXP refresh already accounted for the new coupon" % f.id, f.id, f.blocks[hb].term[1].get("span"))
                else:
                    res.discharged += 1
    res.rule("C05.N", n_n, 2, "coupon count increments")

    # ---------------- C05.F thresholds
    n_f = 0
    df = prog.fns.get("cpc::determine_flavor")
    do = prog.fns.get("cpc::determine_correct_offset")
    for f, spec, nm in ((df, None, "flavor"), (do, None, "offset")):
        if f is None:
            res.obligations += 1
            res.undecided += 1      # internal helper renamed or inlined
            continue
        s = Sym(prog, f)
        rets = [b.idx for b in f.blocks if b.term[0] == "return" and not b.cleanup]
        e = s.at(rets[0]).local(0) if rets else ("unknown",)
        lv = formula.leaves(e)
        lgk = [k for k in lv if k == "lg_k"]
        ck = [k for k in lv if k == "num_coupons"]
        n_f += 1
        res.obligations += 1
        if not lgk or not ck or sym.contains(e, lambda t: t[0] in ("var", "unknown")):
            res.undecided += 1
            continue
        bad = None
        n = 0
        for L, c in grid(rnd):
            env = {"lg_k": L, "num_coupons": c}
            try:
                got = _eval_enum(e, env)
            except formula.Uneval as u:
                bad = ("uneval", str(u))
                break
            want = spec_flavor(L, c) if nm == "flavor" else spec_offset(L, c)
            n += 1
            if got != want:
                bad = (env, got, want)
                break
        if bad is None:
            res.discharged += 1
            res.sample({"rule": "C05.F", "fn": f.id, "grid_points": n})
        elif bad[0] == "uneval":
            res.undecided += 1
        else:
            res.violate("C05.F", "C05.F|" + nm, "determine_%s differs from the published thresholds at %s: got %s, expected %s" % (nm, bad[0], bad[1], bad[2]), f.id)
    # promotion and window-move conditions
    for f in reach:
        if f.owner != S:
            continue
        s = Sym(prog, f)
        for b, site in f.calls():
            cal = site.get("callee") or ""
            if cal.endswith("::promote_sparse_to_windowed") or cal.endswith("::move_window"):
                n_f += 1
                res.obligations += 1
                fx = [x for x in s.cmp_facts_at(b) if len(x) == 3 and x[0] in ("Ge", "Le", "Gt", "Lt", "Eq", "Ne")]
                ok = False
                why = None
                for x in fx:
                    cond = ("bin", x[0], x[1], x[2])
                    lv = formula.leaves(cond)
                    ck = [k for k in lv if k.endswith("num_coupons")]
                    lk = [k for k in lv if k.endswith("lg_k")]
                    ok_ = [k for k in lv if k.endswith("window_offset")]
                    if not ck or not lk:
                        continue
                    envs = []
                    for L, c in grid(rnd):
                        for off in ((0,) if not ok_ else (0, 1, 7, 8, 30, 55)):
                            env = {ck[0]: c, lk[0]: L}
                            if ok_:
                                env[ok_[0]] = off
                            envs.append(env)
                    if cal.endswith("promote_sparse_to_windowed"):
                        spec = lambda env: int(32 * env[ck[0]] >= 3 * (1 << env[lk[0]]))
                    else:
                        spec = lambda env: int(8 * env[ck[0]] >= (27 + 8 * env[ok_[0]]) * (1 << env[lk[0]])) if ok_ else 0
                    r, cex, n, w = formula.equivalent(cond, spec, envs)
                    if r:
                        ok = True
                    elif r is False:
                        why = cex
                if ok:
                    res.discharged += 1
                elif why is None:
                    res.undecided += 1      # no guard over (num_coupons, lg_k) recognised at this call
                else:
                    res.violate("C05.F", "C05.F|%s|%s" % (f.id, cal.rsplit("::", 1)[-1]),
                                "the condition guarding %s in %s differs from the published threshold%s" % (cal.rsplit("::", 1)[-1], f.id, " (e.g. %s)" % (why,) if why else ""), f.id, site["span"])
    res.rule("C05.F", n_f, 4, "threshold formulas")

    # ---------------- C05.M window move
    mw = C.fn_one(prog, S, "move_window")
    n_m = 0
    if mw is None:
        res.obligations += 1
        res.undecided += 1
    else:
        s = Sym(prog, mw)
        new_off = None
        for b, place, e, span, _s in C.assignments(prog, mw):
            if not isinstance(place, int) and place[1][-1][0] == "." and place[1][-1][2] == "window_offset":
                new_off = C.resolve_var(prog, mw, e, _s)
        # exit values of the two fields, evaluated: window_offset' = window_offset + 1; first_interesting_column' =
        # min(trailing zeros of the OR of all surprising bits, window_offset')
        n_m += 1
        eo = s.field_exit_value("window_offset") or s.field_exit_value_seq("window_offset")
        ef = s.field_exit_value_seq("first_interesting_column")
        vo = vf = None
        try:
            if eo is not None:
                vo = all(formula.evaluate(eo, {"@prog": prog, "self.window_offset": o}) == o + 1 for o in range(0, 56))
        except formula.Uneval:
            vo = None
        try:
            if ef is not None:
                vf = True
                for o in (0, 1, 7, 30, 55):
                    for tz in (0, 1, 5, 8, 31, 56, 63, 64):
                        for old in (0, 3, 40, 63):
                            env = {"@prog": prog, "self.window_offset": o, "self.first_interesting_column": old}
                            for k_, n_ in formula.leaves(ef).items():
                                if n_[0] == "var":
                                    env[k_] = (1 << tz) if tz < 64 else 0      # the OR of all surprising bits, lowest set bit = tz
                            got = formula.evaluate(ef, env)
                            if got != min(tz, o + 1):
                                vf = False
        except formula.Uneval:
            vf = None
        res.tri(vo, "C05.M", "C05.M|offset", "move_window does not leave window_offset + 1 in window_offset (%s)" % (show(eo)[:80] if eo else "no closed form"), mw.id)
        res.tri(vf, "C05.M", "C05.M|fic-clamp", "move_window does not leave min(first surprising column, new offset) in first_interesting_column (%s)" % (show(ef)[:120] if ef else "no closed form"), mw.id)
        if vf:
            n_m += 1
        # window byte
        res.obligations += 1
        okw = False
        for (b, base, ie, val, span, _s) in C.buffer_stores(prog, mw, "sliding_window"):
            sh = C.find_sub(val, lambda t: C.is_bin(t, "Shr"))
            if sh is not None and new_off is not None and sh[3] == new_off and 255 in C.consts_in(val):
                okw = True
        if okw:
            res.discharged += 1
            n_m += 1
        else:
            # positive evidence only: a window store whose shift amount is recognisably the *old* offset
            stale = False
            for (b, base, ie, val, span, _s) in C.buffer_stores(prog, mw, "sliding_window"):
                sh = C.find_sub(val, lambda t: C.is_bin(t, "Shr"))
                if sh is not None and sh[3] == ("field", ("param", 1, "self"), "window_offset") and new_off is not None and sh[3] != new_off:
                    stale = True
            if stale:
                res.violate("C05.M", "C05.M|window-byte", "move_window shifts the row pattern by the old window offset when refilling the window", mw.id)
            else:
                res.undecided += 1
        # kxp refresh
        res.obligations += 1
        okk = False
        for b, site in mw.calls():
            if (site.get("callee") or "").endswith("::refresh_kxp"):
                for x in s.cmp_facts_at(b):
                    if len(x) == 3 and x[0] == "Eq" and (C.const_of(x[1]) == 0 or C.const_of(x[2]) == 0):
                        other = x[2] if C.const_of(x[1]) == 0 else x[1]
                        if C.is_bin(other, "BitAnd") and 7 in C.consts_in(other):
                            okk = True
        if okk:
            res.discharged += 1
            n_m += 1
        else:
            # by value: the refresh call must be reached exactly for the offsets whose successor is a multiple of 8
            verdict = None
            calls = [b for b, site in mw.calls() if (site.get("callee") or "").endswith("::refresh_kxp")]
            if calls:
                fp = C.facts_pred(s, calls[0])
                verdict = True
                for o in range(0, 56):
                    holds, n_ev = fp({"@prog": prog, "self.window_offset": o})
                    if n_ev == 0:
                        verdict = None
                        break
                    if holds != (((o + 1) & 7) == 0):
                        verdict = False
            if verdict is True:
                res.discharged += 1
                n_m += 1
            elif verdict is False:
                res.violate("C05.M", "C05.M|kxp", "move_window does not refresh KXP exactly when new_offset & 7 == 0", mw.id)
            else:
                res.undecided += 1
    # ---------------- C05.M (table) the window and the surprising-value table describe the matrix *together*: entries are relative to
    # the window's offset (1-bits above it, 0-bits below it).  A path that advances `window_offset` without going through a call that
    # rewrites the table leaves entries that mean something else under the new offset (or misses the rows whose lowest window bit
    # turns into a surprising zero).  By paths: entry -> store -> return avoiding every block that calls into the table mutably.
    if mw is not None:
        tab_calls = set()
        for b, site in mw.calls():
            cal = site.get("callee") or ""
            tys = []
            g_ = prog.fns.get(cal)
            if g_ is not None and g_.argc >= 1:
                tys = [g_.local_ty(1)]
            if any(t.startswith("&mut") and "PairTable" in t for t in tys) or (cal.rsplit("::", 1)[-1].startswith("mut_") and "table" in cal):
                tab_calls.add(b)
            elif g_ is not None and g_.id != mw.id and any(t.startswith("&mut") for t in tys):
                # a helper that takes the sketch mutably and reaches a routine working on the table
                if any(h_.argc >= 1 and h_.local_ty(1).startswith("&mut") and "PairTable" in h_.local_ty(1) for h_ in C.reach_from(prog, [g_.id])):
                    tab_calls.add(b)
        stores = [bb for (ff, bb, kind, place, rv, span, adt, fld) in sym.field_stores(prog, adt=S, field="window_offset", fns=[mw]) if kind == "assign"]
        for bb in stores:
            n_m += 1
            if not tab_calls:
                res.tri(None, "C05.M", "C05.M|table", "no call into the pair table found in move_window")
                continue
            # a path entry -> bb avoiding the table calls, and bb -> return avoiding them
            seen = {0}
            st_ = [0]
            hit = (0 == bb)
            while st_ and not hit:
                x = st_.pop()
                for y in mw.succs(x):
                    if y in seen or y in tab_calls:
                        continue
                    if y == bb:
                        hit = True
                        break
                    seen.add(y)
                    st_.append(y)
            bad = hit and bb not in tab_calls and s.reaches_exit_avoiding(bb, tab_calls)
            res.tri(not bad, "C05.M", "C05.M|table", "move_window has a path that stores the new window_offset and returns without rewriting the surprising-value table: "
                    "the table's entries are relative to the old offset and the rows whose lowest window bit is 0 lose their surprising zero", mw.id)
    res.rule("C05.M", n_m, 4, "window-move obligations")
    # ---------------- C05.D deletion from the open-addressing pair table: the run after the freed slot is re-inserted up to
    # the next EMPTY slot; nothing else may end the scan (an item left behind a hole is unreachable for lookup)
    n_d = 0
    for f in C.fns_of(prog, "cpc::pair_table::PairTable"):
        sf = Sym(prog, f, ifconv=False)
        for header, body in sf.loops():
            stores_empty = False
            reinserts = False
            for b in body:
                for st in f.blocks[b].stmts:
                    if st[0] == "=" and not isinstance(st[1], int) and any(p[0] in ("[]", "[c]") for p in st[1][1]) and sf.rvalue(st[2]) == ("const", 4294967295):
                        stores_empty = True
                t = f.blocks[b].term
                if t[0] == "call" and (t[1].get("callee") or "").rsplit("::", 1)[-1] in ("must_insert", "maybe_insert", "insert"):
                    reinserts = True
                if t[0] == "call" and (t[1].get("callee") or "").endswith("index_mut"):
                    pass
            # stores through IndexMut
            for bb, base, ie, val, span, _s in C.buffer_stores(prog, f):
                if bb in body and val == ("const", 4294967295):
                    stores_empty = True
            if not (stores_empty and reinserts):
                continue
            n_d += 1
            res.obligations += 1
            bad = None
            for x, cond, _ in C.loop_exits(prog, f, sf, header, body):
                if cond is None:
                    continue
                is_empty_test = cond[0] == "bin" and cond[1] in ("Eq", "Ne") and (C.const_of(cond[2]) == 4294967295 or C.const_of(cond[3]) == 4294967295)
                if not is_empty_test:
                    bad = show(cond)
            if bad is None:
                res.discharged += 1
            else:
                res.violate("C05.D", "C05.D|%s" % f.id, "%s: the re-insertion scan after a deletion can stop before the next empty slot (extra exit condition %s); items behind the hole become unreachable" % (f.id, bad[:120]), f.id)
    res.rule("C05.D", n_d, 1, "re-insertion scans after deletion in the pair table")
    # ---------------- C05.K a decision taken after an insertion looks at the count after it (common.stale_count_decisions)
    C.stale_count_rule(res, prog, "C05.K", "cpc::", "CPC sketch")
    # ---------------- C05.Z a table and the recorded log2 of its size change together: no callee sees one without the other
    n_z = 0
    n_z += C.coupled_store_rule(res, prog, "C05.Z", "cpc::pair_table::PairTable", "slots", "lg_size")
    res.rule("C05.Z", n_z, 0, "table / size field pairs")
    # floating-point items are canonicalised the way Java's doubleToLongBits does (C16.D, by value)
    C.import_rules(res, prog, ctx, "C05.R.f64", "C16", ("C16.D",), "the item a CPC sketch hashes for a double", 0, key_filter=lambda k: "f64|cpc::" in k)
    # the hash every slot / row / bucket is derived from is the published one for every way of feeding it (C16 rules on the murmur state)
    C.import_rules(res, prog, ctx, "C05.H", "C16", ("C16.B", "C16.C", "C16.T", "C16.K", "C16.W"), "MurmurHash3 the CPC row / column are derived from", 0, key_filter=lambda k: "urmur" in k)
    res.explanation = ("structural and formula rules over the %d functions reachable from CpcSketch::update; threshold formulas are evaluated on a grid of "
                       "lg_k 4..=26 x boundary/random coupon counts" % len(reach))
    res.not_decided = "equality of the reconstructed matrix with the model for all coupon streams"
    return res


def _eval_enum(e, env):
    """evaluate a nested select whose leaves are unit enum aggregates or integers"""
    if e[0] == "select":
        c = formula.evaluate(e[1], env)
        return _eval_enum(e[2] if c else e[3], env)
    if e[0] == "agg":
        return e[1].rsplit("::", 1)[-1]
    return formula.evaluate(e, env)
