"""C05 — the CPC sketch state is exactly the set of distinct (row, column) coupons seen.

Decided statically (DESIGN §5.5):
  C05.R  derivation: row = h1 & (k-1), col = min(lz(h2), 63), pair = row << 6 | col, sentinel avoidance only for
         u32::MAX (formula evaluated on a grid); hasher seeded with the sketch seed
  C05.N  novelty pairing: num_coupons += 1 and the HIP update happen exactly on the novel edge; the three zones are
         selected by col < offset (delete, inverted logic), col < offset + 8 (window bit), else insert
  C05.F  thresholds: flavor boundaries 32C<3K, 2C<K, 8C<27K; offset = max(0,(8C-19K) >> (lg_k+3)); promotion at
         32C >= 3K; window move at 8C >= (27 + 8*offset)K  (formulas evaluated over lg_k 4..=26 and coupon grids)
  C05.M  window move: window byte = (pattern >> new_offset) & 0xff, offset stored = old + 1, first interesting column
         clamped to the new offset under exactly `fic > new_offset`, KXP refreshed exactly when new_offset & 7 == 0
Not decided: matrix equality for all coupon streams.
"""
import random

from .. import ir, sym, formula
from ..main import Result
from . import common as C
from .common import Sym, show

S = "cpc::sketch::CpcSketch"


def spec_flavor(lg_k, c):
    k = 1 << lg_k
    if c == 0:
        return "Empty"
    if 32 * c < 3 * k:
        return "Sparse"
    if 2 * c < k:
        return "Hybrid"
    if 8 * c < 27 * k:
        return "Pinned"
    return "Sliding"


def spec_offset(lg_k, c):
    k = 1 << lg_k
    t = 8 * c - 19 * k
    return 0 if t < 0 else (t >> (lg_k + 3)) & 0xff


def grid(rnd):
    for lg in range(4, 27):
        k = 1 << lg
        cs = {0, 1, 2, k // 32, 3 * k // 32 - 1, 3 * k // 32, 3 * k // 32 + 1, k // 2 - 1, k // 2, k // 2 + 1, 27 * k // 8 - 1, 27 * k // 8,
              27 * k // 8 + 1, 19 * k // 8, 19 * k // 8 + 1, 4 * k, 8 * k, 30 * k, 58 * k}
        for _ in range(6):
            cs.add(rnd.randrange(0, 60 * k))
        for c in sorted(cs):
            if 0 <= c < 2**32:
                yield lg, c


def run(prog, ctx):
    res = Result("C05")
    upd = C.pub_fn(prog, S, "update")
    res.rule("C05.entry", 1 if upd else 0, 1, "CpcSketch::update")
    if not upd:
        return res
    reach = C.reach_from(prog, [upd])
    res.functions_analysed = len(reach)
    res.entry_points = [upd.id]
    rnd = random.Random(5)

    # ---------------- C05.R
    s = Sym(prog, upd)
    n_r = 0
    for b, site in upd.calls():
        cal = site.get("callee") or ""
        if cal.startswith(S) and len(site["args"]) == 2 and cal != upd.id:
            e = s.at(b).operand(site["args"][1])
            lv = formula.leaves(e)
            h1 = [k for k in lv if k.endswith(".0") and "finish128" in k]
            h2 = [k for k in lv if k.endswith(".1") and "finish128" in k]
            lg = [k for k in lv if k.endswith("lg_k")]
            if not (h1 and h2 and lg):
                continue
            n_r += 1
            res.obligations += 2
            h1, h2, lg = min(h1, key=len), min(h2, key=len), lg[0]
            envs = []
            for L in range(4, 27):
                for _ in range(6):
                    envs.append({h1: rnd.getrandbits(64), h2: rnd.getrandbits(64) >> rnd.randrange(0, 64), lg: L})
                envs.append({h1: (1 << 64) - 1, h2: 0, lg: L})
                envs.append({h1: rnd.getrandbits(64), h2: 1, lg: L})

            def spec(env):
                k = 1 << env[lg]
                col = min(64 - env[h2].bit_length(), 63)
                rc = ((env[h1] & (k - 1)) << 6) | col
                rc &= 0xffffffff
                if rc == 0xffffffff:
                    rc ^= 64
                return rc
            ok, cex, n, why = formula.equivalent(e, spec, envs)
            if ok:
                res.discharged += 1
                res.sample({"rule": "C05.R", "pair": show(e)[:160], "grid_points": n})
            elif ok is False:
                res.violate("C05.R", "C05.R|pair", "the (row, col) pair derived in CpcSketch::update differs from row=h1&(k-1), col=min(lz(h2),63), pair=row<<6|col (e.g. %s)" % (cex,), upd.id, site["span"])
            else:
                res.undecided += 1
            if sym.contains(e, lambda t: t[0] == "field" and t[2] == "seed"):
                res.discharged += 1
            else:
                res.violate("C05.R", "C05.R|seed", "CpcSketch::update does not seed the hasher with the sketch seed", upd.id)
    res.rule("C05.R", n_r, 1, "row/col derivation")

    # ---------------- C05.N novelty pairing
    n_n = 0
    for f in reach:
        if f.owner != S:
            continue
        s = Sym(prog, f)
        incs = [(b, e, span) for b, place, e, span, _s in C.assignments(prog, f)
                if not isinstance(place, int) and place[1][-1][0] == "." and place[1][-1][2] == "num_coupons" and C.is_bin(e, "Add")]
        for b, e, span in incs:
            n_n += 1
            res.obligations += 2
            facts = s.cmp_facts_at(b)
            novel = [x for x in facts if x[0] == "true"]
            if novel:
                res.discharged += 1
            else:
                res.violate("C05.N", "C05.N|%s|count" % f.id, "num_coupons is incremented in %s without being guarded by the novelty flag" % f.id, f.id, span)
            hip = [bb for bb, st in f.calls() if (st.get("callee") or "").endswith("::update_hip")]
            if hip and any(set(repr(x) for x in s.cmp_facts_at(h)) == set(repr(x) for x in facts) for h in hip):
                res.discharged += 1
            else:
                res.violate("C05.N", "C05.N|%s|hip" % f.id, "the HIP update in %s is not paired with the coupon count increment" % f.id, f.id, span)
        # zones
        dels = [b for b, st in f.calls() if (st.get("callee") or "").endswith("::maybe_delete")]
        inss = [b for b, st in f.calls() if (st.get("callee") or "").endswith("::maybe_insert")]
        if dels:
            col_e = None
            for b in dels:
                res.obligations += 1
                ok = any(x[0] == "Lt" and len(x) == 3 and show(x[2]).endswith("window_offset") for x in s.cmp_facts_at(b))
                if ok:
                    res.discharged += 1
                else:
                    res.violate("C05.N", "C05.N|%s|early-zone" % f.id, "maybe_delete (early zone) in %s is not selected by col < window_offset" % f.id, f.id)
            for b in inss:
                res.obligations += 1
                fx = s.cmp_facts_at(b)
                ok = any(x[0] == "Ge" and len(x) == 3 and C.is_bin(x[2], "Add") and 8 in C.consts_in(x[2]) and "window_offset" in show(x[2]) for x in fx)
                if ok:
                    res.discharged += 1
                else:
                    res.violate("C05.N", "C05.N|%s|late-zone" % f.id, "maybe_insert (late zone) in %s is not selected by col >= window_offset + 8" % f.id, f.id)
            for (b, base, ie, val, span, _s) in C.buffer_stores(prog, f, "sliding_window"):
                res.obligations += 1
                fx = s.cmp_facts_at(b)
                ok = any(x[0] == "Ne" for x in fx) and any(x[0] == "Lt" and len(x) == 3 and 8 in C.consts_in(x[2]) for x in fx) and \
                    any(x[0] == "Ge" and len(x) == 3 and show(x[2]).endswith("window_offset") for x in fx)
                bit = C.find_sub(val, lambda t: C.is_bin(t, "Shl") and C.const_of(t[2]) == 1)
                ok = ok and bit is not None and C.is_bin(bit[3], "Sub") and "window_offset" in show(bit[3][3]) and C.is_bin(val, "BitOr")
                if ok:
                    res.discharged += 1
                else:
                    res.violate("C05.N", "C05.N|%s|window-zone" % f.id, "the window bit store in %s is not `old | 1 << (col - offset)` under offset <= col < offset + 8 and old != new" % f.id, f.id, span)
    res.rule("C05.N", n_n, 2, "coupon count increments")

    # ---------------- C05.F thresholds
    n_f = 0
    df = prog.fns.get("cpc::determine_flavor")
    do = prog.fns.get("cpc::determine_correct_offset")
    for f, spec, nm in ((df, None, "flavor"), (do, None, "offset")):
        if f is None:
            res.violate("C05.F", "C05.F|missing|" + nm, "cpc::determine_%s no longer exists" % nm)
            continue
        s = Sym(prog, f)
        rets = [b.idx for b in f.blocks if b.term[0] == "return" and not b.cleanup]
        e = s.at(rets[0]).local(0) if rets else ("unknown",)
        lv = formula.leaves(e)
        lgk = [k for k in lv if k == "lg_k"]
        ck = [k for k in lv if k == "num_coupons"]
        n_f += 1
        res.obligations += 1
        if not lgk or not ck or sym.contains(e, lambda t: t[0] in ("var", "unknown")):
            res.undecided += 1
            continue
        bad = None
        n = 0
        for L, c in grid(rnd):
            env = {"lg_k": L, "num_coupons": c}
            try:
                got = _eval_enum(e, env)
            except formula.Uneval as u:
                bad = ("uneval", str(u))
                break
            want = spec_flavor(L, c) if nm == "flavor" else spec_offset(L, c)
            n += 1
            if got != want:
                bad = (env, got, want)
                break
        if bad is None:
            res.discharged += 1
            res.sample({"rule": "C05.F", "fn": f.id, "grid_points": n})
        elif bad[0] == "uneval":
            res.undecided += 1
        else:
            res.violate("C05.F", "C05.F|" + nm, "determine_%s differs from the published thresholds at %s: got %s, expected %s" % (nm, bad[0], bad[1], bad[2]), f.id)
    # promotion and window-move conditions
    for f in reach:
        if f.owner != S:
            continue
        s = Sym(prog, f)
        for b, site in f.calls():
            cal = site.get("callee") or ""
            if cal.endswith("::promote_sparse_to_windowed") or cal.endswith("::move_window"):
                n_f += 1
                res.obligations += 1
                fx = [x for x in s.cmp_facts_at(b) if len(x) == 3 and x[0] in ("Ge", "Le", "Gt", "Lt")]
                ok = False
                why = None
                for x in fx:
                    cond = ("bin", x[0], x[1], x[2])
                    lv = formula.leaves(cond)
                    ck = [k for k in lv if k.endswith("num_coupons")]
                    lk = [k for k in lv if k.endswith("lg_k")]
                    ok_ = [k for k in lv if k.endswith("window_offset")]
                    if not ck or not lk:
                        continue
                    envs = []
                    for L, c in grid(rnd):
                        for off in ((0,) if not ok_ else (0, 1, 7, 8, 30, 55)):
                            env = {ck[0]: c, lk[0]: L}
                            if ok_:
                                env[ok_[0]] = off
                            envs.append(env)
                    if cal.endswith("promote_sparse_to_windowed"):
                        spec = lambda env: int(32 * env[ck[0]] >= 3 * (1 << env[lk[0]]))
                    else:
                        spec = lambda env: int(8 * env[ck[0]] >= (27 + 8 * env[ok_[0]]) * (1 << env[lk[0]])) if ok_ else 0
                    r, cex, n, w = formula.equivalent(cond, spec, envs)
                    if r:
                        ok = True
                    elif r is False:
                        why = cex
                if ok:
                    res.discharged += 1
                else:
                    res.violate("C05.F", "C05.F|%s|%s" % (f.id, cal.rsplit("::", 1)[-1]),
                                "the condition guarding %s in %s differs from the published threshold%s" % (cal.rsplit("::", 1)[-1], f.id, " (e.g. %s)" % (why,) if why else ""), f.id, site["span"])
    res.rule("C05.F", n_f, 4, "threshold formulas")

    # ---------------- C05.M window move
    mw = C.fn_one(prog, S, "move_window")
    n_m = 0
    if mw is None:
        res.violate("C05.M", "C05.M|missing", "CpcSketch::move_window no longer exists")
    else:
        s = Sym(prog, mw)
        new_off = None
        for b, place, e, span, _s in C.assignments(prog, mw):
            if not isinstance(place, int) and place[1][-1][0] == "." and place[1][-1][2] == "window_offset":
                new_off = C.resolve_var(prog, mw, e, _s)
        n_m += 1
        res.obligations += 1
        if new_off is not None and C.is_bin(new_off, "Add") and 1 in C.consts_in(new_off) and "window_offset" in show(new_off):
            res.discharged += 1
        else:
            res.violate("C05.M", "C05.M|offset", "move_window does not store window_offset + 1 (stores %s)" % (show(new_off) if new_off else "nothing"), mw.id)
        # fic clamp
        fic_stores = [(b, C.resolve_var(prog, mw, e, _s), span) for b, place, e, span, _s in C.assignments(prog, mw)
                      if not isinstance(place, int) and place[1][-1][0] == "." and place[1][-1][2] == "first_interesting_column"]
        res.obligations += 1
        okc = False
        for b, e, span in fic_stores:
            if new_off is not None and e == new_off:
                fx = [x for x in s.cmp_facts_at(b) if len(x) == 3]
                extra = [x for x in fx if not (x[0] in ("false",))]
                gt = [x for x in fx if (x[0] == "Gt" and "first_interesting_column" in show(x[1]) and x[2] == new_off) or
                      (x[0] == "Lt" and "first_interesting_column" in show(x[2]) and x[1] == new_off)]
                others = [x for x in fx if x not in gt and x[0] in ("Gt", "Lt", "Ge", "Le", "Eq", "Ne")]
                if gt and not others:
                    okc = True
        if okc:
            res.discharged += 1
            n_m += 1
        else:
            res.violate("C05.M", "C05.M|fic-clamp", "move_window does not clamp first_interesting_column to the new offset under exactly `fic > new_offset`", mw.id)
        # window byte
        res.obligations += 1
        okw = False
        for (b, base, ie, val, span, _s) in C.buffer_stores(prog, mw, "sliding_window"):
            sh = C.find_sub(val, lambda t: C.is_bin(t, "Shr"))
            if sh is not None and new_off is not None and sh[3] == new_off and 255 in C.consts_in(val):
                okw = True
        if okw:
            res.discharged += 1
            n_m += 1
        else:
            res.violate("C05.M", "C05.M|window-byte", "move_window does not store (pattern >> new_offset) & 0xff into the window", mw.id)
        # kxp refresh
        res.obligations += 1
        okk = False
        for b, site in mw.calls():
            if (site.get("callee") or "").endswith("::refresh_kxp"):
                for x in s.cmp_facts_at(b):
                    if len(x) == 3 and x[0] == "Eq" and (C.const_of(x[1]) == 0 or C.const_of(x[2]) == 0):
                        other = x[2] if C.const_of(x[1]) == 0 else x[1]
                        if C.is_bin(other, "BitAnd") and 7 in C.consts_in(other):
                            okk = True
        if okk:
            res.discharged += 1
            n_m += 1
        else:
            res.violate("C05.M", "C05.M|kxp", "move_window does not refresh KXP exactly when new_offset & 7 == 0", mw.id)
    res.rule("C05.M", n_m, 4, "window-move obligations")
    # ---------------- C05.D deletion from the open-addressing pair table: the run after the freed slot is re-inserted up to
    # the next EMPTY slot; nothing else may end the scan (an item left behind a hole is unreachable for lookup)
    n_d = 0
    for f in C.fns_of(prog, "cpc::pair_table::PairTable"):
        sf = Sym(prog, f, ifconv=False)
        for header, body in sf.loops():
            stores_empty = False
            reinserts = False
            for b in body:
                for st in f.blocks[b].stmts:
                    if st[0] == "=" and not isinstance(st[1], int) and any(p[0] in ("[]", "[c]") for p in st[1][1]) and sf.rvalue(st[2]) == ("const", 4294967295):
                        stores_empty = True
                t = f.blocks[b].term
                if t[0] == "call" and (t[1].get("callee") or "").rsplit("::", 1)[-1] in ("must_insert", "maybe_insert", "insert"):
                    reinserts = True
                if t[0] == "call" and (t[1].get("callee") or "").endswith("index_mut"):
                    pass
            # stores through IndexMut
            for bb, base, ie, val, span, _s in C.buffer_stores(prog, f):
                if bb in body and val == ("const", 4294967295):
                    stores_empty = True
            if not (stores_empty and reinserts):
                continue
            n_d += 1
            res.obligations += 1
            bad = None
            for x, cond, _ in C.loop_exits(prog, f, sf, header, body):
                if cond is None:
                    continue
                is_empty_test = cond[0] == "bin" and cond[1] in ("Eq", "Ne") and (C.const_of(cond[2]) == 4294967295 or C.const_of(cond[3]) == 4294967295)
                if not is_empty_test:
                    bad = show(cond)
            if bad is None:
                res.discharged += 1
            else:
                res.violate("C05.D", "C05.D|%s" % f.id, "%s: the re-insertion scan after a deletion can stop before the next empty slot (extra exit condition %s); items behind the hole become unreachable" % (f.id, bad[:120]), f.id)
    res.rule("C05.D", n_d, 1, "re-insertion scans after deletion in the pair table")
    res.explanation = ("structural and formula rules over the %d functions reachable from CpcSketch::update; threshold formulas are evaluated on a grid of "
                       "lg_k 4..=26 x boundary/random coupon counts" % len(reach))
    res.not_decided = "equality of the reconstructed matrix with the model for all coupon streams"
    return res


def _eval_enum(e, env):
    """evaluate a nested select whose leaves are unit enum aggregates or integers"""
    if e[0] == "select":
        c = formula.evaluate(e[1], env)
        return _eval_enum(e[2] if c else e[3], env)
    if e[0] == "agg":
        return e[1].rsplit("::", 1)[-1]
    return formula.evaluate(e, env)
