"""C02 — an HLL sketch holds exactly the per-slot maximum of every item it was fed.

Decided statically (necessary structural conditions, DESIGN §5.2):
  C02.G  guarded max-write: every register store reachable from HllSketch::update is dominated by `new > old` (strict)
  C02.M  slot derivation  slot = (coupon & (2^26-1)) & (2^lg_k - 1), value = coupon >> 26   (formula evaluated on a grid)
  C02.P  estimator pairing: the register store is preceded by HipEstimator::update(lg_k, old, new) in that role order;
         the zero counter is decremented exactly under old == 0
  C02.R  replay completeness: every promotion / growth routine re-inserts every coupon of the old container
  C02.A4 4-bit encoding agreement: a nibble written for an actual value `a` is `a - cur_min'` where cur_min' is the
         value cur_min has when the function returns (decoder: get = cur_min + nibble)
  C02.Q  probe geometry: in every open-addressing probe loop the stride shift equals the lg of the mask
  C02.D  Mode dispatch completeness on the public methods
Not decided: equality with the textbook model for all streams (numeric / relational).
"""
import random

from .. import ir, sym, formula
from ..main import Result
from . import common as C
from .common import Sym, show, walk

ARRAYS = ["hll::array4::Array4", "hll::array6::Array6", "hll::array8::Array8"]


def depends_on_registers(e):
    return sym.contains(e, lambda t: (t[0] == "field" and t[2] in ("bytes",)) or (t[0] == "call" and t[1].rsplit("::", 1)[-1] in ("get_raw", "get")))


def is_value_of_coupon(e):
    # (coupon >> 26) possibly cast
    return sym.contains(e, lambda t: C.is_bin(t, "Shr") and C.const_of(t[3]) == 26)


def check_set_probe(prog, res, rule):
    """probe formula of the coupon hash set against the published one (evaluated for lg_size 2..=23)"""
    n = 0
    rnd = random.Random(26)
    for f in C.fns_of(prog, "hll::hash_set::HashSet"):
        for pl in C.probe_loops(prog, f):
            st = pl["stride"]
            lv = formula.leaves(st)
            ck = [k for k in lv if k == "coupon"]
            lk = [k for k in lv if k.endswith("lg_size")]
            if not ck or not lk:
                continue
            n += 1
            res.obligations += 1
            envs = [{ck[0]: rnd.getrandbits(32), lk[0]: L} for L in range(2, 24) for _ in range(8)]
            ok, cex, cnt, why = formula.equivalent(st, lambda env: ((env[ck[0]] & ((1 << 26) - 1)) >> env[lk[0]]) | 1, envs)
            if ok:
                res.discharged += 1
            elif ok is False:
                res.violate(rule, "%s|%s" % (rule, f.id), "probe stride of the coupon hash set in %s is %s, the published sequence uses ((coupon & (2^26-1)) >> lg_size) | 1: %s" % (
                    f.id, show(st), cex), f.id, pl["span"])
            else:
                res.undecided += 1
    return n


def check_duplicate_decision(prog, res, rule):
    """coupon list / coupon set: the scan leaves its loop without storing only for a coupon that is already present -- the
    whole 32-bit coupon, not just its 26-bit slot part: two coupons for the same slot with different values must both be kept
    (the register is their maximum).  By value over the loop-exit facts: stored == new leaves without storing; stored and new
    agreeing on the low 26 bits only must not."""
    n = 0
    for owner in ("hll::hash_set::HashSet", "hll::list::List"):
        for f in C.fns_of(prog, owner):
            if f.promoted or f.argc != 2 or f.local_ty(2) != "u32" or not f.local_ty(1).startswith("&mut"):
                continue
            s = Sym(prog, f)
            pname = f.local_name(2)
            for h, body in s.loops():
                for x in sorted(body):
                    for y in f.succs(x):
                        if y in body or f.blocks[y].cleanup:
                            continue
                        facts = s.cmp_facts_at(y)
                        lv = {}
                        for t in facts:
                            for z in t[1:]:
                                if isinstance(z, tuple):
                                    lv.update(formula.top_leaves(z))
                        stored = [k for k, v in lv.items() if v[0] == "index" or (v[0] == "call" and v[1].rsplit("::", 1)[-1] in ("next", "index", "index_mut"))]
                        if pname not in lv or len(stored) != 1:
                            continue
                        fp = C.facts_pred(s, y)

                        def holds(st_v, new_v):
                            env = {"@prog": prog, "@fn:eq": lambda a, b: int(a == b), "@fn:ne": lambda a, b: int(a != b)}
                            for k in lv:
                                env[k] = 3
                            env[stored[0]] = st_v
                            env[pname] = new_v
                            return fp(env)
                        new_v = (9 << 26) | 0x123457
                        same, n_same = holds(new_v, new_v)
                        if not (same and n_same):
                            continue            # not the exit taken for a coupon that is already present
                        n += 1
                        other, n_o = holds((5 << 26) | 0x123457, new_v)
                        verdict = None if not n_o else (not other)
                        res.tri(verdict, rule, "%s|%s|duplicate" % (rule, f.id),
                                "%s treats a stored coupon as a duplicate of a new one that has the same 26-bit slot part but a different value: the new "
                                "value is dropped, so the register can end below the per-slot maximum" % f.id, f.id)
    return n


def run(prog, ctx):
    res = Result("C02")
    upd = C.pub_fn(prog, "hll::sketch::HllSketch", "update")
    res.rule("C02.entry", 1 if upd else 0, 1, "HllSketch::update")
    if not upd:
        return res
    reach = C.reach_from(prog, [upd])
    res.functions_analysed = len(reach)
    res.entry_points = [upd.id]

    # ---------------- C02.G / C02.P : register stores in the three array updates
    n_store = 0
    n_pair = 0
    n_val = 0
    for owner in ARRAYS:
        f = C.fn_one(prog, owner, "update")
        if f is None:
            res.violate("C02.G", "C02.G|missing|%s::update" % owner, "%s::update no longer exists" % owner)
            continue
        s = Sym(prog, f)
        stores = []
        for b, site in f.calls():
            cal = site.get("callee") or ""
            nm = cal.rsplit("::", 1)[-1]
            if nm in ("put", "put_raw") and cal.startswith(owner):
                stores.append((b, site, "reg"))
            elif cal.startswith("hll::aux_map::AuxMap::") and nm in ("insert", "replace"):
                stores.append((b, site, "aux"))
        # direct stores into bytes (if the helper was inlined by a refactor)
        for b, place, e, span, _s in C.assignments(prog, f):
            if not isinstance(place, int) and any(p[0] == "." and p[2] == "bytes" for p in place[1]) and any(p[0] == "[]" for p in place[1]):
                stores.append((b, {"args": [], "span": span}, "reg"))
        for b, site, kind in stores:
            n_store += 1
            res.obligations += 1
            facts = s.cmp_facts_at(b)
            ok = False
            loose = None
            for fct in facts:
                if fct[0] in ("Gt", "Lt", "Ge", "Le") and len(fct) == 3:
                    a, c = fct[1], fct[2]
                    op = fct[0]
                    if op in ("Lt", "Le"):
                        a, c = c, a
                        op = {"Lt": "Gt", "Le": "Ge"}[op]
                    # a (op) c  with a = new value
                    if is_value_of_coupon(a) and (depends_on_registers(c) or sym.contains(c, lambda t: t[0] in ("var",))):
                        if op == "Gt":
                            ok = True
                        else:
                            loose = fct
            any_cmp = any(fct[0] in ("Gt", "Lt", "Ge", "Le", "true", "false") for fct in facts)
            if ok:
                res.discharged += 1
                res.sample({"rule": "C02.G", "fn": f.id, "store": kind, "guard": "new > old"})
            elif loose or not any_cmp:
                # positive evidence: a non-strict guard between the new value and the register, or no ordering guard at all
                res.violate("C02.G", "C02.G|%s|%s" % (f.id, kind),
                            "register store (%s) in %s is not dominated by a strict `new > old` comparison%s" % (
                                kind, f.id, " (found non-strict %s)" % (show(loose[1]) + " >= " + show(loose[2])) if loose else " (no ordering guard dominates it)"),
                            f.id, site.get("span"))
            else:
                res.undecided += 1
                res.extra.setdefault("undecided_items", []).append("C02.G %s %s: guards not recognised: %s" % (f.id, kind, [(x[0], show(x[1])[:30]) for x in facts][:4]))
            # C02.V the value stored is the value the estimator was told about: the aux map and the 6/8-bit registers hold the
            # absolute new value (the 4-bit nibble holds new - cur_min, rule A4)
            val_arg = None
            if kind == "aux" and len(site.get("args", [])) == 3:
                val_arg = site["args"][2]
            elif kind == "reg" and owner != ARRAYS[0] and len(site.get("args", [])) == 3:
                val_arg = site["args"][2]
            news = [s.at(bb, "t").operand(st["args"][3]) for bb, st in f.calls() if (st.get("callee") or "").endswith("HipEstimator::update") and len(st["args"]) == 4]
            if val_arg is not None and news:
                res.obligations += 1
                ve = s.at(b, "t").operand(val_arg)
                rnd_v = random.Random(7)
                verdict = True
                try:
                    for _ in range(60):
                        env = {"coupon": rnd_v.getrandbits(32), "self.cur_min": rnd_v.randrange(0, 30), "@prog": prog}
                        env["self.lg_config_k"] = rnd_v.randrange(4, 22)
                        got, want = formula.evaluate(ve, env), formula.evaluate(news[0], env)
                        if got != want:
                            verdict = (env["coupon"], env["self.cur_min"], got, want)
                            break
                except formula.Uneval:
                    verdict = None
                if verdict is True:
                    res.discharged += 1
                    n_val += 1
                elif verdict is None:
                    res.undecided += 1
                else:
                    res.violate("C02.V", "C02.V|%s|%s" % (f.id, kind), "%s stores %s into the %s, but the value reported to the estimator is %s (coupon=%#x cur_min=%d: %r vs %r)" % (
                        f.id, show(ve), "aux map" if kind == "aux" else "register", show(news[0]), verdict[0], verdict[1], verdict[2], verdict[3]), f.id, site.get("span"))
            # pairing with the estimator
            est = [bb for bb, st in f.calls() if (st.get("callee") or "").endswith("HipEstimator::update")]
            res.obligations += 1
            if est and any(f.dominates(e, b) for e in est):
                res.discharged += 1
                n_pair += 1
            else:
                res.violate("C02.P", "C02.P|%s|%s|no-estimator" % (f.id, kind),
                            "register store in %s is not preceded by HipEstimator::update on every path" % f.id, f.id, site.get("span"))
        # argument roles of the estimator update: (self.estimator, lg_k, old, new)
        for b, site in f.calls():
            if (site.get("callee") or "").endswith("HipEstimator::update") and len(site["args"]) == 4:
                old_e, new_e = s.operand(site["args"][2]), s.operand(site["args"][3])
                res.obligations += 1
                if is_value_of_coupon(new_e) and not is_value_of_coupon(old_e):
                    res.discharged += 1
                elif not (is_value_of_coupon(old_e) and not is_value_of_coupon(new_e)):
                    res.undecided += 1      # neither argument is recognisably the coupon's value
                else:
                    res.violate("C02.P", "C02.P|%s|roles" % f.id,
                                "HipEstimator::update in %s is not called as (lg_k, old, new): old=%s new=%s" % (f.id, show(old_e), show(new_e)),
                                f.id, site["span"])
        # zero-count decrement under old == 0 (6/8-bit) — counter field found as the u32 field decremented by one
        for b, place, e, span, _s in C.assignments(prog, f):
            if not isinstance(place, int) and place[1][-1][0] == "." and C.is_bin(e, "Sub") and C.const_of(e[3]) == 1:
                fld = place[1][-1][2]
                res.obligations += 1
                facts = s.cmp_facts_at(b)
                if any(x[0] == "Eq" and len(x) == 3 and ((C.const_of(x[1]) is not None) or (C.const_of(x[2]) is not None) or True) and
                       (depends_on_registers(x[1]) or depends_on_registers(x[2]) or sym.contains(x[1], lambda t: t[0] == "var") or sym.contains(x[2], lambda t: t[0] == "var"))
                       for x in facts):
                    res.discharged += 1
                elif any(x[0] in ("Eq", "true", "false") for x in facts):
                    res.undecided += 1
                else:
                    res.violate("C02.P", "C02.P|%s|%s-decrement" % (f.id, fld),
                                "decrement of %s in %s is not guarded by `old == <min value>`" % (fld, f.id), f.id, span)
    res.rule("C02.G", n_store, 5, "register / aux-map stores in Array4/6/8::update")
    res.rule("C02.P", n_pair, 5, "stores paired with HipEstimator::update")
    res.rule("C02.V", n_val, 3, "stored values equal to the value reported to the estimator")

    # ---------------- C02.M : slot / value derivation (formula on a grid)
    rnd = random.Random(20260926)
    n_m = 0
    for owner in ARRAYS:
        f = C.fn_one(prog, owner, "update")
        if f is None:
            continue
        s = Sym(prog, f)
        for b, site in f.calls():
            nm = (site.get("callee") or "").rsplit("::", 1)[-1]
            if nm in ("get", "get_raw", "put", "put_raw") and len(site["args"]) >= 2:
                slot = s.operand(site["args"][1])
                lv = formula.leaves(slot)
                ck = [k for k in lv if k == "coupon"]
                lk = [k for k in lv if k.endswith("lg_config_k")]
                if not ck or not lk:
                    continue
                envs = []
                for lg in range(4, 22):
                    for _ in range(12):
                        envs.append({ck[0]: rnd.getrandbits(32), lk[0]: lg})
                ok, cex, n, why = formula.equivalent(slot, lambda env: (env[ck[0]] & ((1 << 26) - 1)) & ((1 << env[lk[0]]) - 1), envs)
                res.obligations += 1
                n_m += 1
                if ok:
                    res.discharged += 1
                elif ok is False:
                    res.violate("C02.M", "C02.M|%s|slot" % f.id, "slot expression %s in %s differs from (coupon & (2^26-1)) & (2^lg_k-1): e.g. %s" % (
                        show(slot), f.id, cex), f.id, site["span"])
                else:
                    res.undecided += 1
                break
    res.rule("C02.M", n_m, 3, "slot derivations evaluated")

    # ---------------- C02.R : replay completeness
    n_r = 0
    sketch_fns = [f for f in reach if f.id.startswith("hll::sketch::") and f.kind == "fn"]
    for f in sketch_fns:
        s = Sym(prog, f)
        # functions that build a Mode from a container: contain a loop over Container::iter with update calls
        loops = s.loops()
        for hdr, body in loops:
            upd_blocks = [b for b in body if f.blocks[b].term[0] == "call" and (f.blocks[b].term[1].get("callee") or "").rsplit("::", 1)[-1] == "update"
                          and (f.blocks[b].term[1].get("callee") or "").startswith("hll::")]
            nexts = [b for b in body if f.blocks[b].term[0] == "call" and (f.blocks[b].term[1].get("callee") or "").endswith("::next")]
            if not nexts:
                continue
            n_r += 1
            res.obligations += 1
            if not upd_blocks:
                # the re-insertion may sit in a helper: any call in the body that receives the iterator item counts as "handled
                # elsewhere" (undecided); a body in which no call at all receives the item drops the coupons (violation)
                takes_item = False
                for b in body:
                    t = f.blocks[b].term
                    if t[0] == "call" and not (t[1].get("callee") or "").endswith("::next"):
                        if any(sym.contains(s.at(b, "t").operand(a), lambda x: x[0] == "call" and x[1].endswith("::next")) for a in t[1]["args"]):
                            takes_item = True
                if takes_item:
                    res.undecided += 1
                else:
                    res.violate("C02.R", "C02.R|%s|no-update" % f.id, "loop over the old container in %s does not re-insert its items" % f.id, f.id)
                continue
            # every path from the `Some` edge back to the header passes an update call whose item is the iterator item
            nb = nexts[0]
            after = f.succs(nb)
            ok = True
            # find Some-successors: blocks in body reached from the discriminant switch other than exit
            sw = [b for b in body if f.blocks[b].term[0] == "switch"]
            some_targets = []
            for b in sw:
                for tgt in f.succs(b):
                    if tgt in body and tgt != hdr:
                        some_targets.append(tgt)
            for st in some_targets:
                # reach header again avoiding update blocks?
                seen, stack = {st}, [st]
                bad = False
                while stack:
                    x = stack.pop()
                    if x in upd_blocks:
                        continue
                    for y in f.succs(x):
                        if y == hdr and x not in upd_blocks:
                            bad = True
                        if y in body and y not in seen and y != hdr:
                            seen.add(y)
                            stack.append(y)
                if bad and st not in upd_blocks:
                    ok = False
            # the item passed to update is the iterator's item
            item_ok = False
            for b in upd_blocks:
                site = f.blocks[b].term[1]
                if len(site["args"]) >= 2:
                    e = s.operand(site["args"][1])
                    if sym.contains(e, lambda t: t[0] == "call" and t[1].endswith("::next")):
                        item_ok = True
            if ok and item_ok:
                res.discharged += 1
                res.sample({"rule": "C02.R", "fn": f.id, "loop_header": hdr, "verdict": "every iteration re-inserts the iterator item"})
            elif not ok and item_ok:
                # an iteration can return to the loop head without the update: fine only if that branch tests the empty sentinel
                conds = [s.at(b, "t").operand(f.blocks[b].term[1]) for b in body if f.blocks[b].term[0] == "switch" and b not in [x for x in body if f.blocks[x].term[0] == "switch" and sym.contains(s.at(x, "t").operand(f.blocks[x].term[1]), lambda t: t[0] == "discr")]]
                sentinel_only = conds and all(c[0] == "bin" and c[1] in ("Eq", "Ne") and (C.const_of(c[2]) == 0 or C.const_of(c[3]) == 0) for c in conds)
                if sentinel_only:
                    res.undecided += 1
                else:
                    res.violate("C02.R", "C02.R|%s" % f.id, "replay loop in %s can skip a coupon (branches inside the loop: %s)" % (f.id, [show(c)[:50] for c in conds][:3]), f.id)
            else:
                res.undecided += 1
    res.rule("C02.R", n_r, 5, "replay loops in promotion/growth routines")

    # Container::iter filters only the empty sentinel
    it = C.fn_one(prog, "hll::container::Container", "iter")
    if it is not None:
        clos = [prog.fns[c] for c in prog.call_graph()[it.id] if prog.fns[c].kind == "closure"]
        res.obligations += 1
        good = False
        for c in clos:
            s = Sym(prog, c)
            e = s.local(0)
            if e[0] == "bin" and e[1] == "Ne" and (C.const_of(e[2]) == 0 or C.const_of(e[3]) == 0 or "constref" in repr(e)):
                good = True
        if good:
            res.discharged += 1
        elif not clos:
            res.undecided += 1
        else:
            res.violate("C02.R", "C02.R|Container::iter|filter", "Container::iter filters something other than the empty sentinel", it.id)

    # ---------------- C02.A4 : nibble encoding agreement
    n_a4 = 0
    for f in C.fns_of(prog, "hll::array4::Array4"):
        s = Sym(prog, f)
        cur_min_store = None
        for b, place, e, span, _s in C.assignments(prog, f):
            if not isinstance(place, int) and place[1][-1][0] == "." and place[1][-1][2] == "cur_min":
                cur_min_store = e
        for b, site in f.calls():
            cal = site.get("callee") or ""
            if cal.endswith("Array4::put_raw") and len(site["args"]) == 3:
                v = s.operand(site["args"][2])
                if v[0] == "bin" and v[1] == "Sub" and not (C.const_of(v[3]) is not None):
                    # actual - C
                    n_a4 += 1
                    res.obligations += 1
                    cexp = v[3]
                    want = cur_min_store if cur_min_store is not None else ("field", ("param", 1, "self"), "cur_min")
                    cexp = C.resolve_var(prog, f, cexp, s)
                    if cexp == want:
                        res.discharged += 1
                        res.sample({"rule": "C02.A4", "fn": f.id, "nibble": show(v), "cur_min_at_exit": show(want)})
                    elif sym.contains(cexp, lambda t: t[0] == "var") or not sym.contains(cexp, lambda t: t[0] == "field" and t[2] == "cur_min"):
                        res.undecided += 1      # the subtrahend is not recognisably a cur_min value
                    else:
                        res.violate("C02.A4", "C02.A4|%s" % f.id,
                                    "nibble %s written in %s is not relative to the cur_min in force when the function returns (%s)" % (
                                        show(v), f.id, show(want)), f.id, site["span"])
    # the reserved nibble value (the aux token) is never written as a plain value: a put_raw of `new - cur_min` is reached only
    # when that difference is below the token; by value over (new, cur_min)
    tok = prog.consts.get("hll::array4::AUX_TOKEN", {}).get("v", 15)
    import itertools
    for f4 in C.fns_of(prog, ARRAYS[0]):
        s4 = Sym(prog, f4)
        for b, site in f4.calls():
            if not ((site.get("callee") or "").endswith("Array4::put_raw") and len(site["args"]) == 3):
                continue
            v = s4.at(b, "t").operand(site["args"][2])
            if v[0] == "const":
                continue
            keys = sorted(formula.top_leaves(v))
            if not keys or len(keys) > 3:
                continue
            fp = C.facts_pred(s4, b)
            n_a4 += 1
            verdict, wit = None, ""
            try:
                any_eval = False
                verdict = True
                dom = {}
                for k_ in keys:
                    dom[k_] = [(x << 26) | 3 for x in range(0, 48, 1)] if k_ == "coupon" else list(range(0, 48))
                for vals in itertools.product(*[dom[k_][::(1 if len(keys) <= 2 else 3)] for k_ in keys]):
                    env = dict(zip(keys, vals))
                    env.update({"@prog": prog, "self.lg_config_k": 4, "@fn:get_raw": lambda *a: 0, "@lenient": ("get_raw",)})
                    try:
                        val = formula.evaluate(v, env)
                    except (formula.Uneval, TypeError):
                        continue
                    if not isinstance(val, int) or val < 0:
                        continue
                    holds, n_ev = fp(env)
                    if n_ev == 0:
                        continue
                    any_eval = True
                    if holds and val >= tok:
                        verdict, wit = False, "in state %s the value %d (>= the aux token %d) is stored inline as a nibble" % ({k_: (x >> 26 if k_ == "coupon" else x) for k_, x in zip(keys, vals)}, val, tok)
                        break
                if not any_eval:
                    verdict = None
            except (formula.Uneval, TypeError):
                verdict = None
            res.tri(verdict, "C02.A4", "C02.A4|%s|token" % f4.id, "%s: %s" % (f4.id, wit), f4.id, site.get("span"))
    res.rule("C02.A4", n_a4, 2, "nibble encodings `actual - cur_min`")
    # ---------------- C02.E emptiness of the three register arrays, by value: empty <=> every register is zero
    n_e = 0
    for owner in ARRAYS:
        fe = C.fn_one(prog, owner, "is_empty")
        if fe is None:
            continue
        e_ = C.ret_expr(prog, fe)
        flds = [x for v_ in prog.adts.get(owner, {}).get("variants", []) for x in v_.get("fields", [])]
        cnt_f = [n_ for n_, t_ in flds if t_ == "u32"]
        min_f = [n_ for n_, t_ in flds if t_ == "u8" and "min" in n_]
        lg_f = [n_ for n_, t_ in flds if t_ == "u8" and "lg" in n_]
        if e_ is None or len(cnt_f) != 1 or len(lg_f) != 1:
            continue
        n_e += 1
        verdict, wit = None, ""
        try:
            verdict = True
            for lg in (4, 8, 21):
                k = 1 << lg
                for cnt in (0, 1, k - 1, k):
                    for cm in ((0, 1, 3) if min_f else (0,)):
                        env = {"@prog": prog, "self." + cnt_f[0]: cnt, "self." + lg_f[0]: lg}
                        if min_f:
                            env["self." + min_f[0]] = cm
                        got = bool(formula.evaluate(e_, env))
                        want = (cnt == k and cm == 0)
                        if got != want:
                            verdict, wit = False, "lg_k=%d, %d registers at the minimum value %d: is_empty() = %s" % (lg, cnt, cm, got)
        except (formula.Uneval, TypeError):
            verdict = None
        res.tri(verdict, "C02.E", "C02.E|%s" % owner, "%s::is_empty is not `all registers are zero`: %s" % (owner, wit), fe.id)
    res.rule("C02.E", n_e, 3, "emptiness of the register arrays")

    # ---------------- C02.Q : probe geometry
    n_q = 0
    for f in prog.fns.values():
        if f.promoted or not f.id.startswith("hll::"):
            continue
        for pl in C.probe_loops(prog, f):
            a = C.shr_amount(pl["stride"])
            b = C.shl_one_amount(pl["mask"])
            if a is None or b is None:
                continue
            n_q += 1
            res.obligations += 1
            if a == b:
                res.discharged += 1
                res.sample({"rule": "C02.Q", "fn": f.id, "stride": show(pl["stride"]), "mask": show(pl["mask"])})
            elif sym.contains(a, lambda t: t[0] == "var") or sym.contains(b, lambda t: t[0] == "var"):
                res.undecided += 1      # a size held in a reassigned local: not resolved
            else:
                res.violate("C02.Q", "C02.Q|%s" % f.id, "probe loop in %s: stride %s is derived from a different table size than the mask %s" % (
                    f.id, show(pl["stride"]), show(pl["mask"])), f.id, pl["span"])
    C.pairing_rule(res, prog, "C02.Q", "hll::aux_map::AuxMap", "entries", "count", 2)
    res.rule("C02.Q", n_q, 3, "open-addressing probe loops in hll::")
    res.rule("C02.Q2", check_set_probe(prog, res, "C02.Q2"), 1, "probe formula of the coupon hash set")
    res.rule("C02.Q3", check_duplicate_decision(prog, res, "C02.Q3"), 2, "duplicate decision of the coupon list and set")
    # an index found by a probe is used in the table it was found in: no growth between the probe and the store
    n_q4 = 0
    for owner, buf in (("hll::aux_map::AuxMap", "entries"), ("hll::container::Container", "coupons"), ("hll::hash_set::HashSet", "container")):
        n_q4 += 1
        bad = list(C.stale_index_stores(prog, owner, buf))
        for f, sb, gcal in bad:
            res.violate("C02.Q4", "C02.Q4|%s|%s" % (f.id, buf), "%s stores into `%s` at an index obtained before the call of %s, which can reallocate the table: the pair lands where "
                        "its own probe sequence does not look" % (f.id, buf, gcal), f.id)
        res.obligations += 1
        if not bad:
            res.discharged += 1
    res.rule("C02.Q4", n_q4, 3, "probe index used before the table can grow")
    # 4-bit array: after an update some register is at cur_min again.  One shift of cur_min can leave the count at zero (no register
    # held cur_min + 1), so the shift is repeated while the count of registers at cur_min is zero: the call of the shifting routine
    # (the one that stores cur_min) sits in a loop whose continuation depends on that count
    n_sh = 0
    A4_ = ARRAYS[0]
    shifters = set(f.id for f in C.fns_of(prog, A4_) if any(True for _ in sym.field_stores(prog, adt=A4_, field="cur_min", fns=[f]) if _[2] == "assign"))
    for f in C.fns_of(prog, A4_):
        if f.promoted or f.id in shifters:
            continue
        sf_ = Sym(prog, f)
        loops_ = sf_.loops()
        for b, site in f.calls():
            if site.get("callee") not in shifters:
                continue
            n_sh += 1
            inl = [(h, body) for h, body in loops_ if b in body]
            if not inl:
                res.tri(False, "C02.S", "C02.S|%s" % f.id, "%s shifts cur_min once (call of %s outside any loop): when no register holds cur_min + 1 the count of registers at cur_min "
                        "stays zero, cur_min stays below the true minimum and every register 15 above it becomes an aux entry" % (f.id, site["callee"]), f.id, site.get("span"))
                continue
            h, body = min(inl, key=lambda x: len(x[1]))
            conds = [show(x) for bb in body for x in ([sf_.at(bb, "t").operand(f.blocks[bb].term[1])] if f.blocks[bb].term[0] == "switch" else [])]
            res.tri(True if any("num_at_cur_min" in c or "cur_min" in c for c in conds) else None, "C02.S", "C02.S|%s" % f.id, "loop around the cur_min shift not recognised (%s)" % conds[:2], f.id)
    res.rule("C02.S", n_sh, 1, "cur_min shift repeated until a register is at cur_min")

    # ---------------- C02.D : Mode dispatch completeness
    n_d = 0
    for f in C.fns_of(prog, "hll::sketch::HllSketch"):
        if not f.is_pub and f.item_name != "update_with_coupon":
            continue
        for b in f.blocks:
            if b.cleanup or b.term[0] != "switch":
                continue
            e = Sym(prog, f).operand(b.term[1])
            if e[0] == "discr" and sym.contains(e, lambda t: t[0] == "field" and t[2] == "mode"):
                n_d += 1
                res.obligations += 1
                arms = set(v for v, _ in b.term[2])
                tgts = set(t for _, t in b.term[2])
                if len(arms) >= 5 or (len(arms) >= 4 and b.term[3] not in tgts and f.blocks[b.term[3]].term[0] != "unreachable"):
                    res.discharged += 1
                else:
                    # a wildcard / `if let` form: exhaustiveness is rustc's job; which variants share the fallback is not decided here
                    res.undecided += 1
    res.rule("C02.D", n_d, 7, "Mode dispatches in HllSketch methods")

    # ---------------- C02.K a decision taken after an insertion looks at the count after it (common.stale_count_decisions)
    C.stale_count_rule(res, prog, "C02.K", "hll::", "HLL coupon list/set/array")
    # ---------------- C02.Z a table and the recorded log2 of its size change together: no callee sees one without the other
    n_z = 0
    n_z += C.coupled_store_rule(res, prog, "C02.Z", "hll::aux_map::AuxMap", "entries", "lg_size")
    res.rule("C02.Z", n_z, 0, "table / size field pairs")
    # the list -> set -> array chain closes for every lg_k (C18.K chain, by value): a sketch that never builds its register array
    # no longer holds the per-slot maxima the property describes
    try:
        from .C18 import hll_chain
        ch = hll_chain(prog)
    except Exception as ex:
        ch = ("undecided", repr(ex))
    res.tri(None if ch[0] == "undecided" else ch[0] == "ok", "C02.C", "C02.C|hll|chain", "list / set / array promotion chain: %s" % (ch[1],), ch[2] if len(ch) > 2 else None)
    res.rule("C02.C", 1, 1, "list / set / array promotion chain (C18.K chain)")
    # the hash every slot / row / bucket is derived from is the published one for every way of feeding it (C16 rules on the murmur state)
    C.import_rules(res, prog, ctx, "C02.H", "C16", ("C16.B", "C16.C", "C16.T", "C16.K", "C16.W"), "MurmurHash3 the HLL coupon is derived from", 0, key_filter=lambda k: "urmur" in k)
    res.explanation = ("structural rules over the MIR of the %d functions reachable from HllSketch::update: guarded strict max-write, slot "
                       "formula (evaluated on %d grid points), estimator pairing, replay loops, 4-bit encoding agreement, probe geometry, "
                       "dispatch completeness" % (len(reach), 18 * 12))
    res.not_decided = "equality of the register array with the textbook model for all streams; type-independence of estimates as values"
    # ---------------- C02.B fixed-size coupon tables keep the length their lg size announces (also when rebuilt from an image)
    n_b = 0
    for (f_, v, cap, bound, span) in C.pushed_fixed_tables(prog, [g for g in prog.fns.values() if g.id.startswith("hll::")]):
        n_b += 1
        res.tri(v, "C02.B", "C02.B|%s" % f_.id, "%s freezes a vector made with capacity `%s` after pushing `%s` entries: the table is as long as what was stored, "
                "not as its size field says -- the free slots are gone and the next coupon offered to it is dropped" % (f_.id, show(cap)[:40], show(bound)[:40] if bound else "?"), f_.id, span)
    res.rule("C02.B", n_b, 0, "tables frozen with into_boxed_slice after being filled by push")
    return res
