"""C01 — estimates and confidence bounds: bracket, nesting, calibration tables, dispatch, state.

Bias, RSE and coverage rates are statistical and are NOT decided.  Decided statically (DESIGN §5.1), from the return
expressions of the estimator / bound functions extracted from MIR and evaluated over their whole configuration domain
(lg_k x estimator kind x std-dev) and a grid of state values:
  C01.H   HLL   lower <= estimate <= upper, nested in s, for every (lg_k 4..21, HIP/composite, s); relative-error function
          has the right sign, grows with s, shrinks with lg_k, the out-of-order error exceeds the HIP error, and matches the
          analytic RSE factors sqrt(ln 2), sqrt(3 ln 2 - 1) above the tables; estimate() is the HIP accumulator exactly when
          the sketch is in order; raw/composite/bitmap estimator formulas equal the published HLL formulas
  C01.K   HLL coupon (list/set) bounds bracket and nest
  C01.C   CPC   lower <= estimate <= upper, nested in kappa, eps shrinks with lg_k, HIP vs ICON chosen by merge_flag in all three,
          ICON estimate >= C, monotone in C and continuous at the polynomial/exponential switch
  C01.B   theta binomial bounds: clamped to bracket the estimate for any inner approximation; nested in s on the closed-form
          branches; exact mode returns the retained count for all three; an empty sketch reports 0; a non-empty sampling sketch
          with nothing retained has a positive upper bound
  C01.T1  mathematical tables equal their definitions (normal tail, harmonic numbers, inverse powers of two, KXP byte table, ...)
  C01.T3  empirical calibration tables equal the pinned reference copy (analyzer/refdata/calibration_tables.json)
  C01.D   role dispatch: nothing reachable from an upper_bound entry point is a lower-bound routine and vice versa; each
          calibration table is read only from the routine of its role
  C01.U   HIP accumulators advance by k / (sum of register probabilities) evaluated before the register update
  C01.E   theta emptiness is a stored flag cleared on every update that hashed an item (not derived from the retained count)
  C01.S   the serialized image carries the estimator state (imported from the C11 writer->reader co-simulation for HLL, CPC, theta)
  C01.M   the state the estimators read is maintained correctly under update and merge (imported: structural rules of C02-C06)
"""
import json
import math
import os

from .. import ir, sym, formula
from ..main import Result
from . import common as C
from .common import Sym, show

REF = os.path.join(os.path.dirname(os.path.dirname(__file__)), "refdata", "calibration_tables.json")


def rexpr(prog, f, cache={}):
    if f.id not in cache:
        s = Sym(prog, f)
        rets = [b.idx for b in f.blocks if b.term[0] == "return" and not b.cleanup]
        cache[f.id] = s.at(rets[0]).local(0) if len(rets) == 1 else None
    return cache[f.id]


def fn_by(prog, suffix):
    hits = [f for f in prog.fns.values() if not f.promoted and (f.id == suffix or f.id.endswith("::" + suffix))]
    return hits[0] if len(hits) == 1 else None


def unwrap(v):
    if isinstance(v, tuple) and v and v[0] == "$variant" and len(v) > 2 and v[1] in ("Ok", "Some"):
        return v[2]
    if isinstance(v, tuple):
        raise formula.Uneval("non-numeric result %r" % (v[:2],))
    return v


class Ev:
    def __init__(self, prog, res):
        self.prog, self.res = prog, res

    def call(self, f, env):
        e = rexpr(self.prog, f)
        if e is None:
            raise formula.Uneval("no single return expression for " + f.id)
        env = dict(env)
        env["@prog"] = self.prog
        env["@enum_as_int"] = True
        env["@ieee"] = True
        env["@lenient"] = tuple(k[4:] for k in env if isinstance(k, str) and k.startswith("@fn:"))
        return unwrap(formula.evaluate(e, env))


def run(prog, ctx):
    res = Result("C01")
    ev = Ev(prog, res)
    analysed = set()

    def law(rule, key, ok, msg, fid=None):
        res.obligations += 1
        if ok is None:
            res.undecided += 1
            res.extra.setdefault("undecided_items", []).append("%s %s" % (rule, msg))
        elif ok:
            res.discharged += 1
        else:
            res.violate(rule, "%s|%s" % (rule, key), msg, fid)

    def need(name, floor_rule):
        f = fn_by(prog, name)
        if f is not None:
            analysed.add(f.id)
        return f

    # ------------------------------------------------------------------ C01.H HLL
    f_ub = need("hll::estimator::HipEstimator::upper_bound", "C01.H")
    f_lb = need("hll::estimator::HipEstimator::lower_bound", "C01.H")
    f_est = need("hll::estimator::HipEstimator::estimate", "C01.H")
    f_rel = need("hll::estimator::get_rel_err", "C01.H")
    n_h = 0
    if f_ub and f_lb and f_est:
        bad = {}
        cnt = 0
        try:
            for lg in range(4, 22):
                for ooo in (0, 1):
                    for est in (0.0, 1.0, 17.5, 1000.0, 1.0e6):
                        vals = {}
                        for sd in (1, 2, 3):
                            env = {"lg_config_k": lg, "cur_min": 0, "num_at_cur_min": 0, "num_std_dev": sd, "self.out_of_order": ooo,
                                   "@fn:estimate": lambda *a, _e=est: _e}
                            vals[sd] = (ev.call(f_lb, env), ev.call(f_ub, env))
                        cnt += 1
                        chain = [vals[3][0], vals[2][0], vals[1][0], est, vals[1][1], vals[2][1], vals[3][1]]
                        strict = est > 0
                        for a, b, nm in zip(chain, chain[1:], ("lb3<=lb2", "lb2<=lb1", "lb1<=est", "est<=ub1", "ub1<=ub2", "ub2<=ub3")):
                            if not (a < b if strict else a <= b) or a != a or b != b or a < 0:
                                bad.setdefault(nm, "lg_k=%d out_of_order=%d estimate=%r: chain lb3,lb2,lb1,est,ub1,ub2,ub3 = %s" % (lg, ooo, est, chain))
            n_h += 1
            for nm in ("lb3<=lb2", "lb2<=lb1", "lb1<=est", "est<=ub1", "ub1<=ub2", "ub2<=ub3"):
                law("C01.H", "bracket:" + nm, nm not in bad, "HLL bounds not bracketing/nested (%s): %s" % (nm, bad.get(nm, "")), f_ub.id)
            res.sample({"rule": "C01.H bracket/nesting", "configurations": cnt})
        except formula.Uneval as u:
            law("C01.H", "bracket", None, "HLL bound expressions not evaluable: %s" % u)
    if f_rel:
        try:
            R = {}
            for lg in range(4, 22):
                for ub in (0, 1):
                    for ooo in (0, 1):
                        for sd in (1, 2, 3):
                            R[(lg, ub, ooo, sd)] = ev.call(f_rel, {"lg_config_k": lg, "upper_bound": ub, "ooo": ooo, "num_std_dev": sd})
            n_h += 1
            sign_bad = [k for k, v in R.items() if not ((-1.0 < v < 0.0) if k[1] else (v > 0.0))]
            law("C01.H", "relerr-sign", not sign_bad, "get_rel_err has the wrong sign/range at (lg_k, upper, ooo, s) = %s: %r" % (sign_bad[:3], [R[k] for k in sign_bad[:3]]), f_rel.id)
            lg_bad = [k for k in R if k[0] < 21 and not abs(R[(k[0] + 1,) + k[1:]]) < abs(R[k])]
            law("C01.H", "relerr-lgk", not lg_bad, "get_rel_err does not shrink from lg_k to lg_k+1 at (lg_k, upper, ooo, s) = %s" % lg_bad[:4], f_rel.id)
            sd_bad = [k for k in R if k[3] < 3 and not abs(R[k[:3] + (k[3] + 1,)]) > abs(R[k])]
            law("C01.H", "relerr-s", not sd_bad, "get_rel_err does not grow with the number of std devs at %s" % sd_bad[:4], f_rel.id)
            ooo_bad = [k for k in R if k[2] == 0 and not abs(R[k[:2] + (1,) + k[3:]]) > abs(R[k])]
            law("C01.H", "relerr-ooo", not ooo_bad, "out-of-order (composite) relative error is not larger than the HIP error at %s" % ooo_bad[:4], f_rel.id)
            # analytic branch: |r| sqrt(k) / s = sqrt(ln 2) (HIP), sqrt(3 ln 2 - 1) (non-HIP)
            th = {0: math.sqrt(math.log(2)), 1: math.sqrt(3 * math.log(2) - 1)}
            an_bad = [k for k in R if k[0] > 12 and abs(abs(R[k]) * math.sqrt(2 ** k[0]) / k[3] - th[k[2]]) > 2e-5]
            law("C01.H", "relerr-analytic", not an_bad, "analytic relative error differs from s*sqrt(ln2 | 3ln2-1)/sqrt(k) at %s" % an_bad[:4], f_rel.id)
            # plausibility of table rows against the analytic law (measured band on the pinned tables: 0.80 .. 1.75)
            # (measured on the pinned tables: lower-bound rows 0.979..1.673, upper-bound rows 0.676..1.000 of the analytic value)
            band_bad = [k for k in R if k[0] <= 12 and not ((0.64 <= abs(R[k]) * math.sqrt(2 ** k[0]) / k[3] / th[k[2]] <= 1.02) if k[1] else
                                                            (0.95 <= abs(R[k]) * math.sqrt(2 ** k[0]) / k[3] / th[k[2]] <= 1.75))]
            law("C01.H", "relerr-band", not band_bad, "table relative error is implausible against s*factor/sqrt(k) at %s" % band_bad[:4], f_rel.id)
        except formula.Uneval as u:
            law("C01.H", "relerr", None, "get_rel_err not evaluable: %s" % u)
    if f_est:
        try:
            ok = True
            for ooo in (0, 1):
                v = ev.call(f_est, {"lg_config_k": 10, "cur_min": 0, "num_at_cur_min": 3, "self.out_of_order": ooo, "self.hip_accum": 123.25,
                                    "@fn:get_composite_estimate": lambda *a: -7.0})
                if v != (-7.0 if ooo else 123.25):
                    ok = False
            n_h += 1
            law("C01.H", "estimate-dispatch", ok, "HipEstimator::estimate does not return the HIP accumulator exactly when in order and the composite estimate when out of order", f_est.id)
        except formula.Uneval as u:
            law("C01.H", "estimate-dispatch", None, "estimate not evaluable: %s" % u)
    # raw / composite / bitmap formulas vs the published ones
    f_raw = need("hll::estimator::HipEstimator::get_raw_estimate", "C01.H")
    if f_raw:
        try:
            bad = None
            for lg in range(4, 22):
                k = float(2 ** lg)
                alpha = {4: 0.673, 5: 0.697, 6: 0.709}.get(lg, 0.7213 / (1.0 + 1.079 / k))
                for q0, q1 in ((k, 0.0), (k / 3.0, 1e-9), (1.5, 2.5e-7)):
                    got = ev.call(f_raw, {"lg_config_k": lg, "self.kxq0": q0, "self.kxq1": q1})
                    want = alpha * k * k / (q0 + q1)
                    if abs(got - want) > 1e-9 * abs(want):
                        bad = "lg_k=%d kxq=(%r,%r): %r, HLL raw estimate alpha_k k^2 / sum = %r" % (lg, q0, q1, got, want)
            n_h += 1
            law("C01.H", "raw-estimate", bad is None, "get_raw_estimate differs from the HyperLogLog raw estimator: %s" % bad, f_raw.id)
        except formula.Uneval as u:
            law("C01.H", "raw-estimate", None, "get_raw_estimate not evaluable: %s" % u)
    f_comp = need("hll::estimator::HipEstimator::get_composite_estimate", "C01.H")
    arrays = prog.statics.get("hll::composite_interpolation::ARRAYS", {}).get("v")
    strides = prog.statics.get("hll::composite_interpolation::Y_STRIDES", {}).get("v")
    roles = None
    if f_comp and arrays and strides:
        # the three private helpers behind the composite estimator, by role instead of by name: the linear-counting estimate is
        # the call that receives the cur_min / num_at_cur_min parameters, the interpolation the one that receives the table, the
        # raw estimate the remaining f64 helper
        e_c = rexpr(prog, f_comp)
        roles = {}
        if e_c is not None:
            pn = [f_comp.local_name(i) for i in (3, 4)]
            for x in sym.walk(e_c):
                if x[0] != "call" or x[1] not in prog.fns or prog.fns[x[1]].local_ty(0) != "f64":
                    continue
                sub = [y for a in x[2] for y in sym.walk(a)]
                names = set(show(y) for y in sub if y[0] == "param")
                nested = [y for y in sub if y[0] == "call" and y[1] in prog.fns]
                if names & set(pn):
                    role = "lin"
                elif any(prog.fns[y[1]].local_ty(0).startswith(("&", "[")) for y in nested):
                    role = "cubic"
                elif not any(prog.fns[y[1]].local_ty(0) == "f64" for y in nested):
                    role = "raw"
                else:
                    continue
                roles.setdefault(role, set()).add(x[1].rsplit("::", 1)[-1])
        if sorted(roles) != ["cubic", "lin", "raw"] or any(len(v) != 1 for v in roles.values()) or len({next(iter(v)) for v in roles.values()}) != 3:
            n_h += 1
            law("C01.H", "composite-estimate", None, "the helpers of the composite estimator were not identified by role (%s)" % roles)
            roles = None
    if f_comp and arrays and strides and roles:
        h_raw, h_cubic, h_lin = ("@fn:" + next(iter(roles[r])) for r in ("raw", "cubic", "lin"))
        try:
            bad = None
            n = 0
            for lg in range(4, 22):
                k = float(2 ** lg)
                x = arrays[lg - 4]
                ys = float(strides[lg - 4])
                cross = {4: 0.718, 5: 0.672}.get(lg, 0.64)
                for raw in (x[0] * 0.5, x[0], (x[3] + x[4]) / 2, x[100], x[-1], x[-1] * 1.5):
                    for adj in (0.3 * k, 0.7 * k, 2.9 * k, 3.0 * k, 3.5 * k):
                        for lin in (0.1 * k, 0.62 * k, 1.4 * k, 2 * cross * k * 0.99 - adj, 2 * cross * k * 1.01 - adj):
                            got = ev.call(f_comp, {"lg_config_k": lg, "cur_min": 0, "num_at_cur_min": 1,
                                                   h_raw: lambda *a, _r=raw: _r,
                                                   h_cubic: lambda *a, _a=adj: _a,
                                                   h_lin: lambda *a, _l=lin: _l})
                            if raw < x[0]:
                                want = 0.0
                            elif raw > x[-1]:
                                want = raw * (ys * (len(x) - 1)) / x[-1]
                            elif adj > 3 * k:
                                want = adj
                            else:
                                want = adj if (adj + lin) / 2.0 > cross * k else lin
                            n += 1
                            if abs(got - want) > 1e-9 * max(1.0, abs(want)) and bad is None:
                                bad = "lg_k=%d raw=%r adj=%r lin=%r: %r, composite estimator = %r" % (lg, raw, adj, lin, got, want)
            n_h += 1
            law("C01.H", "composite-estimate", bad is None, "get_composite_estimate differs from the published composite estimator: %s" % bad, f_comp.id)
            res.sample({"rule": "C01.H composite estimator", "grid_points": n})
        except formula.Uneval as u:
            law("C01.H", "composite-estimate", None, "get_composite_estimate not evaluable: %s" % u)
    f_bm = need("hll::harmonic_numbers::bitmap_estimate", "C01.H")
    if f_bm:
        try:
            bad = None
            H = [0.0]
            for i in range(1, 5000):
                H.append(H[-1] + 1.0 / i)
            for k in (16, 32, 1024, 4096):
                for hit in (0, 1, k // 3, k - 30, k - 1):
                    if hit < 0:
                        continue
                    got = ev.call(f_bm, {"bit_vector_length": k, "num_bits_set": hit})
                    want = k * (H[k] - H[k - hit])
                    if abs(got - want) > 1e-9 * max(1.0, want):
                        bad = "k=%d hit=%d: %r, k (H_k - H_(k-hit)) = %r" % (k, hit, got, want)
            n_h += 1
            law("C01.H", "bitmap-estimate", bad is None, "bitmap_estimate differs from k (H_k - H_(k - hit)): %s" % bad, f_bm.id)
        except formula.Uneval as u:
            law("C01.H", "bitmap-estimate", None, "bitmap_estimate not evaluable: %s" % u)
    res.rule("C01.H", n_h, 5, "HLL estimator / bound functions evaluated over their configuration domain")

    # ------------------------------------------------------------------ C01.K coupon container bounds
    n_k = 0
    fk = [need("hll::container::Container::" + n, "C01.K") for n in ("lower_bound", "estimate", "upper_bound")]
    if all(fk):
        try:
            bad = None
            for ln in (0, 1, 7, 100, 3000):
                for e in (float(ln), ln * 1.00001 + 0.001, ln * 1.01 + 1):
                    vals = {}
                    for sd in (1, 2, 3):
                        env = {"self.len": ln, "num_std_dev": sd, "@fn:using_x_and_y_tables": lambda *a, _e=e: _e}
                        vals[sd] = tuple(ev.call(f, env) for f in fk)
                    chain = [vals[3][0], vals[2][0], vals[1][0], vals[1][1], vals[1][2], vals[2][2], vals[3][2]]
                    if any(a > b for a, b in zip(chain, chain[1:])) or vals[1][1] < ln or vals[1][1] != vals[2][1]:
                        bad = "len=%d interpolated=%r: lb3,lb2,lb1,est,ub1,ub2,ub3 = %s" % (ln, e, chain)
            n_k += 1
            law("C01.K", "bracket", bad is None, "coupon-mode bounds not bracketing/nested or estimate below the coupon count: %s" % bad, fk[0].id)
        except formula.Uneval as u:
            law("C01.K", "bracket", None, "container bounds not evaluable: %s" % u)
    res.rule("C01.K", n_k, 1, "coupon container bounds")

    # ------------------------------------------------------------------ C01.C CPC
    n_c = 0
    fc = [need("cpc::estimator::" + n, "C01.C") for n in ("lower_bound", "estimate", "upper_bound")]
    if all(fc):
        try:
            bad = {}
            eps = {}
            cnt = 0
            for lg in range(4, 27):
                for mf in (0, 1):
                    for c in (0, 1, 5, 1000, 3000000):
                        for est in ((float(c), c * 1.5 + 0.25, c * 40.0 + 3) if c else (0.0,)):
                            vals = {}
                            for kp in (1, 2, 3):
                                env = {"merge_flag": mf, "hip_est_accum": est if not mf else -1.0, "lg_k": lg, "num_coupons": c, "kappa": kp,
                                       "@fn:icon_estimate": lambda *a, _e=(est if mf else -2.0): _e}
                                vals[kp] = tuple(ev.call(f, env) for f in fc)
                            cnt += 1
                            if vals[1][1] != est:
                                bad.setdefault("dispatch", "lg_k=%d merge_flag=%d C=%d: estimate() = %r, expected the %s estimate %r" % (lg, mf, c, vals[1][1], "ICON" if mf else "HIP", est))
                            chain = [vals[3][0], vals[2][0], vals[1][0], est, vals[1][2], vals[2][2], vals[3][2]]
                            if any(a > b for a, b in zip(chain, chain[1:])) or any(x != x or x < 0 for x in chain):
                                bad.setdefault("bracket", "lg_k=%d merge_flag=%d C=%d est=%r: lb3,lb2,lb1,est,ub1,ub2,ub3 = %s" % (lg, mf, c, est, chain))
                            if c == 0 and any(x != 0.0 for x in chain):
                                bad.setdefault("empty", "lg_k=%d merge_flag=%d: empty sketch bounds %s" % (lg, mf, chain))
                            if c and vals[1][0] < c:
                                bad.setdefault("lb>=C", "lg_k=%d merge_flag=%d C=%d: lower bound %r below the coupon count" % (lg, mf, c, vals[1][0]))
                            if c == 3000000 and est > c * 2:
                                for kp in (1, 2, 3):
                                    eps[(lg, mf, kp, "lb")] = est / vals[kp][0] - 1.0
                                    eps[(lg, mf, kp, "ub")] = 1.0 - est / vals[kp][2]
            n_c += 1
            for nm, msg in (("dispatch", "estimator kind"), ("bracket", "bracket/nesting"), ("empty", "empty sketch"), ("lb>=C", "lower bound clip")):
                law("C01.C", nm, nm not in bad, "CPC %s: %s" % (msg, bad.get(nm, "")), fc[0].id)
            e_bad = [k for k, v in eps.items() if not (0.0 < v < 1.0)]
            law("C01.C", "eps-sign", not e_bad, "CPC relative half-width outside (0,1) at (lg_k, merge_flag, kappa, side) = %s" % e_bad[:4], fc[0].id)
            k_bad = [k for k in eps if k[2] < 3 and not eps[(k[0], k[1], k[2] + 1, k[3])] > eps[k] * 1.2]
            law("C01.C", "eps-kappa", not k_bad, "CPC interval does not widen with kappa at %s" % k_bad[:4], fc[0].id)
            l_bad = [k for k in eps if k[0] < 26 and not eps[(k[0] + 1,) + k[1:]] < eps[k]]
            law("C01.C", "eps-lgk", not l_bad, "CPC interval does not shrink from lg_k to lg_k+1 at %s" % l_bad[:4], fc[0].id)
            # analytic constants above the tables: eps sqrt(k) / kappa = ln 2 (ICON), sqrt(ln2 / 2) (HIP)
            th = {1: math.log(2), 0: math.sqrt(math.log(2) / 2)}
            a_bad = [k for k in eps if k[0] > 14 and abs(eps[k] * math.sqrt(2 ** k[0]) / k[2] - th[k[1]]) > 1e-3 * th[k[1]]]
            law("C01.C", "eps-analytic", not a_bad, "CPC analytic error constant differs from ln 2 (ICON) / sqrt(ln2/2) (HIP) at %s" % a_bad[:4], fc[0].id)
            # (measured on the pinned tables: high-side (lower bound) 0.994..1.343, low-side (upper bound) 0.769..1.004 of the analytic constant)
            b_bad = [k for k in eps if k[0] <= 14 and not ((0.97 <= eps[k] * math.sqrt(2 ** k[0]) / k[2] / th[k[1]] <= 1.40) if k[3] == "lb" else
                                                           (0.74 <= eps[k] * math.sqrt(2 ** k[0]) / k[2] / th[k[1]] <= 1.02))]
            law("C01.C", "eps-band", not b_bad, "CPC table error factor implausible against the analytic constant at %s" % b_bad[:4], fc[0].id)
            res.sample({"rule": "C01.C", "configurations": cnt})
        except formula.Uneval as u:
            law("C01.C", "bounds", None, "CPC bound expressions not evaluable: %s" % u)
    f_icon = need("cpc::estimator::icon_estimate", "C01.C")
    coeffs = prog.statics.get("cpc::estimator::ICON_POLYNOMIAL_COEFFICIENTS", {}).get("v")
    if f_icon and coeffs:
        def horner(co, start, num, x):
            tot = co[start + num - 1]
            for i in range(start + num - 2, start - 1, -1):
                tot = tot * x + co[i]
            return tot
        try:
            bad = None
            for lg in range(4, 27):
                k = 2 ** lg
                thr = (5.7 if lg < 14 else 5.6) * k
                cs = sorted(set([0, 1, 2, 3, k // 8, k // 2, k, 2 * k, 4 * k, int(thr) - 1, int(thr), int(thr) + 1, int(thr) + 2, 8 * k] + [int(k * i / 7.0) for i in range(1, 50)]))
                prev = None
                for c in cs:
                    if c >= 2 ** 32:
                        continue
                    v = ev.call(f_icon, {"lg_k": lg, "num_coupons": c, "@fn:evaluate_polynomial": horner, "@fn:contains": lambda *a: 1})
                    if v < c or v != v:
                        bad = bad or "lg_k=%d C=%d: ICON estimate %r below the coupon count" % (lg, c, v)
                    if prev is not None and v < prev[1]:
                        bad = bad or "lg_k=%d: ICON estimate decreases from C=%d (%r) to C=%d (%r)" % (lg, prev[0], prev[1], c, v)
                    if prev is not None and prev[0] + 1 == c and c > 4 and (v - prev[1]) > 3.0 * (2.0 ** (1.0 / k) - 1.0) * v + 1e-5 * v + 2:
                        bad = bad or "lg_k=%d: ICON estimate jumps from C=%d (%r) to C=%d (%r)" % (lg, prev[0], prev[1], c, v)
                    if c in (2, 3) and abs(v - c) > 0.25:
                        bad = bad or "lg_k=%d C=%d: ICON estimate %r far from the coupon count" % (lg, c, v)
                    prev = (c, v)
            n_c += 1
            law("C01.C", "icon", bad is None, "ICON estimator: %s" % bad, f_icon.id)
        except formula.Uneval as u:
            law("C01.C", "icon", None, "icon_estimate not evaluable: %s" % u)
    res.rule("C01.C", n_c, 2, "CPC estimator / bound functions evaluated over their configuration domain")

    # ------------------------------------------------------------------ C01.B theta
    n_b = 0
    MAXT = 9223372036854775807
    f_bl = need("common::binomial_bounds::lower_bound", "C01.B")
    f_bu = need("common::binomial_bounds::upper_bound", "C01.B")
    if f_bl and f_bu:
        try:
            bad = None
            for n in (0, 1, 2, 50, 120, 121, 100000):
                for th in (1e-6, 0.01, 0.5, 0.99999, 1.0):
                    for inner in (-5.0, 0.0, n * 0.5, float(n), n / th, n / th * 3 + 10):
                        lo = ev.call(f_bl, {"num_samples": n, "theta": th, "num_std_dev": 2, "@fn:compute_approx_binomial_lower_bound": lambda *a, _v=inner: _v})
                        hi = ev.call(f_bu, {"num_samples": n, "theta": th, "num_std_dev": 2, "no_data_seen": 0, "@fn:compute_approx_binomial_upper_bound": lambda *a, _v=inner: _v})
                        est = n / th
                        if not (lo <= est <= hi) or lo < n * (1 - 1e-12) and lo < est:
                            bad = bad or "n=%d theta=%r inner=%r: lower %r, estimate %r, upper %r" % (n, th, inner, lo, est, hi)
            n_b += 1
            law("C01.B", "clamp", bad is None, "binomial bounds do not bracket the estimate / fall below the retained count: %s" % bad, f_bl.id)
            # nested in s where the approximation is closed-form
            bad = None
            cnt = 0
            for n in (0, 1, 2, 5, 60, 120, 121, 500, 100000):
                for th in (1e-6, 1e-4, 0.001, 0.004, 0.01, 0.1, 0.3, 0.9, 0.999995, 1.0):
                    try:
                        lo = [ev.call(f_bl, {"num_samples": n, "theta": th, "num_std_dev": sd}) for sd in (1, 2, 3)]
                        hi = [ev.call(f_bu, {"num_samples": n, "theta": th, "num_std_dev": sd, "no_data_seen": 0}) for sd in (1, 2, 3)]
                    except formula.Uneval:
                        continue
                    cnt += 1
                    chain = [lo[2], lo[1], lo[0], n / th, hi[0], hi[1], hi[2]]
                    if any(a > b * (1 + 1e-12) for a, b in zip(chain, chain[1:])):
                        bad = bad or "n=%d theta=%r: lb3,lb2,lb1,est,ub1,ub2,ub3 = %s" % (n, th, chain)
                    if n == 0 and th < 1.0 and not hi[0] > 0:
                        bad = bad or "n=0 theta=%r: upper bound %r is not positive for a non-empty sketch" % (th, hi[0])
            law("C01.B", "nested", bad is None if cnt >= 20 else None, "binomial bounds not nested in s on the closed-form branches: %s (evaluated %d points)" % (bad, cnt), f_bl.id)
            res.sample({"rule": "C01.B nested", "points": cnt})
        except formula.Uneval as u:
            law("C01.B", "clamp", None, "binomial bounds not evaluable: %s" % u)
    for owner, fields in (("theta::sketch::ThetaSketch", lambda n, t, e: {"self.table.num_entries": n, "self.table.theta": t, "self.table.is_empty": e}),
                          ("theta::sketch::CompactThetaSketch", lambda n, t, e: {"self.entries": [0] * n, "self.theta": t, "self.empty": e})):
        fs = [C.fn_one(prog, owner, nm) for nm in ("lower_bound", "estimate", "upper_bound")]
        if not all(fs):
            continue
        for f in fs:
            analysed.add(f.id)
        try:
            bad = None
            for n in (1, 2, 77, 4096):
                env = dict(fields(n, MAXT, 0))
                env["num_std_dev"] = 2
                vals = [ev.call(f, env) for f in fs]
                if any(v != float(n) for v in vals):
                    bad = bad or "exact mode with %d retained: lower, estimate, upper = %s" % (n, vals)
            env = dict(fields(0, MAXT, 1))
            env["num_std_dev"] = 2
            vals = [ev.call(f, env) for f in fs]
            if any(v != 0.0 for v in vals):
                bad = bad or "empty sketch: lower, estimate, upper = %s" % vals
            # estimation mode: est = n / theta, bounds from the binomial routines with the same n, theta and the emptiness flag
            for n, t, em in ((0, MAXT // 100, 0), (5, MAXT // 3, 0), (0, MAXT // 100, 1)):
                env = dict(fields(n, t, em))
                env["num_std_dev"] = 2
                seen = {}
                env["@fn:lower_bound"] = lambda *a: seen.setdefault("lb", a) and -11.0
                env["@fn:upper_bound"] = lambda *a: seen.setdefault("ub", a) and -13.0
                vals = [ev.call(f, env) for f in fs]
                th = t / float(MAXT)
                want_est = 0.0 if em else n / th
                if abs(vals[1] - want_est) > 1e-9 * max(1.0, want_est):
                    bad = bad or "estimation mode n=%d theta=%r empty=%d: estimate %r, expected %r" % (n, th, em, vals[1], want_est)
                lb_a, ub_a = seen.get("lb"), seen.get("ub")
                if vals[0] != -11.0 or vals[2] != -13.0 or not lb_a or not ub_a:
                    bad = bad or "estimation mode: bounds are not the binomial bounds"
                elif lb_a[0] != n or ub_a[0] != n or abs(lb_a[1] - th) > 1e-15 or abs(ub_a[1] - th) > 1e-15 or lb_a[2] != 2 or ub_a[2] != 2 or int(ub_a[3]) != em:
                    bad = bad or "binomial bounds called with (n, theta, s[, empty]) = %s / %s, expected n=%d theta=%r s=2 empty=%d" % (lb_a, ub_a, n, th, em)
            n_b += 1
            law("C01.B", "theta:" + owner.rsplit("::", 1)[-1], bad is None, "%s estimate/bounds: %s" % (owner, bad), fs[1].id)
        except formula.Uneval as u:
            law("C01.B", "theta:" + owner.rsplit("::", 1)[-1], None, "%s bounds not evaluable: %s" % (owner, u))
    res.rule("C01.B", n_b, 3, "theta estimate / binomial bound functions")

    # ------------------------------------------------------------------ C01.T1 mathematical tables
    n_t = 0
    S = prog.statics

    def table(name):
        v = S.get(name, {}).get("v")
        return v if isinstance(v, list) else None

    t = table("common::num_std_dev::DELTA_OF_NUM_STD_DEVS")
    if t:
        n_t += 1
        bad = [i for i in range(len(t)) if abs(t[i] - 0.5 * math.erfc(i / math.sqrt(2))) > 1e-6]
        law("C01.T1", "normal-tail", not bad, "DELTA_OF_NUM_STD_DEVS%s is not the normal tail probability 0.5 erfc(s/sqrt 2)" % bad)
    t = table("hll::harmonic_numbers::EXACT_HARMONIC")
    if t:
        n_t += 1
        h, bad = 0.0, []
        for i in range(len(t)):
            if i:
                h += 1.0 / i
            if abs(t[i] - h) > 1e-12:
                bad.append(i)
        law("C01.T1", "harmonic", not bad, "EXACT_HARMONIC%s is not the harmonic number" % bad)
    t = table("common::inv_pow2_table::INVERSE_POWERS_OF_2")
    if t:
        n_t += 1
        bad = [i for i in range(len(t)) if t[i] != 2.0 ** -i]
        law("C01.T1", "inv-pow2", not bad, "INVERSE_POWERS_OF_2%s is not 2^-i" % bad[:5])
    t = table("cpc::kxp_byte_lookup::KXP_BYTE_TABLE")
    if t:
        n_t += 1
        bad = [b for b in range(len(t)) if abs(t[b] - sum(2.0 ** -(c + 1) for c in range(8) if not (b >> c) & 1)) > 1e-15]
        law("C01.T1", "kxp-byte", not bad, "KXP_BYTE_TABLE%s is not the sum of 2^-(c+1) over the clear bits c" % bad[:5])
    xa, ya = table("hll::coupon_mapping::X_ARR"), table("hll::coupon_mapping::Y_ARR")
    if xa and ya:
        n_t += 1
        ok = len(xa) == len(ya) and all(a < b for a, b in zip(xa, xa[1:])) and all(a < b for a, b in zip(ya, ya[1:])) and all(y >= x for x, y in zip(xa, ya)) and all(y <= x * 1.2 + 1 for x, y in zip(xa, ya))
        law("C01.T1", "coupon-map", ok, "coupon mapping X_ARR/Y_ARR is not strictly increasing with Y within [X, 1.2 X]")
    if arrays and strides:
        n_t += 1
        bad = [r for r, row in enumerate(arrays) if not all(a < b for a, b in zip(row, row[1:]))]
        law("C01.T1", "composite-rows", not bad, "composite interpolation X row(s) %s are not strictly increasing" % bad)
        # the table maps raw estimates to y = stride * index; the identity-like mapping keeps x[i] within a band of y[i]
        bad = [r for r, row in enumerate(arrays) if not all(0.55 * strides[r] * i <= row[i] <= 1.6 * strides[r] * i + 1.1 * (2 ** (r + 4)) for i in range(len(row)))]
        law("C01.T1", "composite-scale", not bad, "composite interpolation row(s) %s are off the scale of their Y stride" % bad)
    for cname, want in (("hll::harmonic_numbers::EULER_MASCHERONI", 0.5772156649015329), ("cpc::estimator::ICON_ERROR_CONSTANT", math.log(2)),
                        ("cpc::estimator::HIP_ERROR_CONSTANT", math.sqrt(math.log(2) / 2))):
        c = prog.consts.get(cname)
        if c is not None and isinstance(c.get("v"), float):
            n_t += 1
            law("C01.T1", cname.rsplit("::", 1)[-1], abs(c["v"] - want) < 1e-12, "%s = %r, expected %r" % (cname, c["v"], want))
    res.rule("C01.T1", n_t, 6, "mathematical tables and constants compared with their definitions")

    # ------------------------------------------------------------------ C01.T3 calibration snapshot
    n_s = 0
    if os.path.exists(REF):
        ref = json.load(open(REF))
        flat = lambda v: [y for x in v for y in flat(x)] if isinstance(v, list) else [v]
        cur = {k: flat(v["v"]) for k, v in S.items() if isinstance(v.get("v"), list)}
        for name, want in sorted(ref.items()):
            res.obligations += 1
            if cur.get(name) == want:
                n_s += 1
                res.discharged += 1
                continue
            # renamed / moved table with identical content?
            if any(v == want for v in cur.values()):
                n_s += 1
                res.discharged += 1
                continue
            # positive evidence of a perturbed table: same length, most entries equal
            cand = [(k, v) for k, v in cur.items() if len(v) == len(want) and sum(1 for a, b in zip(v, want) if a == b) >= 0.8 * len(want)]
            if cand:
                k, v = cand[0]
                diff = [i for i, (a, b) in enumerate(zip(v, want)) if a != b]
                res.violate("C01.T3", "C01.T3|" + name, "calibration table %s differs from the pinned reference in %d entr%s (first: [%d] = %r, reference %r)" % (
                    k, len(diff), "y" if len(diff) == 1 else "ies", diff[0], v[diff[0]], want[diff[0]]))
            else:
                res.undecided += 1
                res.extra.setdefault("undecided_items", []).append("C01.T3 reference table %s has no counterpart in the crate" % name)
    res.rule("C01.T3", n_s, 10, "empirical calibration tables equal to the pinned reference")

    # ------------------------------------------------------------------ C01.D role dispatch
    n_d = 0
    LOWER = ("lower_bound", "icon_confidence_lb", "hip_confidence_lb", "compute_approx_binomial_lower_bound", "cont_classic_lb", "special_n_star")
    UPPER = ("upper_bound", "icon_confidence_ub", "hip_confidence_ub", "compute_approx_binomial_upper_bound", "cont_classic_ub", "special_n_prime_f", "special_n_prime_b")
    owners = ("hll::sketch::HllSketch", "hll::union::HllUnion", "cpc::sketch::CpcSketch", "cpc::wrapper::CpcWrapper", "theta::sketch::ThetaSketch", "theta::sketch::CompactThetaSketch")
    for owner in owners:
        for role, other in (("upper_bound", LOWER), ("lower_bound", UPPER)):
            f = C.pub_fn(prog, owner, role)
            if f is None:
                continue
            n_d += 1
            res.obligations += 1
            reach = C.reach_from(prog, [f])
            wrong = [g for g in reach if g.item_name in other and g.id != f.id]
            right = [g for g in reach if g.item_name == role and g.id != f.id] or [g for g in reach if g.item_name in (UPPER if role == "upper_bound" else LOWER) and g.id != f.id]
            if wrong:
                res.violate("C01.D", "C01.D|%s::%s" % (owner, role), "%s::%s reaches the opposite-side routine %s" % (owner, role, wrong[0].id), f.id)
            elif not right and owner not in ("theta::sketch::ThetaSketch", "theta::sketch::CompactThetaSketch"):
                res.undecided += 1
            else:
                res.discharged += 1
    # calibration tables are read only from the routine of their role (reference: instances confirmed on the pinned tree)
    ROLE_TABLES = {"hll::estimator::HIP_LB": ("get_rel_err",), "hll::estimator::HIP_UB": ("get_rel_err",), "hll::estimator::NON_HIP_LB": ("get_rel_err",),
                   "hll::estimator::NON_HIP_UB": ("get_rel_err",),
                   "cpc::estimator::ICON_HIGH_SIDE_DATA": ("icon_confidence_lb",), "cpc::estimator::ICON_LOW_SIDE_DATA": ("icon_confidence_ub",),
                   "cpc::estimator::HIP_HIGH_SIDE_DATA": ("hip_confidence_lb",), "cpc::estimator::HIP_LOW_SIDE_DATA": ("hip_confidence_ub",),
                   "common::binomial_bounds::LB_EQUIV_TABLE": ("compute_approx_binomial_lower_bound",), "common::binomial_bounds::UB_EQUIV_TABLE": ("compute_approx_binomial_upper_bound",)}
    users = {}
    for f in prog.fns.values():
        if f.promoted:
            continue
        for b in f.blocks:
            for st in b.stmts:
                for nm in ROLE_TABLES:
                    if nm in json.dumps(st[2]) if st[0] == "=" else False:
                        users.setdefault(nm, set()).add(f.item_name)
    for nm, allowed in sorted(ROLE_TABLES.items()):
        if nm not in users:
            continue
        n_d += 1
        res.obligations += 1
        wrong = [u for u in users[nm] if u not in allowed and (u in LOWER or u in UPPER or u == "get_rel_err")]
        if wrong:
            res.violate("C01.D", "C01.D|table|" + nm, "calibration table %s is read by %s (reference role: %s)" % (nm, sorted(wrong), allowed[0]))
        else:
            res.discharged += 1
    # get_rel_err: the four tables are selected by (ooo, upper) as named
    if f_rel:
        try:
            tabs = {k: S[k]["v"] for k in ("hll::estimator::HIP_LB", "hll::estimator::HIP_UB", "hll::estimator::NON_HIP_LB", "hll::estimator::NON_HIP_UB") if k in S}
            if len(tabs) == 4:
                bad = None
                for lg in range(4, 13):
                    for sd in (1, 2, 3):
                        idx = 3 * (lg - 4) + (sd - 1)
                        for ooo, ub, nm in ((0, 0, "HIP_LB"), (0, 1, "HIP_UB"), (1, 0, "NON_HIP_LB"), (1, 1, "NON_HIP_UB")):
                            got = ev.call(f_rel, {"lg_config_k": lg, "upper_bound": ub, "ooo": ooo, "num_std_dev": sd})
                            if got != tabs["hll::estimator::" + nm][idx]:
                                bad = bad or "lg_k=%d s=%d ooo=%d upper=%d returns %r, %s[3(lg_k-4)+(s-1)] = %r" % (lg, sd, ooo, ub, got, nm, tabs["hll::estimator::" + nm][idx])
                n_d += 1
                law("C01.D", "relerr-index", bad is None, "get_rel_err table selection / index map: %s" % bad, f_rel.id)
        except formula.Uneval as u:
            law("C01.D", "relerr-index", None, "get_rel_err not evaluable: %s" % u)
    res.rule("C01.D", n_d, 14, "role dispatch instances")

    # ------------------------------------------------------------------ C01.U HIP accumulator updates
    n_u = 0

    def exit_env_check(f, field, env, want, what):
        sx = Sym(prog, f)
        e = sx.field_exit_value(field)
        if e is None:
            e = sx.field_exit_value_seq(field)
        if e is None:
            return None, "no closed form for %s at the exit of %s" % (field, f.id)
        en = dict(env)
        en.update({"@prog": prog, "@enum_as_int": True, "@ieee": True})
        try:
            got = formula.evaluate(e, en)
        except formula.Uneval as u:
            return None, "not evaluable: %s" % u
        if abs(got - want) > 1e-12 * max(1.0, abs(want)):
            return False, "%s: %s becomes %r, expected %r (state %s)" % (what, field, got, want, {k: v for k, v in env.items() if not k.startswith("@")})
        return True, ""

    f_hu = need("hll::estimator::HipEstimator::update", "C01.U")
    if f_hu:
        n_u += 1
        verdict, msg = True, ""
        for lg in (4, 11, 21):
            for ooo in (0, 1):
                for q0, q1, hip in ((float(2 ** lg), 0.0, 0.0), (7.75, 1e-10, 1234.5)):
                    env = {"lg_config_k": lg, "old_value": 3, "new_value": 9, "self.out_of_order": ooo, "self.kxq0": q0, "self.kxq1": q1, "self.hip_accum": hip}
                    want = hip if ooo else hip + (2 ** lg) / (q0 + q1)
                    ok, m = exit_env_check(f_hu, "hip_accum", env, want, "HipEstimator::update lg_k=%d out_of_order=%d" % (lg, ooo))
                    if ok is not True and verdict is True:
                        verdict, msg = ok, m
        # ... and the sum must be read before the registers' contribution is changed: no routine that stores kxq0/kxq1
        # may run on a path leading to the hip_accum store
        sh = Sym(prog, f_hu, ifconv=False)
        hip_blocks = [b for (ff, b, kind, place, rv, span, adt, fld) in sym.field_stores(prog, field="hip_accum", fns=[f_hu]) if kind == "assign"]
        writers = set()
        for g in prog.fns.values():
            if not g.promoted and any(True for _ in sym.field_stores(prog, fns=[g], field="kxq0")) or (not g.promoted and any(True for _ in sym.field_stores(prog, fns=[g], field="kxq1"))):
                writers.add(g.id)
        early = []
        for b, site in f_hu.calls():
            tgt = site.get("callee")
            if tgt and (tgt in writers or any(x.id in writers for x in C.reach_from(prog, [tgt]) if tgt in prog.fns)):
                if any(sh._reaches(sx, hb) for hb in hip_blocks for sx in f_hu.succs(b) if not f_hu.blocks[sx].cleanup):
                    early.append(tgt)
        if early and verdict is True:
            verdict, msg = False, "%s changes kxq0/kxq1 before the HIP accumulator reads them" % early[0]
        law("C01.U", "hll-hip", verdict, "HIP accumulator must advance by k / (kxq0 + kxq1) of the state before the register change, only when in order: %s" % msg, f_hu.id)
    f_kq = need("hll::estimator::HipEstimator::update_kxq", "C01.U")
    if f_kq:
        n_u += 1
        verdict, msg = True, ""
        for old, new in ((0, 1), (3, 9), (31, 32), (5, 40), (33, 47), (0, 63), (32, 40), (5, 32), (30, 31), (31, 33)):
            env = {"old_value": old, "new_value": new, "self.kxq0": 100.0, "self.kxq1": 1e-6}
            w0 = 100.0 - (2.0 ** -old if old < 32 else 0.0) + (2.0 ** -new if new < 32 else 0.0)
            w1 = 1e-6 - (2.0 ** -old if old >= 32 else 0.0) + (2.0 ** -new if new >= 32 else 0.0)
            for fld, want in (("kxq0", w0), ("kxq1", w1)):
                ok, m = exit_env_check(f_kq, fld, env, want, "update_kxq old=%d new=%d" % (old, new))
                if ok is not True and verdict is True:
                    verdict, msg = ok, m
        law("C01.U", "hll-kxq", verdict, "kxq registers must lose 2^-old and gain 2^-new (split at 32): %s" % msg, f_kq.id)
    f_cu = need("cpc::sketch::CpcSketch::update_hip", "C01.U")
    if f_cu:
        n_u += 1
        verdict, msg = True, ""
        for lg in (4, 12, 26):
            for rc in (0, 5, (17 << 6) | 33, (3 << 6) | 62):
                env = {"row_col": rc, "self.lg_k": lg, "self.kxp": 2 ** lg * 0.37, "self.hip_est_accum": 55.5}
                col = rc & 63
                for fld, want in (("hip_est_accum", 55.5 + (2 ** lg) / (2 ** lg * 0.37)), ("kxp", 2 ** lg * 0.37 - 2.0 ** -(col + 1))):
                    ok, m = exit_env_check(f_cu, fld, env, want, "CpcSketch::update_hip lg_k=%d row_col=%d" % (lg, rc))
                    if ok is not True and verdict is True:
                        verdict, msg = ok, m
        law("C01.U", "cpc-hip", verdict, "CPC HIP accumulator must advance by k / kxp before kxp loses 2^-(col+1): %s" % msg, f_cu.id)
    res.rule("C01.U", n_u, 3, "HIP accumulator update routines")

    # ------------------------------------------------------------------ C01.E theta emptiness
    n_e = 0
    f_ie = fn_by(prog, "theta::hash_table::ThetaHashTable::is_empty")
    f_up = C.pub_fn(prog, "theta::sketch::ThetaSketch", "update")
    if f_ie and f_up:
        e = rexpr(prog, f_ie)
        res.obligations += 1
        if e is not None and e[0] == "field" and e[1][0] == "param":
            flag = e[2]
            n_e += 1
            res.discharged += 1
            # every function reachable from update that finishes a hash clears the flag on every path from there to a return
            hashers = 0
            for g in C.reach_from(prog, [f_up]):
                sg = Sym(prog, g)
                hb = [b for b, site in g.calls() if (site.get("callee") or "").rsplit("::", 1)[-1] in ("finish128", "finish")]
                if not hb or not g.id.startswith("theta::"):
                    continue
                hashers += 1
                clear = set()
                for (ff, b, kind, place, rv, span, adt, fld) in sym.field_stores(prog, field=flag, fns=[g]):
                    if kind == "assign" and rv is not None and sg.rvalue(rv) in (("const", False), ("const", 0)):
                        clear.add(b)
                # a helper that stores the flag counts as well
                for b_, site_ in g.calls():
                    tgt_ = site_.get("callee")
                    if tgt_ in prog.fns and tgt_ != g.id and any(True for h_ in C.reach_from(prog, [tgt_]) for _ in sym.field_stores(prog, field=flag, fns=[h_])):
                        clear.add(b_)
                for b in hb:
                    res.obligations += 1
                    n_e += 1
                    if b in clear or not any(sg.reaches_exit_avoiding(sx, clear) for sx in g.succs(b) if not g.blocks[sx].cleanup):
                        res.discharged += 1
                    else:
                        res.violate("C01.E", "C01.E|" + g.id, "%s hashes an item but can return without clearing the `%s` flag (a sampling sketch whose updates were all screened would report empty, upper bound 0)" % (g.id, flag), g.id)
            if not hashers:
                res.obligations += 1
                res.undecided += 1
        else:
            # emptiness derived from other state: the screened-sampling case then reports empty
            ex = show(e) if e is not None else "?"
            if e is not None and sym.contains(e, lambda t: t[0] == "field" and t[2] in ("num_entries",)) or (e is not None and sym.contains(e, lambda t: t[0] == "len")):
                res.violate("C01.E", "C01.E|derived", "ThetaHashTable::is_empty is derived from the retained count (%s): a sampling sketch whose updates were all screened out reports empty and an upper bound of 0" % ex, f_ie.id)
            else:
                res.undecided += 1
    res.rule("C01.E", n_e, 2, "theta emptiness flag")

    # ------------------------------------------------------------------ C01.S estimator state survives serialization (from C11)
    n_sx = 0
    try:
        from . import C11
        r11 = C11.run(prog, dict(ctx, families=("hll", "cpc", "theta")))
        for v in r11.violations:
            fam = v.key.split("|")[1] if "|" in v.key else ""
            if any(x in v.key or x in v.message.lower() for x in ("hll", "cpc", "theta")) and "anchor-lost" not in v.key:
                res.violate("C01.S", "C01.S|" + v.key, "estimator state does not survive the serialized image: " + v.message, getattr(v, "fn", None))
        n_sx = sum(1 for sm in getattr(r11, "samples", []) if any(x in json.dumps(sm).lower() for x in ("hll", "cpc", "theta")))
        res.obligations += r11.obligations
        res.discharged += r11.discharged
        res.undecided += r11.undecided + (r11.obligations - r11.discharged - r11.undecided - len(r11.violations) if r11.obligations - r11.discharged - r11.undecided - len(r11.violations) > 0 else 0)
    except Exception as ex:   # the imported pack failing must not take C01 down with a false alarm
        res.extra.setdefault("undecided_items", []).append("C01.S could not run the C11 co-simulation: %r" % (ex,))
    res.rule("C01.S", n_sx, 0, "writer->reader co-simulated states of HLL/CPC/theta (imported from C11)")

    # ------------------------------------------------------------------ C01.M the state the estimators read is the right state
    # (register maxima, union results, KMV set, coupon matrix): the structural rules of C02-C06 are necessary conditions for an
    # unbiased estimate after streaming / merging, so their violations are re-issued here
    import importlib
    n_m = 0
    for pack in ("C02", "C03", "C04", "C05", "C06"):
        try:
            r = importlib.import_module("analyzer.rules." + pack).run(prog, dict(ctx))
        except Exception as ex:
            res.extra.setdefault("undecided_items", []).append("C01.M could not run %s: %r" % (pack, ex))
            continue
        n_m += sum(v.get("instances", 0) for v in r.rules.values())
        for v in r.violations:
            if "anchor-lost" not in v.key:
                res.violate("C01.M", "C01.M|" + v.key, "sketch state feeding the estimator can be wrong: " + v.message, getattr(v, "fn", None), getattr(v, "span", None))
        res.obligations += 1
        if not [v for v in r.violations if "anchor-lost" not in v.key]:
            res.discharged += 1
    res.rule("C01.M", n_m, 60, "structural rule instances of C02-C06 (imported)")

    res.functions_analysed = len(analysed)
    res.entry_points = sorted(analysed)[:40]
    res.explanation = ("return expressions of the estimator and bound routines are extracted from MIR and evaluated over their whole configuration "
                       "domain and a grid of state values; tables are read from rustc's evaluated statics")
    res.not_decided = "bias, RSE and coverage rates (statistical); calibration of the empirical tables beyond equality with the pinned reference and the monotonic laws"
    C.interpolation_window_rule(res, prog, "C01.H.cubic")
    return res
