"""C06 — the CPC union equals the OR of its inputs' bit matrices folded to the smallest lg_k.

Decided statically (DESIGN §5.6):
  C06.L  an input sketch is adopted wholesale (cloned into the accumulator) only under an equality guard between the
         union's lg_k and the input's lg_k
  C06.K  reduce_k runs exactly when the input's lg_k is smaller, before any merge step, and every path through it
         stores the new lg_k
  C06.O  OR-only: every store into a union matrix is `dst[row & (2^dst_lg_k - 1)] |= ...`, and each call passes the lg_k
         that belongs to the destination matrix; table walks mask the row with the destination's lg_k
  C06.T  to_sketch: coupon count = population count of the matrix, offset from determine_correct_offset, window byte
         (pattern >> offset) & 0xff, first interesting column clamped under `fic > offset`, merge flag set on every
         path that returns a non-empty sketch
Not decided: OR-equality and order independence as values.
"""
from .. import ir, sym, formula
from ..main import Result
from . import common as C
from .common import Sym, show

U = "cpc::union::CpcUnion"


def lgk_like(e):
    return sym.contains(e, lambda t: t[0] == "field" and t[2] == "lg_k") or (e[0] == "param" and "lg_k" in (e[2] or ""))


def run(prog, ctx):
    res = Result("C06")
    upd = C.pub_fn(prog, U, "update")
    tsk = C.pub_fn(prog, U, "to_sketch")
    res.rule("C06.entry", (1 if upd else 0) + (1 if tsk else 0), 2, "CpcUnion::update, CpcUnion::to_sketch")
    if not upd or not tsk:
        return res
    reach = C.reach_from(prog, [upd, tsk])
    ufns = [f for f in reach if f.id.startswith("cpc::union::")]
    res.functions_analysed = len(reach)
    res.entry_points = [upd.id, tsk.id]

    # ---------------- C06.L adoption of the input
    n_l = 0
    for f in ufns:
        s = Sym(prog, f)
        for b, site in f.calls():
            cal = site.get("callee") or ""
            if cal.endswith("as std::clone::Clone>::clone") and "CpcSketch" in cal:
                a = s.operand(site["args"][0])
                if not (a[0] == "param" and a[1] >= 2):
                    continue  # not the input sketch
                n_l += 1
                res.obligations += 1
                tgt = site["target"]
                fx = s.cmp_facts_at(tgt if tgt is not None else b)
                def mentions(e, idx):
                    return sym.contains(e, lambda t: t[0] == "param" and t[1] == idx)
                # the guard must compare the union's lg_k with the lg_k of the sketch being adopted (not with state of the union itself)
                eq = [x for x in fx if x[0] == "Eq" and len(x) == 3 and lgk_like(x[1]) and lgk_like(x[2]) and x[1] != x[2] and
                      ((mentions(x[1], a[1]) and mentions(x[2], 1) and not mentions(x[2], a[1])) or (mentions(x[2], a[1]) and mentions(x[1], 1) and not mentions(x[1], a[1])))]
                if eq:
                    res.discharged += 1
                    res.sample({"rule": "C06.L", "fn": f.id, "guard": "%s == %s" % (show(eq[0][1]), show(eq[0][2]))})
                elif any(x[0] == "Eq" and len(x) == 3 and lgk_like(x[1]) and lgk_like(x[2]) and sym.contains(x[1], lambda t: t[0] == "var") or (x[0] == "Eq" and len(x) == 3 and sym.contains(x[2], lambda t: t[0] == "var")) for x in fx):
                    res.undecided += 1      # an equality over values held in reassigned locals: origin not resolved
                else:
                    res.violate("C06.L", "C06.L|%s" % f.id, "%s clones the input sketch into the union state without an equality guard between its lg_k and the union's lg_k; guards: %s" % (
                        f.id, [(x[0], show(x[1])[:40], show(x[2])[:40] if len(x) > 2 else "") for x in fx][:5]), f.id, site["span"])
    res.rule("C06.L", n_l, 1, "input adoptions")

    # ---------------- C06.K reduce_k
    s = Sym(prog, upd)
    # the reduction routine is recognised by effect: the callee of update() that (transitively) stores CpcUnion.lg_k
    def stores_lgk(callee):
        return bool(callee) and callee in prog.fns and any(True for g in C.reach_from(prog, [callee]) for _ in sym.field_stores(prog, adt=U, field="lg_k", fns=[g]))
    rk = [(b, site) for b, site in upd.calls() if stores_lgk(site.get("callee"))]
    res.obligations += 2
    n_k = len(rk)
    if rk:
        b, site = rk[0]
        fx = s.cmp_facts_at(b)

        def mentions(e, idx):
            return sym.contains(e, lambda t: t[0] == "param" and t[1] == idx)
        verdict = None
        for x in fx:
            if len(x) == 3 and x[0] in ("Lt", "Gt", "Le", "Ge") and lgk_like(x[1]) and lgk_like(x[2]):
                a_, c_, op = x[1], x[2], x[0]
                if op in ("Gt", "Ge"):
                    a_, c_, op = c_, a_, {"Gt": "Lt", "Ge": "Le"}[op]
                # a_ <(=) c_
                in_a, self_a = any(mentions(a_, i) for i in range(2, upd.argc + 1)), mentions(a_, 1)
                in_c, self_c = any(mentions(c_, i) for i in range(2, upd.argc + 1)), mentions(c_, 1)
                if in_a and not self_a and self_c and not in_c:
                    verdict = True if op == "Lt" else False       # input.lg_k < self.lg_k (a non-strict guard would reduce needlessly but harmlessly: flag it)
                elif self_a and not in_a and in_c and not self_c:
                    verdict = False                                 # reversed: reduces when the input is *larger*
        if verdict is True:
            res.discharged += 1
        elif verdict is False:
            res.violate("C06.K", "C06.K|guard", "the lg_k reduction is not called exactly under `input.lg_k < self.lg_k` (guards: %s)" % [(x[0], show(x[1])[:40], show(x[2])[:40] if len(x) > 2 else "") for x in fx], upd.id, site["span"])
        else:
            res.undecided += 1
        # before every merge step
        merges = [bb for bb, st in upd.calls() if any((st.get("callee") or "").endswith(x) for x in ("or_table_into_matrix", "or_window_into_matrix", "or_matrix_into_matrix", "walk_table_updating_sketch", "build_bit_matrix"))]
        sw = [d for d in s._dom_chain(b) if upd.blocks[d].term[0] == "switch"]
        guard_block = sw[0] if sw else b
        if merges and all(upd.dominates(guard_block, m) for m in merges):
            res.discharged += 1
        elif not merges:
            res.undecided += 1
        else:
            res.violate("C06.K", "C06.K|order", "a merge step in CpcUnion::update is not dominated by the lg_k reduction check", upd.id)
    else:
        res.undecided += 2      # no callee of update() stores the union's lg_k: the reduction is not where this rule looks
    rkf = C.fn_one(prog, U, "reduce_k")
    if rkf is not None:
        res.obligations += 1
        st = [b for (f, b, kind, place, rv, span, adt, fld) in sym.field_stores(prog, adt=U, field="lg_k", fns=[rkf])]
        s2 = Sym(prog, rkf)
        vals = [s2.rvalue(rv) for (f, b, kind, place, rv, span, adt, fld) in sym.field_stores(prog, adt=U, field="lg_k", fns=[rkf]) if rv is not None]
        if st and not s2.reaches_exit_avoiding(0, set(st)) and all(v[0] == "param" for v in vals):
            res.discharged += 1
        elif st and s2.reaches_exit_avoiding(0, set(st)):
            res.violate("C06.K", "C06.K|store", "a path through reduce_k does not store the new lg_k", rkf.id)
        else:
            res.undecided += 1
    # reduce_k: an accumulator turns into a bit matrix only because the sketch *rebuilt at the smaller size* is no longer sparse:
    # folding rows can merge coupons, so the coupon count of the old accumulator says nothing about the folded one
    rk = C.fn_one(prog, "cpc::union::CpcUnion", "reduce_k")
    if rk is not None:
        srk = Sym(prog, rk)
        for (ff, b, kind, place, rv, span, adt, fld) in sym.field_stores(prog, adt="cpc::union::CpcUnion", field="state", fns=[rk]):
            if rv is None:
                continue
            try:
                e = srk.at(b, "t").rvalue(rv)
            except Exception:
                continue
            if not (e[0] in ("agg", "variant") and "BitMatrix" in show(e)[:24]):
                continue
            facts = srk.cmp_facts_at(b)
            from_acc = any(t[0] == "false" and show(t[1]).startswith("discr(self.state") for t in facts)
            if not from_acc:
                continue
            n_k += 1
            res.obligations += 1

            def on_old(t):
                return any(y[0] == "field" and y[2] == "num_coupons" and "self.state" in show(y[1]) for z in t[1:] if isinstance(z, tuple) for y in sym.walk(z))

            def on_new(t):
                return any(y[0] == "call" and y[1] in prog.fns and prog.fns[y[1]].local_ty(0).endswith("CpcSketch") for z in t[1:] if isinstance(z, tuple) for y in sym.walk(z))
            deciding = [t for t in facts if (on_old(t) or on_new(t)) and not (t[0] in ("Eq", "Ne") and any(isinstance(z, tuple) and z[:2] == ("const", 0) for z in t[1:]))]
            if any(on_new(t) for t in deciding):
                res.discharged += 1
            elif deciding:
                res.violate("C06.K", "C06.K|reduce_k|prefold", "%s switches the union to a bit matrix on the coupon count of the accumulator *before* it is folded to the smaller size (%s): "
                            "coupons that collide modulo the new K shrink the count, and the union then holds a matrix for a sketch that should be sparse" % (
                                rk.id, show(deciding[0][1])[:90]), rk.id, span)
            else:
                res.undecided += 1
    res.rule("C06.K", n_k, 1, "reduce_k call sites")

    # ---------------- C06.E an empty input is a no-op: the result folds to the smallest lg_k among the union and the NON-EMPTY inputs,
    # so nothing that changes the union (a call handed `&mut self` or a part of it, a store through self) may be reached when the
    # source holds no coupons, whatever its lg_k.  By value: the exact path conditions of each such site under an empty source.
    su = Sym(prog, upd)
    n_e = 0
    src_idx = 2
    mut_sites = []
    for b, site in upd.calls():
        for a in site["args"]:
            pl = ir.op_place(a)
            if pl is None:
                continue
            ty = ir.pl_ty(upd, pl) or ""
            if not ty.startswith("&mut "):
                continue
            e = su.operand(a)
            if (e[0] == "param" and e[1] == 1) or sym.contains(e, lambda t: t[0] == "field" and t[1][0] == "param" and t[1][1] == 1):
                mut_sites.append((b, (site.get("callee") or "indirect").rsplit("::", 1)[-1], site.get("span")))
                break
    for (ff, bb, kind, place, rv, span, adt, fld) in sym.field_stores(prog, adt=U, fns=[upd]):
        if kind != "agg":
            mut_sites.append((bb, "store to self.%s" % fld, span))
    for b, what, span in mut_sites:
        if what in ("deref_mut", "as_mut", "borrow_mut"):
            continue
        pp = C.path_pred(su, b)
        verdict, wit = None, ""
        n_ev = 0
        for src_lg, dst_lg in ((5, 11), (11, 11), (12, 11)):
            for un_c in (0, 3, 4000):
                env = {"@prog": prog, "sketch.lg_k": src_lg, "sketch.num_coupons": 0, "self.lg_k": dst_lg,
                       "self.state.lg_k": dst_lg, "self.state.num_coupons": un_c}
                nm = upd.local_name(src_idx)
                if nm and nm != "sketch":
                    env.update({k.replace("sketch.", nm + ".", 1): v for k, v in list(env.items()) if k.startswith("sketch.")})
                r = pp(env)
                if r is None:
                    continue
                n_ev += 1
                if r is True and verdict is None:
                    verdict, wit = False, "with an empty input of lg_k %d and a union of lg_k %d" % (src_lg, dst_lg)
        if n_ev and verdict is None:
            verdict = True
        n_e += 1
        res.tri(verdict, "C06.E", "C06.E|%s" % what, "%s reaches `%s` %s: an empty input must leave the union (its lg_k in particular) "
                "untouched" % (upd.id, what, wit), upd.id, span)
    res.rule("C06.E", n_e, 3, "sites of CpcUnion::update that change the union")

    # ---------------- C06.S a sketch's surprising-value table lists 1-bits only while its window sits at offset 0 (flavors Sparse,
    # Hybrid, Pinned); once the window slides the early-zone entries are surprising *zeros* and the zone's default is all ones.  A
    # routine that ORs table entries into a matrix is therefore reached only with a source whose flavor is below Sliding; a Sliding
    # source goes through its own matrix reconstruction.  By value: the exact path condition of each call of such a routine under a
    # source holding a Sliding-level coupon count (one level of callers when the source is a parameter of a private helper).
    def _is_or_table(f):
        tys = [f.local_ty(i) for i in range(1, f.argc + 1)]
        return f.kind == "fn" and any("PairTable" in t and t.startswith("&") and not t.startswith("&mut") for t in tys) and any(t.replace(" ", "") == "&mut[u64]" for t in tys) \
            and any(True for _ in C.buffer_stores(prog, f))
    ortab = [f for f in ufns if _is_or_table(f)]
    n_s = 0

    _df = [f for f in prog.fns.values() if f.item_name == "determine_flavor" and not f.promoted]
    sliding = None
    if _df:
        try:
            sliding = formula.evaluate(("call", _df[0].id, (("const", 11), ("const", 40000))), {"@prog": prog})
        except formula.Uneval:
            sliding = None

    def not_excluded(sx, blk):
        """True: some path to the block carries no condition that is definitely false when every flavor computed on the way is
        Sliding (conditions on anything else are left open); False: every path is refuted; None: flavors not evaluable"""
        paths = sx.path_conditions(blk)
        if paths is None or sliding is None:
            return None
        for pth in paths:
            dead = False
            for c, tv in pth:
                env = {"@prog": prog, "@fn:determine_flavor": (lambda *a: sliding), "@fn:flavor": (lambda *a: sliding)}
                v = None
                for _ in range(8):
                    try:
                        v = formula.evaluate(c, env)
                        break
                    except formula.Uneval as u:
                        k = str(u)
                        if k.startswith("call ") or k in env:
                            v = None
                            break
                        env[k] = 40000 if k.endswith("num_coupons") else (3 if k.endswith("window_offset") else 11)
                    except (TypeError, IndexError, ZeroDivisionError):
                        v = None
                        break
                if v is None or isinstance(v, tuple) or not sym.contains(c, lambda t: (t[0] == "call" and t[1].rsplit("::", 1)[-1] in ("determine_flavor", "flavor", "determine_correct_offset"))
                                                                                  or (t[0] == "field" and str(t[2]) in ("num_coupons", "window_offset"))):
                    continue
                if (tv[0] == "eq" and v != tv[1]) or (tv[0] == "ne" and v in tv[1]):
                    dead = True
                    break
            if not dead:
                return True
        return False

    def sketch_root(e):
        x = C.find_sub(e, lambda t: t[0] == "call" and t[1].rsplit("::", 1)[-1] == "surprising_value_table" and t[2])
        if x is not None:
            r = x[2][0]
        else:
            x = C.find_sub(e, lambda t: t[0] == "field" and "surprising" in str(t[2]))
            if x is None:
                return None
            r = x[1]
        while r[0] in ("ref", "deref") and len(r) >= 2 and isinstance(r[-1], tuple):
            r = r[-1]
        return r
    for g in ufns:
        sg = None
        for b, site in g.calls():
            cal = site.get("callee") or ""
            if cal not in [f.id for f in ortab]:
                continue
            sg = sg or Sym(prog, g)
            root = None
            for a in site["args"]:
                root = root or sketch_root(sg.operand(a))
            n_s += 1
            if root is None:
                res.tri(None, "C06.S", "C06.S|%s" % g.id, "source of the table handed to %s not recognised" % cal)
                continue
            name = show(root)
            wit = ""
            r0 = not_excluded(sg, b)
            verdict = None if r0 is None else (not r0)
            if r0 is True and root[0] == "param" and not g.exported:
                # a private helper: reached with a Sliding source only if some caller lets one through
                verdict = None
                for h in ufns:
                    sh = None
                    for hb, hsite in h.calls():
                        if hsite.get("callee") != g.id:
                            continue
                        sh = sh or Sym(prog, h)
                        hr = not_excluded(sh, hb)
                        if hr is True:
                            verdict, wit = False, " (through %s, where nothing on the way to the call excludes a Sliding flavor)" % h.id
                        elif hr is False and verdict is None:
                            verdict = True
            res.tri(verdict, "C06.S", "C06.S|%s|%s" % (g.id, name), "%s ORs the surprising-value table of `%s` into a matrix on a path a Sliding-flavor source takes%s: "
                    "its early-zone entries are surprising zeros and the zone's all-ones default is lost" % (g.id, name, wit), g.id, site.get("span"),
                    sample={"rule": "C06.S", "fn": g.id, "source": name})
    res.rule("C06.S", n_s, 2, "calls that OR a source's surprising-value table into a matrix")

    # ---------------- C06.O OR-only stores, destination mask, call-site lg agreement
    n_o = 0
    orfns = [f for f in ufns if f.kind == "fn" and any(True for _ in C.buffer_stores(prog, f)) and f.item_name.startswith("or_")]
    for f in orfns:
        for (b, base, ie, val, span, _s) in C.buffer_stores(prog, f):
            if base[0] != "param":
                continue
            n_o += 1
            res.obligations += 2
            has_old = sym.contains(val, lambda t: (t[0] == "index" and t[1] == base) or (t[0] == "call" and t[1].rsplit("::", 1)[-1] in ("index", "index_mut") and t[2] and t[2][0] == base))
            has_or = sym.contains(val, lambda t: C.is_bin(t, "BitOr"))
            if has_old and has_or:
                res.discharged += 1
            elif not has_old:
                res.violate("C06.O", "C06.O|%s|or" % f.id, "store into the destination matrix in %s is %s: the old row content is overwritten, expected `old | bits`" % (f.id, show(val)[:80]), f.id, span)
            else:
                res.undecided += 1
            m = C.shl_one_amount(ie)
            d_idx = base[1]
            if m is not None and m[0] == "param" and m[1] == d_idx + 1:
                res.discharged += 1
                res.sample({"rule": "C06.O", "fn": f.id, "row": show(ie), "value": show(val)[:60]})
            elif m is not None and m[0] == "param" and m[1] != d_idx + 1 and m[1] >= 2 and not f.local_ty(m[1] - 1).startswith(("u8", "usize", "u32")) and (m[1] - 1) != d_idx:
                # the mask is built from the size parameter that follows the *other* (source) container
                res.violate("C06.O", "C06.O|%s|mask" % f.id, "destination row in %s is %s: the mask uses the size of the source, expected src_row & (2^dst_lg_k - 1)" % (f.id, show(ie)), f.id, span)
            else:
                res.undecided += 1
    res.rule("C06.O", n_o, 3, "matrix stores in the or_* routines")
    n_c = 0
    # call sites of the OR routines: the row mask the callee applies (from its mask / lg parameter, whichever it takes) must be
    # (rows of the destination matrix) - 1.  By value: the callee's mask expression is evaluated on the caller's actual argument,
    # with distinct values for distinct leaves, and compared with the destination's row count (2^self.lg_k for the union's own
    # matrix, the allocation size for a fresh one).
    def mask_param(g):
        for (_b, base, ie, _val, _span, _s) in C.buffer_stores(prog, g):
            if base[0] != "param":
                continue
            for t in sym.walk(ie):
                if C.is_bin(t, "BitAnd"):
                    for side in (t[2], t[3]):
                        lv = formula.top_leaves(side)
                        if len(lv) == 1:
                            x = next(iter(lv.values()))
                            if x[0] == "param" and x[1] != base[1]:
                                return base[1], x[1], side, next(iter(lv))
        return None
    for f in ufns:
        s = Sym(prog, f)
        for b, site in f.calls():
            cal = site.get("callee") or ""
            g = prog.fns.get(cal)
            if g is None or not cal.startswith("cpc::union::") or len(site["args"]) < 2 or g.kind != "fn":
                continue
            mp = mask_param(g)
            if mp is None:
                continue
            d_idx, p_idx, mexpr, pkey = mp
            if max(d_idx, p_idx) > len(site["args"]):
                continue
            n_c += 1
            a0 = C.resolve_var(prog, f, s.operand(site["args"][d_idx - 1]), s)
            a1 = s.operand(site["args"][p_idx - 1])
            alloc = C.find_sub(a0, lambda t: t[0] == "call" and t[1].endswith("from_elem"))
            if alloc is not None:
                size_e, wtxt = alloc[2][1], show(alloc[2][1])
            elif a0[0] == "field" and a0[1][0] == "param" and a0[1][1] == 1:
                size_e, wtxt = ("bin", "Shl", ("const", 1), ("field", ("param", 1, f.local_name(1) or "self"), "lg_k")), "2^self.lg_k"
            else:
                res.tri(None, "C06.O", "C06.O|%s|dst-lg" % f.id, "destination of %s not recognised" % cal, f.id, site["span"])
                continue
            leaves = sorted(set(formula.top_leaves(size_e)) | set(formula.top_leaves(a1)))
            verdict, wit = None, ""
            try:
                verdict = True
                for base_v in (5, 9):
                    env = {"@prog": prog}
                    for i, k in enumerate(leaves):
                        env[k] = base_v + 2 * i
                    if "self.lg_k" not in env:
                        env["self.lg_k"] = base_v + 2 * len(leaves)
                    size = formula.evaluate(size_e, env)
                    act = formula.evaluate(a1, env)
                    mask = formula.evaluate(mexpr, {pkey: act, "@prog": prog})
                    if mask != size - 1:
                        verdict, wit = False, "%s applies the row mask %#x to a destination of %d rows (argument %s, destination %s)" % (cal, mask, size, show(a1), wtxt)
                        break
            except (formula.Uneval, TypeError):
                verdict = None
            res.tri(verdict, "C06.O", "C06.O|%s|dst-lg" % f.id, "%s: %s" % (f.id, wit), f.id, site["span"])
    # source-side lg arguments read from `self` must be the value the source matrix was built with: no store to that field
    # may reach the call (the read is flow-insensitive in the provenance DAG, so this is checked on the CFG)
    for f in ufns:
        s = Sym(prog, f, ifconv=False)
        for b, site in f.calls():
            cal = site.get("callee") or ""
            if not (cal.startswith("cpc::union::or_") and len(site["args"]) >= 4):
                continue
            for ai in range(2, len(site["args"])):
                a = s.at(b, "t").operand(site["args"][ai])
                if not (a[0] == "field" and a[1][0] == "param" and a[1][1] == 1):
                    continue
                res.obligations += 1
                clob = [bb for (ff, bb, kind, place, rv, span, adt, fld) in sym.field_stores(prog, field=a[2], fns=[f])
                        if kind == "assign" and place[0] == 1 and (bb == b or s._reaches(bb, b)) and not f.blocks[bb].cleanup]
                # a store in the same block counts only if it precedes the call (the call is the terminator, so any does)
                if clob:
                    res.violate("C06.O", "C06.O|%s|stale-%s" % (f.id, a[2]), "%s passes self.%s as the source size to %s after overwriting it; the source matrix still has its old size, so rows above the new size are dropped instead of folded" % (
                        f.id, a[2], cal.rsplit("::", 1)[-1]), f.id, site["span"])
                else:
                    res.discharged += 1
    # positional pairing of two bit matrices (zip) ignores the row fold: allowed only under an lg_k equality guard
    for f in ufns:
        s = Sym(prog, f, ifconv=False)
        for b, site in f.calls():
            if (site.get("callee") or "").rsplit("::", 1)[-1] != "zip" or len(site["args"]) != 2:
                continue
            a0 = C.resolve_var(prog, f, s.at(b, "t").operand(site["args"][0]), s)
            a1 = C.resolve_var(prog, f, s.at(b, "t").operand(site["args"][1]), s)
            mut_side = sym.contains(a0, lambda t: t[0] == "call" and t[1].rsplit("::", 1)[-1] in ("iter_mut", "deref_mut")) or sym.contains(a1, lambda t: t[0] == "call" and t[1].rsplit("::", 1)[-1] in ("iter_mut", "deref_mut"))
            from_state = sym.contains(a0, lambda t: t[0] == "field" and t[2] in ("state",)) or sym.contains(a1, lambda t: t[0] == "field" and t[2] in ("state",)) or \
                sym.contains(a0, lambda t: t[0] == "variant") or sym.contains(a1, lambda t: t[0] == "variant")
            from_src = sym.contains(a0, lambda t: t[0] == "call" and "build_bit_matrix" in t[1]) or sym.contains(a1, lambda t: t[0] == "call" and "build_bit_matrix" in t[1]) or \
                sym.contains(a0, lambda t: t[0] == "param" and t[1] >= 2) or sym.contains(a1, lambda t: t[0] == "param" and t[1] >= 2)
            if not (mut_side and from_state and from_src):
                continue
            res.obligations += 1
            fx = s.cmp_facts_at(b)
            guarded = any(x[0] == "Eq" and len(x) == 3 and lgk_like(x[1]) and lgk_like(x[2]) for x in fx)
            if guarded:
                res.discharged += 1
            else:
                res.violate("C06.O", "C06.O|%s|zip" % f.id, "%s pairs the rows of the union's matrix with the rows of a source matrix by position (zip) without a guard that both have the same lg_k: source rows beyond the union's size are dropped instead of folded" % f.id, f.id, site.get("span"))
    res.rule("C06.O.calls", n_c, 5, "or_* call sites")
    wt = prog.fns.get("cpc::union::walk_table_updating_sketch")
    if wt is not None:
        s = Sym(prog, wt)
        for b, site in wt.calls():
            if (site.get("callee") or "").endswith("::row_col_update"):
                res.obligations += 1
                e = C.resolve_var(prog, wt, s.operand(site["args"][1]), s)
                lv = formula.leaves(e)
                rk_ = [k for k in lv if "index" in k or "slots" in k or "[" in k]
                lk_ = [k for k in lv if k.endswith("lg_k")]
                ok = None
                if rk_ and lk_:
                    import random
                    rnd = random.Random(6)
                    envs = [{rk_[0]: rnd.getrandbits(32), lk_[0]: L} for L in range(4, 27) for _ in range(4)]
                    ok, cex, n, why = formula.equivalent(e, lambda env: env[rk_[0]] & ((((1 << env[lk_[0]]) - 1) << 6) | 63) & 0xffffffff, envs)
                if ok:
                    res.discharged += 1
                elif ok is False:
                    res.violate("C06.O", "C06.O|walk-mask", "walk_table_updating_sketch masks the pair with %s, expected ((2^lg_k - 1) << 6) | 63 of the destination" % show(e)[:100], wt.id, site["span"])
                else:
                    res.undecided += 1

    # ---------------- C06.T to_sketch
    s = Sym(prog, tsk)
    n_t = 0
    stores = {}
    for (f, b, kind, place, rv, span, adt, fld) in sym.field_stores(prog, adt="cpc::sketch::CpcSketch", fns=[tsk]):
        stores.setdefault(fld, []).append((b, s.at(b).rvalue(rv) if rv is not None else s.call_expr(tsk.blocks[b].term[1]), span))
    res.obligations += 4
    nc = stores.get("num_coupons", [])
    if nc and all(sym.contains(e, lambda t: t[0] == "call" and t[1].endswith("count_bits_set_in_matrix")) for _, e, _ in nc):
        res.discharged += 1
        n_t += 1
    elif nc and all(e[0] == "const" or (e[0] == "field" and e[1] == ("param", 1, "self")) for _, e, _ in nc):
        res.violate("C06.T", "C06.T|num_coupons", "to_sketch does not set num_coupons to the population count of the matrix (stores %s)" % [show(e)[:40] for _, e, _ in nc], tsk.id)
    else:
        res.undecided += 1
    wo = stores.get("window_offset", [])
    if wo and all(sym.contains(e, lambda t: t[0] == "call" and t[1].endswith("determine_correct_offset")) or "determine_correct_offset" in repr(e) or e[0] == "select" for _, e, _ in wo):
        res.discharged += 1
        n_t += 1
    elif wo and all(e[0] == "const" or (e[0] == "field" and e[1] == ("param", 1, "self")) for _, e, _ in wo):
        res.violate("C06.T", "C06.T|offset", "to_sketch does not derive window_offset from the coupon count (stores %s)" % [show(e)[:40] for _, e, _ in wo], tsk.id)
    else:
        res.undecided += 1
    mf = stores.get("merge_flag", [])
    mblocks = set(b for b, e, _ in mf if e == ("const", True))
    # a helper that (transitively) stores merge_flag counts as well
    for b_, site_ in tsk.calls():
        tgt_ = site_.get("callee")
        if tgt_ in prog.fns and tgt_.startswith("cpc::union::") and any(True for g_ in C.reach_from(prog, [tgt_]) if g_.id.startswith("cpc::union::")
                                                                         for _ in sym.field_stores(prog, adt="cpc::sketch::CpcSketch", field="merge_flag", fns=[g_])):
            mblocks.add(b_)
    # every return of a non-empty sketch passes a merge_flag = true store: paths avoiding those blocks may only be the empty-accumulator path
    empties = [b for b, site in tsk.calls() if (site.get("callee") or "").endswith("CpcSketch::with_seed")]
    okm = bool(mblocks)
    if okm:
        # from each with_seed-free path ... approximate: at most one path avoids the stores and it goes through a with_seed call guarded by is_empty
        avoid_ok = True
        if s.reaches_exit_avoiding(0, mblocks):
            # acceptable only if every such path calls with_seed under an `is_empty`/num_coupons == 0 guard
            guarded = [b for b in empties if any(x[0] in ("Eq", "true") and ("num_coupons" in show(x[1]) or "is_empty" in show(x[1]) or
                                                                            (len(x) > 2 and "num_coupons" in show(x[2]))) for x in s.cmp_facts_at(b))]
            if not guarded or s.reaches_exit_avoiding(0, mblocks | set(guarded)):
                avoid_ok = False
        okm = avoid_ok
    cp_fields = [x[0] for v in prog.adts.get("cpc::sketch::CpcSketch", {}).get("variants", []) for x in v.get("fields", [])]
    if okm:
        res.discharged += 1
        n_t += 1
    elif "merge_flag" not in cp_fields:
        res.undecided += 1
    else:
        res.violate("C06.T", "C06.T|merge_flag", "a path of to_sketch returns a non-empty sketch without setting merge_flag", tsk.id)
    # first_interesting_column of the result = min(first surprising column, window offset), by value
    verdict = None
    fic_locals = set(place[0] for (f_, b_, kind, place, rv, span, adt, fld) in sym.field_stores(prog, adt="cpc::sketch::CpcSketch", field="first_interesting_column", fns=[tsk]) if kind == "assign")
    why = ""
    for loc in sorted(fic_locals):
        ef = s.field_exit_value_seq("first_interesting_column", self_local=loc)
        if ef is None:
            continue
        try:
            verdict = True
            for off in (0, 1, 7, 30, 56):
                for tz in (0, 1, 5, 8, 31, 56, 63, 64):
                    env = {"@prog": prog, "@fn:determine_correct_offset": lambda *a_, _o=off: _o, "@lenient": ("determine_correct_offset",)}
                    for k_, n_ in formula.leaves(ef).items():
                        if n_[0] == "var":
                            env[k_] = (1 << tz) if tz < 64 else 0
                        elif n_[0] == "discr":
                            env[k_] = 1          # the bit-matrix state (the accumulator state returns its sketch unchanged)
                    got = formula.evaluate(ef, env)
                    if got != min(tz, off):
                        verdict = False
                        why = "first surprising column %d, offset %d: %r" % (tz, off, got)
        except formula.Uneval:
            verdict = None
        break
    res.obligations -= 1
    res.tri(verdict, "C06.T", "C06.T|fic-clamp", "to_sketch does not leave min(first surprising column, window offset) in first_interesting_column (%s)" % why, tsk.id)
    if verdict:
        n_t += 1
    res.rule("C06.T", n_t, 4, "to_sketch obligations")
    # the union dispatches on the flavor of its input (sparse sources are read from their pair table only): the flavor thresholds are
    # the published fractions at every boundary count (C05.F, by value)
    C.import_rules(res, prog, ctx, "C06.F", "C05", ("C05.F",), "flavor of the input sketch", 0)
    res.explanation = ("structural rules over the %d functions reachable from CpcUnion::{update,to_sketch}: adoption guard, reduce_k ordering and "
                       "lg_k store, OR-only masked stores with destination-lg agreement at every call site, to_sketch bookkeeping" % len(reach))
    res.not_decided = "bitwise OR-equality of the result matrix and order independence as values"
    return res
