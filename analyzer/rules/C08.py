"""C08 — Count-Min never under-counts; its table is the exact sum of hashed weights.

Decided statically (DESIGN §5.8):
  C08.U  update: a loop over *all* row seeds; every iteration adds the weight at index row*num_buckets + h1(seed_row) %
         num_buckets; total_weight receives |weight| once
  C08.E  estimate: same loop and the same index expression as update (sibling agreement); starts from T::MAX and
         replaces the minimum only under `value < min`; lower_bound = estimate, upper_bound = estimate + eps*total
  C08.M  merge: element-wise add with the same index on both sides, total weights added, the four compatibility
         assertions present; halve/decay transform the table and the total with the same operation
  C08.S  row seeds: one per hash function, derived from the sketch seed and the row number
Not decided: the error-vs-confidence statistics; correctness of re-chunked merge loops that do not index both tables
with one expression (reported undecided, never as a violation).
"""
import random

from .. import ir, sym, formula
from ..main import Result
from . import common as C
from .common import Sym, show

K = "countmin::sketch::CountMinSketch"


def slice_offset(e):
    """symbolic start offset (within the counter table) of a slice / iterator expression, or None when unknown"""
    if e[0] == "field":
        if e[2] in ("counts",):
            return ("const", 0)
        if e[2] in ("0", "1") and e[1][0] == "call" and e[1][1].rsplit("::", 1)[-1] in ("split_at_mut", "split_at"):
            base = slice_offset(e[1][2][0])
            if base is None:
                return None
            if e[2] == "0":
                return base
            k = e[1][2][1]
            return k if base == ("const", 0) else ("bin", "Add", base, k)
        return None
    if e[0] == "call":
        nm = e[1].rsplit("::", 1)[-1]
        if nm in ("iter", "iter_mut", "into_iter", "chunks_exact", "chunks_exact_mut", "chunks", "chunks_mut", "deref", "deref_mut", "as_slice", "as_mut_slice", "by_ref"):
            return slice_offset(e[2][0])
        if nm in ("into_remainder", "remainder"):
            return None
        if nm in ("skip",):
            base = slice_offset(e[2][0])
            return None if base is None else (e[2][1] if base == ("const", 0) else ("bin", "Add", base, e[2][1]))
        if nm in ("index", "index_mut") and len(e[2]) == 2 and e[2][1][0] == "agg" and "Range" in e[2][1][1]:
            base = slice_offset(e[2][0])
            rng = e[2][1]
            start = rng[2][0] if rng[1].endswith(("Range", "RangeFrom", "RangeInclusive")) and rng[2] else ("const", 0)
            if rng[1].endswith(("RangeTo", "RangeToInclusive", "RangeFull")):
                start = ("const", 0)
            return None if base is None else (start if base == ("const", 0) else ("bin", "Add", base, start))
        return None
    if e[0] == "variant":
        return slice_offset(e[1])
    return None


def idx_of(e):
    x = C.find_sub(e, lambda t: t[0] == "call" and t[1].endswith("index") and len(t[2]) == 2)
    return x


_EFF = {}


def run(prog, ctx):
    res = Result("C08")

    def effect_tw(callee):
        """does the callee (transitively) store CountMinSketch.total_weight?"""
        if not callee or callee not in prog.fns:
            return False
        if callee not in _EFF:
            _EFF[callee] = any(True for g in C.reach_from(prog, [callee]) for _ in sym.field_stores(prog, adt=K, field="total_weight", fns=[g]))
        return _EFF[callee]
    upd = C.pub_fn(prog, K, "update_with_weight")
    est = C.pub_fn(prog, K, "estimate")
    mrg = C.pub_fn(prog, K, "merge")
    res.rule("C08.entry", sum(1 for x in (upd, est, mrg) if x), 3, "CountMinSketch::{update_with_weight,estimate,merge}")
    if not (upd and est and mrg):
        return res
    reach = C.reach_from(prog, [upd, est, mrg, C.pub_fn(prog, K, "halve"), C.pub_fn(prog, K, "decay"), C.pub_fn(prog, K, "with_seed")])
    res.functions_analysed = len(reach)
    res.entry_points = [upd.id, est.id, mrg.id]
    rnd = random.Random(8)

    def index_exprs(f, field="counts"):
        s = Sym(prog, f, ifconv=False)
        out = []
        for b, site in f.calls():
            cal = site.get("callee") or ""
            if cal.endswith("::index") or cal.endswith("::index_mut"):
                base = s.operand(site["args"][0])
                if sym.contains(base, lambda t: t[0] == "field" and t[2] == field):
                    out.append((b, base, C.resolve_var(prog, f, s.operand(site["args"][1]), s), cal.endswith("index_mut")))
        return out

    # ---------------- C08.U
    ui = index_exprs(upd)
    res.obligations += 4
    wr = [x for x in ui if x[3]]
    rd = [x for x in ui if not x[3]]
    spec_ok = None
    if wr:
        e = wr[0][2]
        lv = formula.leaves(e)
        rowk = [k for k in lv if k.endswith(".0.0")]
        hk = [k for k in lv if "finish128" in k and k.endswith(".0")]
        nb = [k for k in lv if k.endswith("num_buckets")]
        if rowk and hk and nb:
            envs = [{rowk[0]: r, hk[0]: rnd.getrandbits(64), nb[0]: n} for r in range(0, 8) for n in (3, 5, 64, 509, 100003)]
            spec_ok, cex, n, why = formula.equivalent(e, lambda env: env[rowk[0]] * env[nb[0]] + env[hk[0]] % env[nb[0]], envs)
        if spec_ok:
            res.discharged += 1
            res.sample({"rule": "C08.U", "index": show(e)[:200]})
        elif spec_ok is False:
            res.violate("C08.U", "C08.U|index", "update stores at %s, expected row*num_buckets + h1 %% num_buckets (%s)" % (show(e)[:120], cex), upd.id)
        else:
            res.undecided += 1
        # hasher seeded by the row's seed (item .0.1 of the enumerate item)
        if sym.contains(e, lambda t: t[0] == "agg" and "MurmurHash3X64128" in t[1] and ".0.1" in show(t)):
            res.discharged += 1
        else:
            res.undecided += 1
        # read-modify-write at the same index, iterating all of hash_seeds
        if rd and rd[0][2] == wr[0][2]:
            res.discharged += 1
        elif not rd or sym.contains(rd[0][2], lambda t: t[0] == "var") or sym.contains(wr[0][2], lambda t: t[0] == "var"):
            res.undecided += 1
        else:
            res.violate("C08.U", "C08.U|rmw", "update reads and writes the table at different indices", upd.id)
        if sym.contains(e, lambda t: t[0] == "call" and t[1].endswith("enumerate") and "hash_seeds" in show(t)) and not sym.contains(e, lambda t: t[0] == "call" and t[1].rsplit("::", 1)[-1] in ("skip", "take", "step_by", "filter")):
            res.discharged += 1
        elif sym.contains(e, lambda t: t[0] == "call" and t[1].rsplit("::", 1)[-1] in ("skip", "take", "step_by", "filter", "skip_while", "take_while")):
            res.violate("C08.U", "C08.U|rows", "update does not iterate over every row seed (the row iterator is truncated or filtered)", upd.id)
        else:
            res.undecided += 1
    else:
        res.undecided += 1
    s = Sym(prog, upd)
    res.obligations += 1
    tw = [s.rvalue(rv) if rv is not None else s.call_expr(upd.blocks[b].term[1]) for (f, b, kind, place, rv, span, adt, fld) in sym.field_stores(prog, adt=K, field="total_weight", fns=[upd])]
    if any("abs(weight)" in show(e) and "self.total_weight" in show(e) for e in tw):
        res.discharged += 1
    elif tw and any(sym.contains(e, lambda t: t[0] == "param" and t[1] >= 2) for e in tw):
        res.undecided += 1
    elif any(effect_tw(st.get("callee")) for _, st in upd.calls()):
        res.undecided += 1
    else:
        res.violate("C08.U", "C08.U|total", "update does not add |weight| to total_weight (%s)" % [show(e) for e in tw], upd.id)
    res.rule("C08.U", len(ui), 2, "table accesses in update")

    # ---------------- C08.E
    ei = index_exprs(est)
    res.obligations += 3
    if ei and wr and ei[0][2] == wr[0][2]:
        res.discharged += 1
    elif not ei or not wr or sym.contains(ei[0][2], lambda t: t[0] == "var") or sym.contains(wr[0][2], lambda t: t[0] == "var"):
        res.undecided += 1
    else:
        res.violate("C08.E", "C08.E|index", "estimate reads the table at %s but update writes at %s" % (show(ei[0][2])[:100] if ei else "?", show(wr[0][2])[:100] if wr else "?"), est.id)
    s = Sym(prog, est, ifconv=False)
    # the value returned is an accumulator that only ever moves down to a table value: every in-loop definition of it is
    # `min(acc, value)` or `acc = value` under a guard ordering value below acc; it starts from the type's maximum
    loops = s.loops()
    body = set().union(*[bd for _, bd in loops]) if loops else set()
    rets = [bb.idx for bb in est.blocks if bb.term[0] == "return" and not bb.cleanup]
    ret_e = s.at(rets[0]).local(0) if rets else ("unknown",)
    accs = [l for l, ds in est.defs().items() if any(d[0] in body and d[2] == "assign" for d in ds) and any(d[0] not in body for d in ds)
            and sym.contains(ret_e, lambda t, _l=l: t[0] == "var" and t[1] == _l)]
    verdict_min, verdict_init, why = None, None, ""
    if len(accs) == 1:
        acc = accs[0]
        accv = ("var", acc, est.local_name(acc) or "")

        def is_value(e):
            return sym.contains(e, lambda t: (t[0] == "call" and t[1].rsplit("::", 1)[-1] == "index") or t[0] == "index")

        def is_acc(e):
            return e == accv or (e[0] in ("var",) and e[1] == acc)

        def orient(x):
            """'lt' if the fact says value < acc (or <=), 'gt' if it says value > acc, else None"""
            FL = {"Lt": "lt", "Le": "lt", "Gt": "gt", "Ge": "gt", "lt": "lt", "le": "lt", "gt": "gt", "ge": "gt"}
            if x[0] in ("Lt", "Le", "Gt", "Ge") and len(x) == 3:
                a_, b_, o = x[1], x[2], FL[x[0]]
            elif x[0] in ("true", "false") and x[1][0] == "call" and x[1][1].rsplit("::", 1)[-1] in ("lt", "le", "gt", "ge") and len(x[1][2]) == 2:
                a_, b_, o = x[1][2][0], x[1][2][1], FL[x[1][1].rsplit("::", 1)[-1]]
                if x[0] == "false":
                    o = {"lt": "gt", "gt": "lt"}[o]
            else:
                return None
            a_, b_ = C.resolve_var(prog, est, a_, s), C.resolve_var(prog, est, b_, s)
            if is_value(a_) and is_acc(b_):
                return o
            if is_acc(a_) and is_value(b_):
                return {"lt": "gt", "gt": "lt"}[o]
            return None
        verdict_min = True
        for d in est.defs()[acc]:
            if d[2] != "assign":
                continue
            e = C.resolve_var(prog, est, s.at(d[0], d[1]).rvalue(est.blocks[d[0]].stmts[d[1]][2]), s)
            if d[0] not in body:
                # initial value: the maximum of the counter type
                verdict_init = True if (e[0] == "constref" and str(e[1]).endswith("MAX")) or "MAX" in show(e) else (False if e[0] == "const" and e[1] in (0, False) else None)
                why = why or ("initial value %s" % show(e))
                continue
            if e[0] == "call" and e[1].rsplit("::", 1)[-1] == "min" and any(is_acc(a_) for a_ in e[2]) and any(is_value(C.resolve_var(prog, est, a_, s)) for a_ in e[2]):
                continue
            if e[0] == "call" and e[1].rsplit("::", 1)[-1] == "max":
                verdict_min = False
                why = "accumulator updated with max()"
                continue
            if is_value(e):
                os_ = [o for o in (orient(x) for x in s.cmp_facts_at(d[0])) if o]
                if "lt" in os_:
                    continue
                if "gt" in os_:
                    verdict_min = False
                    why = "accumulator replaced when the table value is larger"
                    continue
            if verdict_min:
                verdict_min = None
                why = why or ("unrecognised update %s" % show(e)[:80])
    for key, v, msg in (("min", verdict_min, "estimate does not take the minimum over the rows (%s)" % why), ("init", verdict_init, "estimate does not start from the counter type's maximum (%s)" % why)):
        if v is True:
            res.discharged += 1
        elif v is False:
            res.violate("C08.E", "C08.E|" + key, msg, est.id)
        else:
            res.undecided += 1
    res.rule("C08.E", len(ei), 1, "table reads in estimate")
    lb = C.pub_fn(prog, K, "lower_bound")
    ub = C.pub_fn(prog, K, "upper_bound")
    for f, want in ((lb, "estimate"), (ub, "estimate")):
        if f is None:
            continue
        res.obligations += 1
        names = [(st.get("callee") or "").rsplit("::", 1)[-1] for _, st in f.calls()]
        if want in names and (f is lb or ("add" in names and "relative_error" in names)):
            res.discharged += 1
        elif want not in names and not any((st.get("callee") or "").startswith("countmin::") for _, st in f.calls()):
            res.violate("C08.E", "C08.E|%s" % f.item_name, "%s is no longer derived from estimate()%s" % (f.item_name, "" if f is lb else " + relative_error * total_weight"), f.id)
        else:
            res.undecided += 1

    # ---------------- C08.M
    mi = index_exprs(mrg)
    s = Sym(prog, mrg)
    res.obligations += 3
    selfs = [x for x in mi if "self" in show(x[1])]
    others = [x for x in mi if "other" in show(x[1])]
    oth = index_exprs(mrg, "counts")
    other_idx = [C.resolve_var(prog, mrg, s.operand(st["args"][1]), s) for b, st in mrg.calls() if (st.get("callee") or "").endswith("::index") and "other" in show(s.operand(st["args"][0]))]
    self_w = [x[2] for x in selfs if x[3]]
    if self_w and other_idx:
        if all(o == self_w[0] for o in other_idx) and all(x[2] == self_w[0] for x in selfs):
            res.discharged += 1
            res.sample({"rule": "C08.M", "index": show(self_w[0])})
        elif any(sym.contains(o, lambda t: t[0] == "var") for o in other_idx + [self_w[0]]):
            res.undecided += 1
        else:
            res.violate("C08.M", "C08.M|index", "merge combines self.counts[%s] with other.counts[%s]" % (show(self_w[0]), [show(o) for o in other_idx]), mrg.id)
        rng = C.find_sub(self_w[0], lambda t: t[0] == "agg" and t[1].endswith("Range"))
        if rng is not None and rng[2][0] == ("const", 0) and "len(self.counts)" in show(rng[2][1]):
            res.discharged += 1
        else:
            res.undecided += 1
    else:
        # re-chunked / iterator-zip forms: not decidable by this rule
        res.undecided += 2
    tw = [s.call_expr(mrg.blocks[b].term[1]) if kind == "call" else s.rvalue(rv) for (f, b, kind, place, rv, span, adt, fld) in sym.field_stores(prog, adt=K, field="total_weight", fns=[mrg])]
    def both_tw(e):
        return sym.contains(e, lambda t: t[0] == "field" and t[2] == "total_weight" and t[1][0] == "param" and t[1][1] == 1) and \
            sym.contains(e, lambda t: t[0] == "field" and t[2] == "total_weight" and t[1][0] == "param" and t[1][1] >= 2)
    if any(both_tw(e) for e in tw):
        res.discharged += 1
    elif tw or not any(effect_tw(st.get("callee")) for _, st in mrg.calls()):
        res.violate("C08.M", "C08.M|total", "merge does not add the other sketch's total_weight (stores: %s)" % [show(e)[:60] for e in tw], mrg.id)
    else:
        res.undecided += 1
    res.obligations += 1
    eqs = set()
    for b in mrg.blocks:
        if b.cleanup:
            continue
        if b.term[0] == "switch":
            e = s.operand(b.term[1])
            t = show(e)
            for fld in ("num_hashes", "num_buckets", "seed_hash", "seed", "counts"):
                import re as _re
                if _re.search(r"self\." + fld + r"\b", t) and _re.search(r"\w+\." + fld + r"\b", t.replace("self." + fld, "", 1)):
                    eqs.add(fld)
    if {"num_hashes", "num_buckets", "seed"} <= eqs:
        res.discharged += 1
    elif "seed" not in eqs and "seed_hash" in eqs:
        res.violate("C08.M", "C08.M|compat", "merge checks the 16-bit seed hash instead of the seed: sketches with different seeds (different bucket functions) whose hashes collide are summed cell by cell", mrg.id)
    else:
        res.undecided += 1      # compatibility is a documented precondition; its check may live in a helper
    # iterator / zip forms: both sides of every zip over the two tables must start at the same offset
    zips = []
    for b, st in mrg.calls():
        if (st.get("callee") or "").endswith("Iterator::zip") and len(st["args"]) == 2:
            a0 = C.resolve_var(prog, mrg, s.operand(st["args"][0]), s)
            a1 = C.resolve_var(prog, mrg, s.operand(st["args"][1]), s)
            if "counts" in show(a0) and "counts" in show(a1):
                zips.append((b, a0, a1, st["span"]))
    for b, a0, a1, span in zips:
        res.obligations += 1
        o0, o1 = slice_offset(a0), slice_offset(a1)
        if o0 is None or o1 is None:
            res.undecided += 1
        elif o0 == o1:
            res.discharged += 1
        else:
            res.violate("C08.M", "C08.M|zip-offset", "merge pairs table slices that start at different offsets: %s (offset %s) with %s (offset %s)" % (
                show(a0)[:70], show(o0), show(a1)[:70], show(o1)), mrg.id, span)
    C.pairing_rule(res, prog, "C08.M", "countmin::sketch::CountMinSketch", "counts", "total_weight", 3)
    # and the other way round: a method that scales / adds to the total also touches the table on that path
    n_rev = 0
    for f_, b_ in C.scalar_without_buffer(prog, "countmin::sketch::CountMinSketch", "counts", "total_weight"):
        n_rev += 1
        res.violate("C08.M", "C08.M|%s|total-only" % f_.id, "%s can change total_weight and return without having touched the table on that path: the table and the total "
                    "no longer describe the same stream (an estimate can exceed the total)" % f_.id, f_.id)
    res.obligations += 1
    if not n_rev:
        res.discharged += 1
    res.rule("C08.M", len(mi) + len(zips), 1, "table accesses / zips in merge")
    for nm in ("halve", "decay"):
        f = C.pub_fn(prog, K, nm)
        if f is None:
            continue
        res.obligations += 1
        ops = [(st.get("callee") or "").rsplit("::", 1)[-1] for _, st in f.calls()]
        s2 = Sym(prog, f)
        tot = any(fld == "total_weight" for (ff, b, kind, place, rv, span, adt, fld) in sym.field_stores(prog, adt=K, fns=[f]))
        # positive evidence for halve(): integer halving must not travel through floating point (u64 counters above 2^53
        # would be rounded and an estimate could fall below the halved true count)
        floaty = None
        if nm == "halve":
            for g in C.reach_from(prog, [f]):
                for b in g.blocks:
                    for st in b.stmts:
                        if st[0] == "=" and st[2][0] == "cast" and st[2][-1] in ("f64", "f32") and not g.id.startswith(("core::", "std::")):
                            floaty = g.id
        if floaty:
            res.violate("C08.M", "C08.M|" + nm, "halve() reaches %s, which converts counters to floating point: halving is no longer exact for large counters" % floaty, f.id)
        elif ops.count(nm) >= 2 and tot:
            res.discharged += 1
        elif not tot and not any(effect_tw(st.get("callee")) for _, st in f.calls()):
            res.violate("C08.M", "C08.M|" + nm, "%s changes the table but not total_weight" % nm, f.id)
        else:
            res.undecided += 1

    # ---------------- C08.V counter arithmetic of the unsigned value types: halve = x >> 1, decay = trunc(x as f64 * d) saturating
    n_v = 0
    for g in sorted(prog.fns.values(), key=lambda x: x.id):
        if g.promoted or "UnsignedCountMinValue" not in g.id or g.item_name not in ("halve", "decay"):
            continue
        ty = g.local_ty(1)
        bits_ = {"u8": 8, "u16": 16, "u32": 32, "u64": 64}.get(ty)
        if bits_ is None:
            continue
        e_ = C.ret_expr(prog, g)
        if e_ is None:
            continue
        n_v += 1
        mx = (1 << bits_) - 1
        vals = sorted(set(v for v in (0, 1, 2, 3, 7, 255, 256, 65535, 65536, (1 << 31) + 5, (1 << 32) - 1, 1 << 32, (1 << 32) + 1, (1 << 40) + 12345, (1 << 53) + 2, mx - 1, mx) if v <= mx))
        verdict, wit = None, ""
        try:
            verdict = True
            for x in vals:
                if g.item_name == "halve":
                    got = formula.evaluate(e_, {"@prog": prog, "@ieee": True, "self": x})
                    want = x >> 1
                    if got != want:
                        verdict, wit = False, "%s::halve(%d) = %r, expected %d" % (ty, x, got, want)
                else:
                    for d in (0.0, 0.3, 0.5, 0.999, 1.0):
                        got = formula.evaluate(e_, {"@prog": prog, "@ieee": True, "self": x, g.local_name(2) or "decay": d})
                        want = min(int(float(x) * d), mx)
                        if got != want:
                            verdict, wit = False, "%s::decay(%d, %r) = %r, expected %d" % (ty, x, d, got, want)
        except (formula.Uneval, TypeError):
            verdict = None
        res.tri(verdict, "C08.V", "C08.V|%s|%s" % (ty, g.item_name), "counter arithmetic: %s" % wit, g.id)
    res.rule("C08.V", n_v, 4, "halve / decay of the unsigned counter types")

    # ---------------- C08.V (constants) the public associated constants of every counter type: estimate() starts its minimum over the
    # rows at T::MAX, so a MAX below the type's top caps every estimate (an under-count for large counters); ZERO / ONE seed totals
    n_c = 0
    for k in prog.facts.get("consts", []):
        cid = k.get("id", "")
        if "CountMinValue>::" not in cid or k.get("ty") not in ir.INT_RANGES or not isinstance(k.get("v"), int):
            continue
        nm = cid.rsplit("::", 1)[1]
        want = {"MAX": ir.INT_RANGES[k["ty"]][1], "ZERO": 0, "ONE": 1}.get(nm)
        if want is None:
            continue
        n_c += 1
        res.tri(k["v"] == want, "C08.V", "C08.V|%s|%s" % (k["ty"], nm),
                "counter type %s declares %s = %d, the type's %s is %d: estimate() takes the minimum over the rows starting from MAX, "
                "so a counter above it is reported too low" % (k["ty"], nm, k["v"], nm.lower(), want), cid, k.get("span"))
    res.rule("C08.V.consts", n_c, 24, "MAX / ZERO / ONE of the eight counter types")

    # ---------------- C08.S seeds
    mk = prog.fns.get("countmin::sketch::make_hash_seeds")
    if mk is not None:
        s = Sym(prog, mk)
        res.obligations += 1
        pushes = [s.operand(st["args"][1]) for b, st in mk.calls() if (st.get("callee") or "").endswith("::push")]
        rngs = [s.operand(st["args"][0]) for b, st in mk.calls() if (st.get("callee") or "").endswith("into_iter")]
        ok = bool(pushes) and any("finish128" in show(p) and "seed" in show(p) for p in pushes) and any(r[0] == "agg" and r[1].endswith("Range") and r[2][0] == ("const", 0) and "num_hashes" in show(r[2][1]) for r in rngs)
        if ok:
            res.discharged += 1
        else:
            res.undecided += 1
    # ---------------- C08.K a decision taken after a call that changes a counter looks at the counter after it (common.stale_count_decisions)
    C.stale_count_rule(res, prog, "C08.K", "countmin::", "Count-Min sketch")
    # the hash every slot / row / bucket is derived from is the published one for every way of feeding it (C16 rules on the murmur state)
    n_z = C.emptiness_rule(res, prog, "C08.Z", ["countmin"])
    res.rule("C08.Z", n_z, 1, "the image's EMPTY flag follows total_weight (a sketch halved to zero counters still has a weight)")
    C.import_rules(res, prog, ctx, "C08.H", "C16", ("C16.B", "C16.C", "C16.T", "C16.K", "C16.W"), "MurmurHash3 the Count-Min buckets are derived from", 0, key_filter=lambda k: "urmur" in k)
    res.explanation = ("structural and formula rules over the %d functions reachable from the Count-Min update/estimate/merge/halve/decay entry points: "
                       "index formula and sibling agreement between update and estimate, all-rows loops, element-wise merge, totals" % len(reach))
    res.not_decided = "confidence statistics; merge loops that do not index both tables with one expression are undecided"
    return res
