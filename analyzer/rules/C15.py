"""C15 — t-digest stays small and accurate.

The centroid-count bound (<= 2k+30) and the rank-error bound are numeric consequences of the k2 scale function summed over a
data-dependent merge loop; they are NOT decided.  Decided statically are necessary conditions of both, each a formula or path
fact extracted from MIR and compared with the published algorithm (Dunning & Ertl, merging t-digest with scale function k_2):
  C15.S  scale function: z = 4 ln(n / delta) + 24, normalizer = delta / z, max(q) = q (1 - q) / normalizer
  C15.M  merge criterion: a centroid absorbs the next one exactly when
         proposed <= W * min(max(q0), max(q2)),  q0 = w_so_far / W,  q2 = (w_so_far + proposed) / W,  delta = 2k;
         never for the first and the last element of the sorted run (the extremes stay exact)
  C15.A  Centroid::add: weight' = w1 + w2, mean' = (m1 w1 + m2 w2) / (w1 + w2) on both of its arithmetic paths
  C15.O  the merged run is sorted by mean before the merge loop
  C15.X  min/max are folded from the first/last centroid only after the list has its final order; the merged weight is added
         to the total (centroid weights sum to total_weight, means stay inside [min, max])
  C15.K  capacity: centroids_capacity = 2k + (30 if k < 30 else 10); update() folds the buffer when it holds
         capacity * BUFFER_MULTIPLIER values, before pushing the next one
Not decided: the centroid-count bound and the rank-error bound themselves.
"""
import math
import random

from .. import ir, sym, formula
from ..main import Result
from . import common as C
from .common import Sym, show

T = "tdigest::sketch::TDigestMut"


def rexpr(prog, f):
    s = Sym(prog, f)
    rets = [b.idx for b in f.blocks if b.term[0] == "return" and not b.cleanup]
    return s.at(rets[0]).local(0) if len(rets) == 1 else None


def run(prog, ctx):
    res = Result("C15")
    rnd = random.Random(15)
    dm = C.fn_one(prog, T, "do_merge")
    res.rule("C15.entry", 1 if dm else 0, 1, "TDigestMut::do_merge")
    if dm is None:
        return res
    res.entry_points = [dm.id]
    analysed = {dm.id}

    def law(rule, key, ok, msg, fid=None):
        res.obligations += 1
        if ok is None:
            res.undecided += 1
            res.extra.setdefault("undecided_items", []).append("%s %s" % (rule, msg))
        elif ok:
            res.discharged += 1
        else:
            res.violate(rule, "%s|%s" % (rule, key), msg, fid)

    # ---------------- C15.S scale function
    n_s = 0
    spec = {"z": lambda c, n: 4.0 * math.log(n / c) + 24.0,
            "normalizer": lambda c, n: c / (4.0 * math.log(n / c) + 24.0),
            "max": lambda q, nz: q * (1.0 - q) / nz}
    for name, fn_spec in sorted(spec.items()):
        f = [x for x in prog.fns.values() if not x.promoted and x.item_name == name and "scale_function" in x.id]
        if len(f) != 1:
            continue
        f = f[0]
        analysed.add(f.id)
        e = rexpr(prog, f)
        n_s += 1
        bad = None
        try:
            for _ in range(200):
                if name == "max":
                    args = (rnd.random(), rnd.uniform(0.5, 60.0))
                else:
                    args = (float(rnd.choice([20, 40, 200, 1000])), float(rnd.choice([1, 7, 500, 10 ** 6, 10 ** 12])))
                env = {"@prog": prog, "@ieee": True}
                for i, a in enumerate(args):
                    env[f.local_name(i + 1) or "arg%d" % (i + 1)] = a
                got, want = formula.evaluate(e, env), fn_spec(*args)
                if abs(got - want) > 1e-12 * max(1.0, abs(want)):
                    bad = "%s%r = %r, k2 scale function gives %r" % (name, args, got, want)
                    break
            law("C15.S", name, bad is None, "scale_function::%s differs from the k2 scale function: %s" % (name, bad), f.id)
        except formula.Uneval as u:
            law("C15.S", name, None, "scale_function::%s not evaluable: %s" % (name, u))
    res.rule("C15.S", n_s, 3, "scale-function routines compared with k2")

    # ---------------- C15.M merge criterion
    s = Sym(prog, dm)
    n_m = 0
    crit = None
    for l in range(len(dm.locals)):
        ds = [d for d in dm.defs().get(l, []) if d[2] == "assign"]
        if len(ds) < 2 or dm.locals[l]["ty"] != "bool":
            continue
        for d in ds:
            e = s.at(d[0], d[1]).rvalue(dm.blocks[d[0]].stmts[d[1]][2])
            if e[0] == "bin" and e[1] in ("Le", "Lt", "Ge", "Gt") and sym.contains(e, lambda t: t[0] == "call" and "scale_function" in t[1]):
                crit = (l, d, e)
    if crit is not None:
        l, d, e = crit
        n_m += 1
        op, lhs, rhs = e[1], e[2], e[3]
        if op in ("Ge", "Gt"):
            lhs, rhs, op = rhs, lhs, {"Ge": "Le", "Gt": "Lt"}[op]
        bad = None
        try:
            for _ in range(300):
                k = rnd.choice([10, 25, 100, 200, 500])
                W = rnd.choice([50, 1000, 10 ** 6])
                wsf = rnd.uniform(0, W * 0.98)
                wc, wb = float(rnd.choice([1, 2, 5, 40])), float(rnd.choice([1, 1, 3, 17]))
                env = {"@prog": prog, "@ieee": True, "self.k": k, "self.centroids_weight": W, "weight_so_far": wsf,
                       "self.centroids": "C", "buffer": "B", "@fn:index": lambda base, i: base, "@fn:weight": lambda el: {"C": wc, "B": wb}[el],
                       # merge() runs do_merge while the receiver's own buffer is still pending: the total the scale function sees
                       # must not depend on it
                       "self.buffer": [0.0] * 7, "len(self.buffer)": 7,
                       "@lenient": ("index",)}
                P = formula.evaluate(lhs, env)
                R = formula.evaluate(rhs, env)
                nz = (2.0 * k) / (4.0 * math.log(W / (2.0 * k)) + 24.0)
                q0, q2 = wsf / W, (wsf + P) / W
                want = W * min(q0 * (1 - q0) / nz, q2 * (1 - q2) / nz)
                if abs(P - (wc + wb)) > 1e-9 or abs(R - want) > 1e-9 * max(1.0, abs(want)):
                    bad = "k=%d W=%d weight_so_far=%r weights %r+%r: compares %r with %r, the k2 limit is %r" % (k, W, wsf, wc, wb, P, R, want)
                    break
            law("C15.M", "criterion", bad is None and op == "Le", "merge criterion in do_merge is not `proposed <= W * min(max(q0), max(q2))` with delta = 2k: %s" % (bad or "comparison is %s" % op), dm.id)
        except (formula.Uneval, KeyError) as u:
            law("C15.M", "criterion", None, "merge criterion not evaluable: %r" % (u,))
        # extremes are never merged: the criterion is reached only when current != 1 and current != len - 1
        # by value over (current, len): the criterion block is reached for every position except 1 and len - 1
        fp = C.facts_pred(s, d[0])
        fx = s.cmp_facts_at(d[0])
        keys = set()
        for x in fx:
            for y in x[1:]:
                if isinstance(y, tuple):
                    keys |= set(formula.leaves(y))
        cur_k = [k for k in keys if not k.startswith("len(") and "." not in k and ("len(%s)" % k) not in keys]
        len_k = [k for k in keys if k.startswith("len(")]
        verdict = None
        witness = ""
        if len(cur_k) == 1 and len(len_k) == 1:
            verdict = True
            for n_ in (2, 3, 4, 7, 50):
                for c_ in range(1, n_):
                    holds, n_ev = fp({"@prog": prog, cur_k[0]: c_, len_k[0]: n_})
                    if n_ev == 0:
                        verdict = None
                    elif verdict is not None and holds != (c_ != 1 and c_ != n_ - 1):
                        verdict = False
                        witness = "position %d of %d %s the criterion" % (c_, n_, "reaches" if holds else "does not reach")
        law("C15.M", "extremes", verdict, "the merge criterion must be evaluated for every element of the sorted run except the first and the last (they stay single samples): %s" % witness, dm.id)
        # every other definition of the flag is `false`
        others = [s.at(dd[0], dd[1]).rvalue(dm.blocks[dd[0]].stmts[dd[1]][2]) for dd in dm.defs()[l] if dd[2] == "assign" and dd != d]
        law("C15.M", "default", all(o in (("const", False), ("const", 0)) for o in others), "the merge flag has a default other than `false`: %s" % [show(o) for o in others], dm.id)
    res.rule("C15.M", n_m, 1, "merge criterion in do_merge")

    # ---------------- C15.A Centroid::add
    n_a = 0
    add = [x for x in prog.fns.values() if not x.promoted and x.item_name == "add" and x.owner and x.owner.endswith("Centroid")]
    if add:
        add = add[0]
        analysed.add(add.id)
        sa = Sym(prog, add)
        em = sa.field_exit_value("mean") or sa.field_exit_value_seq("mean")
        ew = sa.field_exit_value("weight") or sa.field_exit_value_seq("weight")
        n_a += 1
        if em is None or ew is None:
            law("C15.A", "add", None, "no closed form for Centroid::add")
        else:
            bad = None
            try:
                for fin in (1, 0):
                    for _ in range(100):
                        m1, m2 = rnd.uniform(-1e6, 1e6), rnd.uniform(-1e6, 1e6)
                        w1, w2 = rnd.choice([1, 2, 9, 1000]), rnd.choice([1, 3, 77])
                        env = {"@prog": prog, "@ieee": True, "self.mean": m1, "self.weight": w1, "other.mean": m2, "other.weight": w2,
                               "@fn:get": lambda x: x, "@fn:is_finite": lambda x, _f=fin: _f, "@fn:mul_add": lambda a, b, c: a * b + c,
                               "@fn:checked_add": lambda a, b: a + b, "@fn:expect": lambda a, *r: a}
                        gm, gw = formula.evaluate(em, env), formula.evaluate(ew, env)
                        want = (m1 * w1 + m2 * w2) / (w1 + w2)
                        if isinstance(gw, tuple):
                            gw = gw[2] if len(gw) > 2 else None
                        if abs(gm - want) > 1e-9 * max(1.0, abs(want)) or gw != w1 + w2:
                            bad = "(%r,w%d)+(%r,w%d) [delta finite=%d]: mean %r weight %r, expected %r, %d" % (m1, w1, m2, w2, fin, gm, gw, want, w1 + w2)
                            break
                    if bad:
                        break
                law("C15.A", "add", bad is None, "Centroid::add is not the weighted mean / weight sum: %s" % bad, add.id)
                # two centroids of the same mean merge to exactly that mean (otherwise a run of ties drifts outside [min, max] and
                # out of order): exact, with the real finiteness test
                n_a += 1
                bad = None
                for _ in range(400):
                    m = rnd.choice([0.1, 19.99, -3.3, 1e300, rnd.uniform(-1e6, 1e6), rnd.uniform(-1, 1)])
                    w1, w2 = rnd.choice([1, 2, 3, 7, 9, 1000, 12345]), rnd.choice([1, 3, 5, 77, 4097])
                    env = {"@prog": prog, "@ieee": True, "self.mean": m, "self.weight": w1, "other.mean": m, "other.weight": w2,
                           "@fn:get": lambda x: x, "@fn:is_finite": lambda x: math.isfinite(x), "@fn:mul_add": lambda a, b, c: a * b + c,
                           "@fn:checked_add": lambda a, b: a + b, "@fn:expect": lambda a, *r: a}
                    gm = formula.evaluate(em, env)
                    if gm != m:
                        bad = "(%r,w%d)+(%r,w%d) gives mean %r" % (m, w1, m, w2, gm)
                        break
                # finite means of huge magnitude and opposite sign: the difference overflows in either direction, the merged mean
                # must still be the (finite) weighted mean
                n_a += 1
                bad_h = None
                for m1, m2 in ((1e308, -1e308), (-1e308, 1e308), (1.7e308, -1.7e308), (-1.2e308, 1.6e308), (1e308, 9e307)):
                    for w1, w2 in ((1, 1), (3, 1), (2, 7)):
                        env = {"@prog": prog, "@ieee": True, "self.mean": m1, "self.weight": w1, "other.mean": m2, "other.weight": w2,
                               "@fn:get": lambda x: x, "@fn:mul_add": lambda a, b, c: a * b + c,
                               "@fn:checked_add": lambda a, b: a + b, "@fn:expect": lambda a, *r: a}
                        gm = formula.evaluate(em, env)
                        want = m1 * (w1 / (w1 + w2)) + m2 * (w2 / (w1 + w2))
                        if not (isinstance(gm, float) and math.isfinite(gm) and abs(gm - want) <= 1e-9 * max(abs(m1), abs(m2))):
                            bad_h = bad_h or "(%r,w%d)+(%r,w%d) gives mean %r, expected %r" % (m1, w1, m2, w2, gm, want)
                law("C15.A", "huge", bad_h is None, "Centroid::add of finite means of huge magnitude does not give the finite weighted mean: %s" % bad_h, add.id)
                law("C15.A", "ties", bad is None, "Centroid::add of two centroids with the same mean does not return exactly that mean: %s" % bad, add.id)
            except formula.Uneval as u:
                law("C15.A", "add", None, "Centroid::add not evaluable: %s" % u)
    res.rule("C15.A", n_a, 3, "Centroid::add")

    # ---------------- C15.W who fills the centroid list: only the routine that applies the merge criterion (and constructors, which
    # build a fresh value) may put centroids into `self.centroids`; any other `&mut self` method that stores into the list, pushes /
    # extends it, or replaces `*self` wholesale by-passes the size control (clearing, reversing, sorting, reserving are fine)
    n_w = 0
    SHRINK_OR_PERMUTE = ("clear", "reverse", "sort_by", "sort_unstable_by", "sort", "truncate", "reserve", "reserve_exact", "shrink_to_fit", "drain", "retain", "dedup", "swap", "len", "is_empty", "iter", "capacity", "as_slice", "deref", "first", "last", "get", "binary_search_by")
    for f in C.fns_of(prog, T):
        if f.promoted or f.argc < 1 or not f.local_ty(1).startswith("&mut") or f.id == dm.id or "{closure" in f.id:
            continue
        for b in sorted(C.buffer_mutations(f, "centroids")):
            t = f.blocks[b].term
            nm = (t[1].get("callee") or "").rsplit("::", 1)[-1] if t[0] == "call" else ""
            stores = any(st[0] == "=" and not isinstance(st[1], int) for st in f.blocks[b].stmts)
            if nm in SHRINK_OR_PERMUTE and not stores:
                continue
            if nm in ("take", "replace") and not stores:
                # moving the list out (mem::take / mem::replace with a fresh vector) empties it; nothing is put in
                a_ = t[1]["args"]
                fresh = nm == "take"
                if nm == "replace" and len(a_) == 2:
                    try:
                        e2 = Sym(prog, f).at(b, "t").operand(a_[1])
                        fresh = e2[0] == "call" and e2[1].rsplit("::", 1)[-1] in ("new", "with_capacity", "default")
                    except Exception:
                        fresh = False
                if fresh:
                    continue
            n_w += 1
            law("C15.W", "%s" % f.id, False, "%s puts centroids into the list without going through the merge criterion of %s (%s)" % (
                f.id, dm.id, "call of `%s`" % nm if nm and not stores else "direct store"), f.id)
    n_w += 1
    law("C15.W", "owner", True, "")
    res.rule("C15.W", n_w, 1, "writers of the centroid list other than the merge routine")

    # ---------------- C15.O sorted before the merge loop
    n_o = 0
    SORTS = ("sort_by", "sort_unstable_by", "sort_by_key", "sort_unstable_by_key")
    sorts = [(b, site) for b, site in dm.calls() if (site.get("callee") or "").rsplit("::", 1)[-1] in SORTS]
    # the sort may sit in a helper the merge routine calls first (prepare / take the sorted input, then merge)
    helper_sorts = [b for b, site in dm.calls() if (site.get("callee") or "") in prog.fns and any(
        (st_.get("callee") or "").rsplit("::", 1)[-1] in SORTS for g_ in C.reach_from(prog, [site["callee"]]) for _b, st_ in g_.calls())]
    loops = Sym(prog, dm, ifconv=False).loops()
    if loops:
        n_o += 1
        hdr = min(h for h, _ in loops)
        ok = any(dm.dominates(b, hdr) for b, _ in sorts) or any(dm.dominates(b, hdr) for b in helper_sorts)
        if not ok and (sorts or helper_sorts):
            ok = None       # a sort exists but not in a shape whose position this rule can place
        law("C15.O", "sorted", ok, "do_merge does not sort the merged run before the merge loop", dm.id)
        cmpf = [x for x in prog.fns.values() if not x.promoted and x.item_name == "centroid_cmp"]
        if cmpf and sorts:
            uses = any(sym.contains(s.at(b, "t").operand(a), lambda t: t[0] == "fnref" and t[1].endswith("centroid_cmp")) for b, site in sorts for a in site["args"])
            ce = rexpr(prog, cmpf[0])
            by_mean = ce is not None and sym.contains(ce, lambda t: t[0] == "call" and t[1].endswith("partial_cmp") and len(t[2]) == 2 and all(
                sym.contains(a, lambda u: u[0] == "field" and u[2] == "mean") for a in t[2]) and "a" in show(t[2][0]) and "b" in show(t[2][1]))
            law("C15.O", "comparator", (uses and by_mean) if ce is not None else None, "the sort comparator is not `a.mean.partial_cmp(&b.mean)` (uses centroid_cmp: %s, compares means in order: %s)" % (uses, by_mean), dm.id)
    res.rule("C15.O", n_o, 1, "ordering of the merged run")

    # ---------------- C15.K capacity and fold trigger
    n_k = 0
    capf, capv = C.tdigest_capacity_field(prog)
    n_k += 1
    law("C15.K", "capacity", capv, "the centroid capacity (%s) is not initialised to 2k + (30 if k < 30 else 10)" % capf)
    up = C.pub_fn(prog, T, "update")
    if up is not None and capf and capv:
        analysed.add(up.id)
        su = Sym(prog, up)
        push = [b for b, site in up.calls() if (site.get("callee") or "").rsplit("::", 1)[-1] == "push"]
        comp = [b for b, site in up.calls() if (site.get("callee") or "").startswith("tdigest::") and (site.get("callee") or "").rsplit("::", 1)[-1] != "push"]
        if push:
            n_k += 1
            verdict = None
            for cb in comp:
                fc = C.facts_pred(su, cb)
                ok_all, any_eval = True, False
                for cap in (30, 50, 210):
                    for ln in (0, 1, cap, 4 * cap - 1, 4 * cap, 4 * cap + 1):
                        holds, n_ev = fc({"@prog": prog, "self." + capf: cap, "len(self.buffer)": ln, "value": 1.5})
                        if n_ev == 0:
                            continue
                        any_eval = True
                        if holds != (ln == 4 * cap) and not (holds and ln > 4 * cap):
                            ok_all = False
                if any_eval and any(su._reaches(cb, pb) for pb in push):
                    verdict = ok_all if verdict is None else (verdict and ok_all)
            law("C15.K", "fold", verdict, "update() does not fold the buffer exactly when it holds capacity * BUFFER_MULTIPLIER (4) values before pushing", up.id)
    res.rule("C15.K", n_k, 2, "capacity formula and fold trigger")

    # ---------------- C15.X means inside [min, max]: the extremes are folded from the first/last centroid after the list has its
    # final order; centroid weights sum to the total (shared with C10.X)
    from . import C10
    C10.check_extremes(prog, res, "C15.X")
    res.functions_analysed = len(analysed)
    # ---------------- C15.C a centroid list travels with its own weight: wherever a digest is rebuilt from another digest's centroid list
    # (clone, freeze, unfreeze, hand-written copies), the weight handed along is that list's weight -- not the total that also counts
    # values still waiting in the buffer (they would be counted twice once the copy folds its buffer).  By value.
    n_cw = 0
    for f in sorted((x for x in prog.fns.values() if not x.promoted and "tdigest::sketch::TDigest" in x.id), key=lambda x: x.id):
        sf = None
        sites_ = []
        for b, site in f.calls():
            if (site.get("callee") or "").endswith("TDigestMut::make") and len(site["args"]) >= 7:
                sites_.append((b, "t", site["args"][4], site["args"][5], site.get("span")))
        for b in f.blocks:
            if b.cleanup:
                continue
            for i_, st in enumerate(b.stmts):
                if st[0] == "=" and st[2][0] == "agg" and isinstance(st[2][1], (list, tuple)) and st[2][1][0] == "adt" and st[2][1][1] in (
                        "tdigest::sketch::TDigestMut", "tdigest::sketch::TDigest"):
                    ops = dict(zip(st[2][1][4], st[2][2]))
                    if "centroids" in ops and "centroids_weight" in ops:
                        sites_.append((b.idx, i_, ops["centroids"], ops["centroids_weight"], st[3]))
        for (b, pos, c_op, w_op, span) in sites_:
            sf = sf or Sym(prog, f)
            try:
                ce = sf.at(b, pos).operand(c_op)
                we = sf.at(b, pos).operand(w_op)
            except Exception:
                continue
            while ce[0] == "call" and ce[1].rsplit("::", 1)[-1] in ("clone", "to_vec", "to_owned") and ce[2]:
                ce = ce[2][0]
            if not (ce[0] == "field" and ce[2] == "centroids" and ce[1][0] == "param"):
                continue        # not another digest's whole centroid list
            owner_show = show(ce[1])
            n_cw += 1
            env = {"@prog": prog, owner_show + ".centroids_weight": 10, "len(%s.buffer)" % owner_show: 3, owner_show + ".buffer": [1.0, 2.0, 3.0]}
            try:
                got = formula.evaluate(we, env)
            except (formula.Uneval, TypeError, IndexError):
                got = None
            res.tri(None if got is None else got == 10, "C15.C", "C15.C|%s" % f.id, "%s rebuilds a digest from `%s.centroids` with weight %s: with 3 values buffered and centroids "
                    "of weight 10 that is %r, not 10 -- the buffered values are counted twice when the copy folds its buffer" % (f.id, owner_show, show(we)[:60], got), f.id, span)
    res.rule("C15.C", n_cw, 1, "digests rebuilt from another digest's centroid list")
    res.explanation = ("formulas and path facts of the t-digest compression (scale function, merge criterion, centroid addition, ordering, capacity) "
                       "extracted from MIR and compared with the published merging t-digest / k2 scale function on grids")
    res.not_decided = "the bound of 2k+30 centroids and the rank-error bound (numeric consequences of the loop over all data)"
    return res
