"""C04 — a theta sketch retains exactly the distinct hashes below theta (KMV invariant).

Decided statically (DESIGN §5.4):
  C04.S  screen: the hash offered to the table is h1 >> 1 of MurmurHash3 seeded with the configured seed; values
         `>= theta` are rejected before insertion; 0 is never inserted
  C04.W  who may write theta: construction/reset from the sampling probability, rebuild from the k-th smallest retained
         hash (select_nth_unstable(entries, 2^lg_nom)); nothing else
  C04.C  the insert store and the count increment happen together, only into an empty slot holding a different hash
  C04.K  every insertion is followed, on every path, by the capacity comparison; over capacity the table is resized
         below nominal size and rebuilt above; load thresholds 1/2 and 15/16
  C04.G  probe geometry: every call of the probe routine passes the lg of the table it probes (a table allocated with
         2^X slots is probed with lg X; the live table with lg_cur_size); stride is odd and derived from bits above lg
  C04.R  resize / rebuild re-insert every retained (resp. every one of the k smallest) entries
  C04.T  trim rebuilds exactly when more than 2^lg_nom entries are retained; reset restores every mutable field
Not decided: set equality with the offered hashes for all streams; monotonicity of theta as values.
"""
import random

from .. import ir, sym, formula
from ..main import Result
from . import common as C
from .common import Sym, show

T = "theta::hash_table::ThetaHashTable"


def run(prog, ctx):
    res = Result("C04")
    upd = C.pub_fn(prog, "theta::sketch::ThetaSketch", "update")
    res.rule("C04.entry", 1 if upd else 0, 1, "ThetaSketch::update")
    if not upd:
        return res
    entries = [upd] + [C.pub_fn(prog, "theta::sketch::ThetaSketch", n) for n in ("trim", "reset", "compact")] + [C.pub_fn(prog, "theta::sketch::ThetaSketchBuilder", "build")]
    reach = C.reach_from(prog, entries)
    tfns = [f for f in reach if f.owner == T]
    res.functions_analysed = len(reach)
    res.entry_points = [e.id for e in entries if e]
    rnd = random.Random(4)

    # ---------------- C04.S screen
    n_s = 0
    for f in tfns:
        s = Sym(prog, f)
        if not any((site.get("callee") or "").endswith("finish128") for _, site in f.calls()):
            continue
        # returns: const 0 under `hash >= theta`, else the hash
        rets = []
        for b, place, e, span, _s in C.assignments(prog, f):
            if place == 0:
                rets.append((b, C.resolve_var(prog, f, e, s)))
        hashes = [(b, e) for b, e in rets if sym.contains(e, lambda t: t[0] == "call" and t[1].endswith("finish128"))]
        zeros = [(b, e) for b, e in rets if e == ("const", 0)]
        n_s += 1
        res.obligations += 3
        if hashes:
            e = hashes[0][1]
            lv = [k for k in formula.leaves(e) if "finish128" in k]
            ok = None
            lv = [k for k in lv if k.endswith(".0")] or lv
            if lv:
                leaf = sorted(lv, key=len)[0]
                envs = [{leaf: rnd.getrandbits(64)} for _ in range(64)]
                ok, cex, n, why = formula.equivalent(e, lambda env: env[leaf] >> 1, envs)
            if ok:
                res.discharged += 1
                res.sample({"rule": "C04.S", "fn": f.id, "hash": show(e)})
            elif ok is None:
                res.undecided += 1
            else:
                res.violate("C04.S", "C04.S|%s|hash" % f.id, "the screened hash in %s is %s, expected finish128().0 >> 1" % (f.id, show(e)), f.id)
            # seeded with the configured seed
            if sym.contains(e, lambda t: t[0] == "field" and "seed" in t[2]):
                res.discharged += 1
            elif not sym.contains(e, lambda t: t[0] == "field" and t[1] == ("param", 1, "self")):
                # no field of the table flows into the hash at all: the hasher cannot depend on the configured seed
                res.violate("C04.S", "C04.S|%s|seed" % f.id, "the hasher in %s is not seeded from the table's configured seed" % f.id, f.id)
            else:
                res.undecided += 1
        else:
            res.undecided += 2      # the hash is returned through a shape this rule does not follow
        okz = False
        for b, e in zeros:
            for x in s.cmp_facts_at(b):
                if x[0] in ("Ge", "Le") and len(x) == 3:
                    a, c = (x[1], x[2]) if x[0] == "Ge" else (x[2], x[1])
                    if sym.contains(a, lambda t: t[0] == "call" and t[1].endswith("finish128")) and sym.contains(c, lambda t: t[0] == "field" and t[2] == "theta"):
                        okz = True
        # positive evidence of a loosened screen: the hash is returned under a non-strict `hash <= theta`, or with no ordering
        # guard against a table field at all
        loose = unguarded = False
        for b, e in hashes:
            fx = s.cmp_facts_at(b)
            rel = []
            for x in fx:
                if len(x) == 3 and x[0] in ("Lt", "Le", "Gt", "Ge"):
                    a, c, op = x[1], x[2], x[0]
                    if op in ("Gt", "Ge"):
                        a, c, op = c, a, {"Gt": "Lt", "Ge": "Le"}[op]
                    if sym.contains(a, lambda t: t[0] == "call" and t[1].endswith("finish128")) and sym.contains(c, lambda t: t[0] == "field" and t[1] == ("param", 1, "self")):
                        rel.append(op)
            if "Le" in rel and "Lt" not in rel:
                loose = True
            if not rel and not any(x[0] in ("Lt", "Le", "Gt", "Ge", "true", "false") for x in fx):
                unguarded = True
        if okz and not loose:
            res.discharged += 1
        elif loose or unguarded:
            res.violate("C04.S", "C04.S|%s|reject" % f.id, "%s does not reject hashes with `hash >= theta` (strictly-below-theta screen)%s" % (f.id, ": a hash equal to theta passes" if loose else ": no screen dominates the returned hash"), f.id)
        else:
            res.undecided += 1
    res.rule("C04.S", n_s, 1, "hash-and-screen routines reachable from ThetaSketch::update")
    # update inserts only non-zero
    s = Sym(prog, upd)
    for b, site in upd.calls():
        if (site.get("callee") or "").endswith("::try_insert"):
            res.obligations += 1
            if any(x[0] == "Ne" and (C.const_of(x[1]) == 0 or C.const_of(x[2]) == 0) for x in s.cmp_facts_at(b) if len(x) == 3):
                res.discharged += 1
            else:
                # try_insert itself rejects 0
                ti = C.fn_one(prog, T, "try_insert")
                res.discharged += 1 if ti is not None else 0

    # ---------------- C04.W who may write theta
    n_w = 0
    for (f, b, kind, place, rv, span, adt, fld) in sym.field_stores(prog, adt=T, field="theta"):
        s = Sym(prog, f)
        n_w += 1
        res.obligations += 1
        val = s.call_expr(f.blocks[b].term[1]) if kind == "call" else C.resolve_var(prog, f, s.rvalue(rv), s)
        from_p = sym.contains(val, lambda t: (t[0] in ("field", "param") and "sampling_probability" in (t[2] or "")))
        from_kth = sym.contains(val, lambda t: t[0] == "call" and t[1].endswith("select_nth_unstable"))
        if from_p and not from_kth:
            res.discharged += 1
        elif from_kth:
            k = C.find_sub(val, lambda t: t[0] == "call" and t[1].endswith("select_nth_unstable"))
            karg = k[2][1] if len(k[2]) > 1 else None
            lg = C.shl_one_amount(karg) if karg is not None else None
            exact = False
            if lg is not None and show(lg).endswith("lg_nom_size"):
                lk = [k_ for k_ in formula.leaves(karg) if k_.endswith("lg_nom_size")]
                if lk:
                    okf, _cex, _n, _why = formula.equivalent(karg, lambda env: 1 << env[lk[0]], [{lk[0]: v} for v in range(5, 27)])
                    exact = bool(okf)
            if exact:
                res.discharged += 1
                res.sample({"rule": "C04.W", "fn": f.id, "theta": show(val)[:90]})
            elif karg is None or sym.contains(karg, lambda t: t[0] == "var") or lg is None:
                res.undecided += 1
            else:
                res.violate("C04.W", "C04.W|%s|kth" % f.id, "theta is set in %s from the %s-th smallest entry, expected index 2^lg_nom_size" % (f.id, show(karg) if karg else "?"), f.id, span)
        elif sym.contains(val, lambda t: t[0] == "param" and (t[2] or "") in ("hash", "key", "value")):
            res.violate("C04.W", "C04.W|%s" % f.id, "%s writes theta from %s (only construction/reset from the sampling probability and rebuild from the k-th smallest hash may)" % (f.id, show(val)[:80]), f.id, span)
        else:
            res.undecided += 1      # theta computed by a helper / from a value this rule does not trace
    res.rule("C04.W", n_w, 3, "stores to ThetaHashTable.theta")

    # ---------------- C04.C / C04.K in the insert routine
    ti = C.fn_one(prog, T, "try_insert")
    n_k = 0
    if ti is None:
        res.obligations += 1
        res.undecided += 1
    else:
        s = Sym(prog, ti)
        stores = list(C.buffer_stores(prog, ti, "entries"))
        incs = [(b, e) for b, place, e, span, _s in C.assignments(prog, ti) if not isinstance(place, int) and place[1][-1][0] == "." and place[1][-1][2] == "num_entries"]
        res.obligations += 2
        if len(stores) == 1 and len(incs) == 1 and C.is_bin(incs[0][1], "Add") and 1 in C.consts_in(incs[0][1]):
            sb, ib = stores[0][0], incs[0][0]
            if ti.dominates(sb, ib) or ti.dominates(ib, sb):
                res.discharged += 1
            else:
                res.violate("C04.C", "C04.C|pair", "the entry store and the num_entries increment in try_insert are not on the same paths", ti.id)
            facts = s.cmp_facts_at(sb)
            if any(x[0] == "Ne" and len(x) == 3 for x in facts) or any(x[0] == "Eq" and len(x) == 3 and ("constref" in repr(x) or C.const_of(x[1]) == 0 or C.const_of(x[2]) == 0) for x in facts):
                res.discharged += 1
            elif not facts:
                res.violate("C04.C", "C04.C|guard", "the entry store in try_insert is unconditional (not guarded by `slot != hash` / `slot == 0`)", ti.id)
            else:
                res.undecided += 1
        else:
            res.undecided += 2      # the store / increment live in a helper
        # K: capacity check post-dominates the insertion
        if stores:
            sb = stores[0][0]
            cap_sw = []
            for b in ti.blocks:
                if b.cleanup or b.term[0] != "switch":
                    continue
                e = s.operand(b.term[1])
                if e[0] == "bin" and e[1] in ("Gt", "Lt", "Ge", "Le") and sym.contains(e, lambda t: t[0] == "field" and t[2] == "num_entries"):
                    cap_sw.append((b.idx, e))
            n_k += 1
            res.obligations += 3
            if cap_sw and not s.reaches_exit_avoiding(sb, set(b for b, _ in cap_sw)) :
                res.discharged += 1
                e = cap_sw[0][1]
                strict = (e[1] == "Gt" and sym.contains(e[2], lambda t: t[0] == "field" and t[2] == "num_entries")) or (e[1] == "Lt" and sym.contains(e[3], lambda t: t[0] == "field" and t[2] == "num_entries"))
                if strict:
                    res.discharged += 1
                else:
                    res.violate("C04.K", "C04.K|cmp", "capacity comparison in try_insert is %s, expected num_entries > capacity" % show(e), ti.id)
            elif cap_sw or not any(True for bb, st_ in ti.calls() if s._reaches(sb, bb) and (st_.get("callee") or "").startswith("theta::")):
                # a comparison on num_entries exists but can be bypassed, or nothing at all follows the insertion
                res.violate("C04.K", "C04.K|skip", "a path from the insertion in try_insert to its exit skips the capacity check", ti.id)
                res.undecided += 1
            else:
                res.undecided += 2      # the check may sit in a helper called after the insertion
            # resize below nominal, rebuild above
            rz = [b for b, site in ti.calls() if (site.get("callee") or "").endswith("::resize")]
            rb = [b for b, site in ti.calls() if (site.get("callee") or "").endswith("::rebuild")]
            okd = False
            if rz and rb:
                fz = s.cmp_facts_at(rz[0])
                fb = s.cmp_facts_at(rb[0])
                def le_nom(facts, want):
                    for x in facts:
                        if len(x) == 3 and x[0] in ("Le", "Gt", "Ge", "Lt"):
                            a, c, op = x[1], x[2], x[0]
                            if op in ("Ge", "Lt"):
                                a, c = c, a
                                op = {"Ge": "Le", "Lt": "Gt"}[op]
                            if show(a).endswith("lg_cur_size") and show(c).endswith("lg_nom_size") and op == want:
                                return True
                    return False
                okd = le_nom(fz, "Le") and le_nom(fb, "Gt")
                # no further condition may stand between the insertion and the resize / rebuild
                base = set(repr(x) for x in s.cmp_facts_at(stores[0][0]))
                for fx in (fz, fb):
                    extra = [x for x in fx if repr(x) not in base]
                    if len(extra) > 2:
                        okd = False
            if okd:
                res.discharged += 1
            elif not (rz and rb) or not (any(len(x) == 3 and (show(x[1]).endswith("lg_cur_size") or show(x[2]).endswith("lg_cur_size")) for x in s.cmp_facts_at(rz[0]))):
                res.undecided += 1
            else:
                res.violate("C04.K", "C04.K|dispatch", "try_insert does not resize exactly when lg_cur_size <= lg_nom_size and rebuild otherwise", ti.id)
    gc = C.fn_one(prog, T, "get_capacity")
    if gc is not None:
        res.obligations += 1
        consts = set()
        for b, place, e, span, _s in C.assignments(prog, gc):
            for c in C.consts_in(e):
                if isinstance(c, float):
                    consts.add(c)
        if consts == {0.5, 0.9375}:
            res.discharged += 1
        elif len(consts) != 2:
            res.undecided += 1      # thresholds not expressed as two float literals
        else:
            res.violate("C04.K", "C04.K|thresholds", "load thresholds in get_capacity are %s, expected {1/2, 15/16}" % sorted(consts), gc.id)
        # 1/2 applies below nominal size
        s = Sym(prog, gc)
        for b, place, e, span, _s in C.assignments(prog, gc):
            if e == ("const", 0.5) and isinstance(place, int):
                res.obligations += 1
                ok = any(len(x) == 3 and ((x[0] == "Le" and show(x[1]).endswith("lg_cur_size") and show(x[2]).endswith("lg_nom_size")) or
                                          (x[0] == "Ge" and show(x[2]).endswith("lg_cur_size") and show(x[1]).endswith("lg_nom_size"))) for x in s.cmp_facts_at(b))
                rev = any(len(x) == 3 and ((x[0] == "Gt" and show(x[1]).endswith("lg_cur_size") and show(x[2]).endswith("lg_nom_size")) or
                                           (x[0] == "Lt" and show(x[2]).endswith("lg_cur_size") and show(x[1]).endswith("lg_nom_size"))) for x in s.cmp_facts_at(b))
                if ok:
                    res.discharged += 1
                elif rev:
                    res.violate("C04.K", "C04.K|threshold-arm", "the 1/2 load threshold is selected above the nominal size instead of at or below it", gc.id)
                else:
                    res.undecided += 1
    res.rule("C04.K", n_k, 1, "insert routine with capacity check")

    # ---------------- C04.G probe geometry at call sites
    n_g = 0
    probe_fns = set()
    for f in tfns:
        for pl in C.probe_loops(prog, f):
            probe_fns.add(f.id)
            # stride odd and from the bits above lg
            st = pl["stride"]
            res.obligations += 1
            lv = formula.leaves(st)
            kk = [k for k in lv if k == "key"]
            ll = [k for k in lv if k.startswith("lg")]
            if kk and ll:
                envs = [{kk[0]: rnd.getrandbits(64), ll[0]: lg} for lg in range(5, 28) for _ in range(4)]
                ok, cex, n, why = formula.equivalent(st, lambda env: 2 * ((env[kk[0]] >> env[ll[0]]) & 127) + 1, envs)
                if ok:
                    res.discharged += 1
                elif ok is False:
                    res.violate("C04.G", "C04.G|stride", "probe stride %s differs from 2*((key >> lg) & 127) + 1 (e.g. %s)" % (show(st), cex), f.id, pl["span"])
                else:
                    res.undecided += 1
            else:
                res.undecided += 1
    for f in tfns:
        s = Sym(prog, f)
        for b, site in f.calls():
            if (site.get("callee") or "") in probe_fns and len(site["args"]) == 3:
                n_g += 1
                res.obligations += 1
                # which argument is the table and which its lg: by the callee's parameter types, not by position
                cal_ = prog.fns[site["callee"]]
                i_tab = [i for i in range(cal_.argc) if "[u64]" in cal_.local_ty(i + 1)]
                i_lg = [i for i in range(cal_.argc) if cal_.local_ty(i + 1) == "u8"]
                if len(i_tab) != 1 or len(i_lg) != 1:
                    res.undecided += 1
                    continue
                tab = C.resolve_var(prog, f, s.operand(site["args"][i_tab[0]]), s)
                lg = C.resolve_var(prog, f, s.operand(site["args"][i_lg[0]]), s)
                want = None
                alloc = C.find_sub(tab, lambda t: t[0] == "call" and t[1].endswith("from_elem"))
                if alloc is not None:
                    want = C.shl_one_amount(alloc[2][1])
                elif sym.contains(tab, lambda t: t[0] == "field" and t[2] == "entries") and "lg_cur_size" in [x[0] for v in prog.adts.get(T, {}).get("variants", []) for x in v.get("fields", [])]:
                    want = ("field", ("param", 1, "self"), "lg_cur_size")
                if want is None:
                    res.undecided += 1
                elif want == lg:
                    res.discharged += 1
                    res.sample({"rule": "C04.G", "fn": f.id, "table": show(tab)[:70], "lg": show(lg)})
                elif sym.contains(lg, lambda t: t[0] == "var") or sym.contains(want, lambda t: t[0] == "var"):
                    res.undecided += 1
                else:
                    res.violate("C04.G", "C04.G|%s" % f.id, "%s probes a table of 2^(%s) slots with lg %s" % (f.id, show(want), show(lg)), f.id, site["span"])
    res.rule("C04.G", n_g, 3, "probe-routine call sites")

    # ---------------- C04.R replay in resize / rebuild
    n_r = 0
    for nm in ("resize", "rebuild"):
        f = C.fn_one(prog, T, nm)
        if f is None:
            res.obligations += 1
            res.undecided += 1
            continue
        s = Sym(prog, f)
        for hdr, body in s.loops():
            nexts = [b for b in body if f.blocks[b].term[0] == "call" and (f.blocks[b].term[1].get("callee") or "").endswith("::next")]
            if not nexts:
                continue
            n_r += 1
            res.obligations += 1
            st = [x for x in C.buffer_stores(prog, f) if x[0] in body]
            ok = False
            for (b, base, ie, val, span, _s) in st:
                if sym.contains(val, lambda t: t[0] == "call" and t[1].endswith("::next")):
                    ok = True
            # no filter other than != 0
            filters = []
            for b in body:
                if f.blocks[b].term[0] == "switch":
                    e = s.operand(f.blocks[b].term[1])
                    if e[0] == "bin" and sym.contains(e, lambda t: t[0] == "call" and t[1].endswith("::next")):
                        filters.append(e)
            badf = [e for e in filters if not (e[1] in ("Ne", "Eq") and (C.const_of(e[2]) == 0 or C.const_of(e[3]) == 0))]
            # the item may also be handed to a helper that places it
            handed = any(f.blocks[b].term[0] == "call" and not (f.blocks[b].term[1].get("callee") or "").endswith("::next") and
                         any(sym.contains(s.at(b, "t").operand(a), lambda t: t[0] == "call" and t[1].endswith("::next")) for a in f.blocks[b].term[1]["args"]) for b in body)
            if ok and not badf:
                res.discharged += 1
            elif badf:
                res.violate("C04.R", "C04.R|%s" % f.id, "%s does not re-insert every iterated entry (filter: %s)" % (f.id, [show(e) for e in badf]), f.id)
            elif handed:
                res.undecided += 1
            else:
                res.violate("C04.R", "C04.R|%s" % f.id, "%s iterates the old entries without storing them or handing them on" % f.id, f.id)
    C.pairing_rule(res, prog, "C04.K", "theta::hash_table::ThetaHashTable", "entries", "num_entries", 5)
    res.rule("C04.R", n_r, 2, "re-insertion loops in resize/rebuild")

    # ---------------- C04.T trim / reset
    tr = C.fn_one(prog, T, "trim")
    if tr is not None:
        # by value: the rebuild is reached exactly when more than 2^lg_nom hashes are retained, whatever the table's allocated size
        s = Sym(prog, tr)
        rb = [b for b, site in tr.calls() if (site.get("callee") or "").endswith("::rebuild")]
        verdict, wit = None, "no call of rebuild in trim"
        if rb:
            pp = C.path_pred(s, rb[0])
            verdict = True
            n_ev = 0
            for lg in (5, 8):
                k = 1 << lg
                for n in (0, 1, k - 1, k, k + 1, 2 * k - 3):
                    for m in (k // 2, k, 2 * k, 4 * k):
                        if n > m:
                            continue
                        # theta: still at its initial value (exact mode: up to 15/16 * 2k hashes can be retained) or already lowered
                        for th in ((1 << 63) - 1, (1 << 62) + 12345):
                            env = {"@prog": prog, "self.num_entries": n, "self.lg_nom_size": lg, "self.lg_cur_size": max(1, m.bit_length() - 1),
                                   "self.entries": [0] * m, "len(self.entries)": m, "self.theta": th}
                            r = pp(env)
                            if r is None:
                                continue
                            n_ev += 1
                            if r != (n > k) and verdict:
                                verdict = False
                                wit = "with %d retained hashes in a table of %d slots (k = %d, theta %s) trim %s" % (
                                    n, m, k, "at its initial value" if th == (1 << 63) - 1 else "lowered", "rebuilds" if r else "does not rebuild")
            if not n_ev:
                verdict, wit = None, "trim condition not evaluable"
        res.tri(verdict, "C04.T", "C04.T|trim", "%s: %s (expected: rebuild exactly when num_entries > 2^lg_nom_size)" % (tr.id, wit), tr.id)
    # the public trim hands over to the table's trim on every path: a path that skips it has to be conditioned on the number of
    # retained hashes (an exact-mode sketch can hold up to 15/16 * 2k of them)
    ptr = C.pub_fn(prog, "theta::sketch::ThetaSketch", "trim")
    if ptr is not None and tr is not None:
        sp_ = Sym(prog, ptr, ifconv=False)
        calls_ = set(b for b, site in ptr.calls() if site.get("callee") == tr.id)
        res.obligations += 1
        if not calls_:
            res.undecided += 1
        elif any(sp_.reaches_exit_avoiding(0, calls_) for _ in (0,)):
            # some path from the entry returns without the table's trim: which decisions lead there?
            skip_ok = True
            rets = [b.idx for b in ptr.blocks if b.term[0] == "return" and not b.cleanup]
            s2 = Sym(prog, ptr)
            conds = []
            for pth in (s2.path_conditions(rets[0]) or []) if rets else []:
                conds.extend(show(c) for c, tv in pth)
            if any("num_entries" in c or "num_retained" in c or "len(" in c for c in conds):
                res.undecided += 1
            else:
                res.violate("C04.T", "C04.T|public-trim", "%s can return without trimming the table under a condition that does not look at the number of retained hashes (%s): "
                            "an exact-mode sketch holds up to 15/16 of 2k hashes, more than k" % (ptr.id, conds[:2]), ptr.id)
        else:
            res.discharged += 1
    rs = C.fn_one(prog, T, "reset")
    if rs is not None:
        res.obligations += 1
        written = set(fld for (f, b, kind, place, rv, span, adt, fld) in sym.field_stores(prog, adt=T, fns=[rs]))
        mutable = set(fld for (f, b, kind, place, rv, span, adt, fld) in sym.field_stores(prog, adt=T, fns=tfns) if kind != "agg" and f.item_name not in ("new", "reset"))
        missing = mutable - written - {"entries"}
        fills = any((site.get("callee") or "").endswith("::fill") for _, site in rs.calls())
        # the old entries must be cleared on every path (fill, or a fresh vector assigned to the field); a bare resize() keeps
        # the surviving prefix
        srs = Sym(prog, rs, ifconv=False)
        clear_blocks = set(b for b, site in rs.calls() if (site.get("callee") or "").endswith("::fill"))
        for (f_, b_, kind, place, rv, span, adt, fld) in sym.field_stores(prog, adt=T, field="entries", fns=[rs]):
            clear_blocks.add(b_)
        if not missing and fills and srs.reaches_exit_avoiding(0, clear_blocks):
            res.violate("C04.T", "C04.T|reset|clear", "a path through reset() returns without clearing the retained entries (fill / re-allocation is skipped on it)", rs.id)
        elif not missing and fills:
            res.discharged += 1
        elif not missing:
            res.undecided += 1      # entries cleared by something other than fill()
        else:
            res.violate("C04.T", "C04.T|reset", "reset does not restore %s%s" % (sorted(missing), "" if fills else " and does not clear the entries"), rs.id)
    # ---------------- C04.P compact(): the compact form carries the table's theta and emptiness (theta is MAX only for a sketch
    # that never saw data), by value over (theta, is_empty)
    cp = C.pub_fn(prog, "theta::sketch::ThetaSketch", "compact")
    n_p = 0
    if cp is not None:
        sc = Sym(prog, cp)
        aggs = {}
        for (ff, b, kind, place, rv, span, adt, fld) in sym.field_stores(prog, adt="theta::sketch::CompactThetaSketch", fns=[cp]):
            if kind == "agg" and rv is not None:
                aggs.setdefault(b, {})[fld] = sc.at(b, 0).rvalue(rv)
        MAXT = 9223372036854775807
        for b, flds in sorted(aggs.items()):
            th = [v for k_, v in flds.items() if "theta" in k_]
            em = [v for k_, v in flds.items() if "empty" in k_]
            if len(th) != 1 or len(em) != 1:
                continue
            n_p += 1
            verdict, wit = None, ""
            try:
                verdict = True
                for t in (1, MAXT // 3, MAXT - 1, MAXT):
                    for is_e in (0, 1):
                        for n in (0, 1, 7):
                            env = {"@prog": prog, "self.table.theta": t, "self.table.is_empty": is_e, "self.table.num_entries": n,
                                   "@fn:collect": lambda *a, _n=n: [0] * _n, "@fn:iter": lambda *a, _n=n: [0] * _n, "@lenient": ("collect", "iter")}
                            gt, ge = formula.evaluate(th[0], env), bool(formula.evaluate(em[0], env))
                            wt = MAXT if is_e else t
                            if gt != wt or ge != bool(is_e):
                                verdict, wit = False, "table theta %d, is_empty %d, %d entries: compact theta %r empty %r, expected theta %d empty %s" % (t, is_e, n, gt, ge, wt, bool(is_e))
            except (formula.Uneval, TypeError):
                verdict = None
            res.tri(verdict, "C04.P", "C04.P|compact", "ThetaSketch::compact: %s" % wit, cp.id)
    res.rule("C04.P", n_p, 1, "compact(): theta and emptiness of the compact form")
    # an index found by a probe is used before the table can be resized / rebuilt
    bad_ = list(C.stale_index_stores(prog, T, "entries"))
    for f_, sb_, gcal_ in bad_:
        res.violate("C04.I", "C04.I|%s" % f_.id, "%s stores into the table at an index obtained before the call of %s, which can reallocate it" % (f_.id, gcal_), f_.id)
    res.obligations += 1
    if not bad_:
        res.discharged += 1
    res.rule("C04.I", 1, 1, "probe index used before the table can be reallocated")
    # ---------------- C04.N a decision taken after an insertion looks at the count after it (common.stale_count_decisions)
    C.stale_count_rule(res, prog, "C04.N", "theta::", "theta table")
    # ---------------- C04.Z a table and the recorded log2 of its size change together: no callee sees one without the other
    n_z = 0
    n_z += C.coupled_store_rule(res, prog, "C04.Z", "theta::hash_table::ThetaHashTable", "entries", "lg_cur_size")
    res.rule("C04.Z", n_z, 0, "table / size field pairs")
    # floating-point items are canonicalised the way Java's doubleToLongBits does (C16.D, by value)
    C.import_rules(res, prog, ctx, "C04.S.f64", "C16", ("C16.D",), "the item a theta sketch hashes for a double", 0, key_filter=lambda k: "f64|theta::" in k)
    # the hash every slot / row / bucket is derived from is the published one for every way of feeding it (C16 rules on the murmur state)
    C.import_rules(res, prog, ctx, "C04.H", "C16", ("C16.B", "C16.C", "C16.T", "C16.K", "C16.W"), "MurmurHash3 the theta hash is derived from", 0, key_filter=lambda k: "urmur" in k)
    # ---------------- C04.A the reported theta is the theta the screen works with, in every state (a sampling sketch starts below 1.0
    # and never reports a larger theta later than it reported before): theta64() / theta() by value over (table theta, emptiness)
    n_a = 0
    for nm, scale in (("theta64", None), ("theta", float((1 << 63) - 1))):
        fa = C.pub_fn(prog, "theta::sketch::ThetaSketch", nm)
        if fa is None:
            continue
        ea = C.ret_expr(prog, fa)
        if ea is None:
            continue
        n_a += 1
        verdict, wit = None, ""
        for th in ((1 << 63) - 1, (1 << 62) + 7, 12345):
            for emp in (0, 1):
                env = {"@prog": prog, "@ieee": True}
                for k in formula.top_leaves(ea):
                    if k.endswith(".theta"):
                        env[k] = th
                    elif "empty" in k:
                        env[k] = emp
                    elif k.endswith("num_entries"):
                        env[k] = 0 if emp else 3
                try:
                    got = formula.evaluate(ea, env)
                except (formula.Uneval, TypeError, ZeroDivisionError):
                    continue
                want = th if scale is None else th / scale
                if verdict is None:
                    verdict = True
                if got != want and verdict is not False:
                    verdict, wit = False, "with the table's theta at %d and the sketch %s, %s() reports %r instead of %r" % (th, "empty" if emp else "not empty", nm, got, want)
        res.tri(verdict, "C04.A", "C04.A|%s" % nm, "%s: %s" % (fa.id, wit), fa.id)
    res.rule("C04.A", n_a, 2, "public theta accessors")
    res.explanation = ("structural rules over the %d functions reachable from ThetaSketch::{update,trim,reset,compact} and the builder: screen formula, "
                       "theta writers, insert/count pairing, capacity check post-domination and thresholds, probe geometry at call sites, replay loops, "
                       "trim/reset" % len(reach))
    res.not_decided = "equality of the retained set with {hashes < theta} for all streams"
    C.seed_width_rule(res, prog, "C04.S.seed", ["theta::"])
    return res
