"""C03 — HLL union equals the sketch of the combined streams, whatever the input shapes.

Decided statically (DESIGN §5.3):
  C03.L  a sparse (List/Set) input is adopted wholesale as the gadget only under an equality guard between its lg_k and
         the gadget's lg_k (a sparse input never lowers the union's precision)
  C03.X  max-merge: every register store into the gadget outside Array8::update is `max(old, src)` or guarded `src > old`
  C03.K  down-sample mask: destination slot = source slot & (2^dst_lg_k - 1), with the lg_k of the *destination*
  C03.C  cached values (num_zeros, KxQ) are rebuilt and the estimator marked out-of-order on every path after a bulk store
  C03.H  estimator state travels with the registers: a HIP accumulator taken from another array is accompanied by that
         array's out-of-order state; to_sketch copies the whole estimator for every target type
  C03.G  the gadget is always Hll8; reset/new build it at lg_max_k
Not decided: order independence and numeric equality of results.
"""
from .. import ir, sym
from ..main import Result
from . import common as C
from .common import Sym, show

U = "hll::union::HllUnion"


def lg_like(e):
    return (e[0] == "param") or (e[0] == "field" and e[2] in ("lg_config_k", "lg_max_k")) or (e[0] == "var")


def run(prog, ctx):
    res = Result("C03")
    upd = C.pub_fn(prog, U, "update")
    tsk = C.pub_fn(prog, U, "to_sketch")
    res.rule("C03.entry", (1 if upd else 0) + (1 if tsk else 0), 2, "HllUnion::update, HllUnion::to_sketch")
    if not upd or not tsk:
        return res
    reach = C.reach_from(prog, [upd, tsk, C.pub_fn(prog, U, "reset"), C.pub_fn(prog, U, "new")])
    ufns = [f for f in reach if f.id.startswith("hll::union::")]
    res.functions_analysed = len(reach)
    res.entry_points = [upd.id, tsk.id]

    # ---------------- C03.L / C03.G : stores to the gadget
    n_l = 0
    n_g = 0
    for f in ufns:
        s = Sym(prog, f)
        for (ff, b, kind, place, rv, span, adt, fld) in sym.field_stores(prog, adt=U, field="gadget", fns=[f]):
            if kind == "call":
                val = s.call_expr(f.blocks[b].term[1])
            else:
                val = s.rvalue(rv)
            val = C.resolve_var(prog, f, val, s)
            is_array = sym.contains(val, lambda t: (t[0] == "agg" and "Array" in t[1]) or (t[0] == "call" and ("copy_or_downsample" in t[1] or "Array8::new" in t[1])))
            is_fresh = sym.contains(val, lambda t: t[0] == "agg" and t[1].endswith("List::List")) and not sym.contains(val, lambda t: t[0] == "param" and t[2] not in ("self", "lg_max_k"))
            n_g += 1
            # C03.G: array gadgets are Array8
            if sym.contains(val, lambda t: t[0] == "agg" and ("Mode::Array4" in t[1] or "Mode::Array6" in t[1])):
                res.obligations += 1
                res.violate("C03.G", "C03.G|%s" % f.id, "%s stores a non-Hll8 array as the union gadget" % f.id, f.id, span)
            if is_array or is_fresh or f.item_name in ("new", "reset"):
                continue
            # a sketch derived from the input is adopted as the gadget
            n_l += 1
            res.obligations += 1
            facts = s.cmp_facts_at(b)
            eq = [x for x in facts if x[0] == "Eq" and len(x) == 3 and lg_like(x[1]) and lg_like(x[2]) and x[1] != x[2]]
            # the two sides must be the lg_k of the *input* and the lg_k of the *union's gadget*: follow parameters to the call sites
            def origin(e, fn_, depth=0):
                """set of roles {'input', 'self'} an lg expression derives from"""
                roles = set()
                for t in sym.walk(e):
                    if t[0] == "param":
                        if t[1] == 1 and (t[2] or "") == "self":
                            roles.add("self")
                        elif fn_.local_ty(t[1]).startswith(("&hll::sketch::HllSketch", "hll::sketch::HllSketch", "&hll::mode::Mode", "&hll::Mode")) or "HllSketch" in fn_.local_ty(t[1]) or "Mode" in fn_.local_ty(t[1]):
                            roles.add("input")
                        elif depth < 3:
                            for g in ufns:
                                sg = Sym(prog, g)
                                for bb, site in g.calls():
                                    if site.get("callee") == fn_.id and len(site["args"]) >= t[1]:
                                        roles |= origin(sg.at(bb, "t").operand(site["args"][t[1] - 1]), g, depth + 1)
                return roles
            good = [x for x in eq if {frozenset(origin(x[1], f)), frozenset(origin(x[2], f))} == {frozenset({"input"}), frozenset({"self"})}]
            if eq and not good:
                res.violate("C03.L", "C03.L|%s|operands" % f.id, "%s adopts a sparse input under the guard %s == %s, which does not compare the input's lg_k with the gadget's lg_k (origins: %s / %s)" % (
                    f.id, show(eq[0][1]), show(eq[0][2]), sorted(origin(eq[0][1], f)), sorted(origin(eq[0][2], f))), f.id, span)
            elif eq:
                res.discharged += 1
                res.sample({"rule": "C03.L", "fn": f.id, "adopted": show(val)[:80], "guard": "%s == %s" % (show(eq[0][1]), show(eq[0][2]))})
            else:
                res.violate("C03.L", "C03.L|%s" % f.id,
                            "%s adopts a sparse input (%s) as the gadget without an equality guard between its lg_k and the gadget's lg_k; guards: %s" % (
                                f.id, show(val)[:60], [(x[0], show(x[1]), show(x[2]) if len(x) > 2 else "") for x in facts][:4]), f.id, span)
    res.rule("C03.L", n_l, 1, "stores adopting an input sketch as the gadget")
    res.rule("C03.G", n_g, 5, "stores to HllUnion.gadget")

    # new / reset: Hll8 at lg_max_k
    for nm in ("new", "reset"):
        f = C.pub_fn(prog, U, nm)
        if f is None:
            continue
        s = Sym(prog, f)
        for b, site in f.calls():
            if (site.get("callee") or "").endswith("HllSketch::new"):
                res.obligations += 1
                a0, a1 = s.operand(site["args"][0]), s.operand(site["args"][1])
                ok = ("Hll8" in repr(a1) or (a1[0] == "agg" and "Hll8" in a1[1]) or repr(a1).find("Hll8") >= 0 or a1 == ("const", 2)) and sym.contains(a0, lambda t: (t[0] == "param" and t[2] == "lg_max_k") or (t[0] == "field" and t[2] == "lg_max_k"))
                if ok:
                    res.discharged += 1
                else:
                    res.violate("C03.G", "C03.G|%s|ctor" % f.id, "%s builds the gadget as HllSketch::new(%s, %s), expected (lg_max_k, Hll8)" % (f.id, show(a0), show(a1)), f.id, site["span"])

    # ---------------- C03.X / C03.K : register stores outside Array8::update
    n_x = 0
    n_k = 0
    cand = [f for f in reach if f.id.startswith("hll::union::") or (f.owner == "hll::array8::Array8" and f.item_name.startswith("merge_array"))]
    for f in cand:
        s = Sym(prog, f)
        # set_register calls
        for b, site in f.calls():
            if (site.get("callee") or "").endswith("Array8::set_register") and len(site["args"]) == 3:
                n_x += 1
                res.obligations += 1
                val = s.operand(site["args"][2])
                facts = s.cmp_facts_at(b)
                is_old = lambda c: sym.contains(c, lambda t: t[0] in ("index",) or (t[0] == "call" and t[1].rsplit("::", 1)[-1] in ("values", "index", "get", "get_register")))
                ok = C.max_store_verdict(prog, f, s, b, val, is_old)
                if ok is True:
                    res.discharged += 1
                elif ok is None:
                    res.undecided += 1
                else:
                    res.violate("C03.X", "C03.X|%s|set_register" % f.id, "register store in %s is not a max-merge: no guard `src > current` dominates it (or the guard is reversed)" % f.id, f.id, site["span"])
                # K: slot mask when down-sampling
                slot = s.operand(site["args"][1])
                m = C.shl_one_amount(slot)
                if m is not None:
                    n_k += 1
                    res.obligations += 1
                    nm = show(m)
                    if "dst" in nm or nm.endswith("self.lg_config_k"):
                        res.discharged += 1
                    elif "src" in nm:
                        res.violate("C03.K", "C03.K|%s" % f.id, "down-sample slot mask in %s uses %s, expected the destination lg_k" % (f.id, nm), f.id, site["span"])
                    else:
                        res.undecided += 1
        # bulk overwrites of the destination registers (`self.bytes.copy_from_slice(first_block)`, `fill`, `clone_from_slice`): whatever
        # the destination held is gone -- a merge routine may only raise registers
        if f.argc >= 1 and f.local_ty(1).startswith("&mut"):
            for b, site in f.calls():
                nm = (site.get("callee") or "").rsplit("::", 1)[-1]
                if nm not in ("copy_from_slice", "clone_from_slice", "fill", "swap_with_slice", "copy_within") or not site["args"]:
                    continue
                dst = s.operand(site["args"][0])
                if sym.contains(dst, lambda t: t[0] == "field" and t[1][0] == "param" and t[1][1] == 1):
                    n_x += 1
                    res.obligations += 1
                    res.violate("C03.X", "C03.X|%s|%s" % (f.id, nm), "%s overwrites the destination registers wholesale (`%s.%s(..)`): registers already in the "
                                "gadget are lost instead of max-merged" % (f.id, show(dst)[:60], nm), f.id, site.get("span"))
        # direct stores `bytes[i] = max(bytes[i], val)` in Array8 merges
        for b, base, ie, e, span, _s in C.buffer_stores(prog, f, "bytes"):
            if f.item_name in ("set_register", "put"):
                continue
            if True:
                n_x += 1
                res.obligations += 1
                is_old2 = lambda c: sym.contains(c, lambda t: (t[0] == "index" and "bytes" in show(t)) or (t[0] == "call" and t[1].rsplit("::", 1)[-1] in ("index", "index_mut") and "bytes" in show(t)) or t[0] == "var")
                ok = C.max_store_verdict(prog, f, _s, b, e, is_old2)
                if ok is True:
                    res.discharged += 1
                elif ok is None:
                    res.undecided += 1
                else:
                    res.violate("C03.X", "C03.X|%s|bytes" % f.id, "bulk register store in %s is %s, which is not max(old, src) nor guarded by src > old" % (f.id, show(e)), f.id, span)
                if True:
                    m = C.shl_one_amount(ie)
                    if m is not None:
                        n_k += 1
                        res.obligations += 1
                        if show(m).endswith("self.lg_config_k"):
                            res.discharged += 1
                        elif "src" in show(m) or "other" in show(m):
                            res.violate("C03.K", "C03.K|%s" % f.id, "down-sample slot mask in %s uses %s, expected self.lg_config_k" % (f.id, show(m)), f.id, span)
                        else:
                            res.undecided += 1
    res.rule("C03.X", n_x, 4, "register stores into the gadget outside Array8::update")
    res.rule("C03.K", n_k, 2, "down-sample slot masks")

    # destination array and lg passed together: callee(dst = Array8{X,..}, X)
    for f in ufns:
        s = Sym(prog, f)
        for b, site in f.calls():
            cal = site.get("callee") or ""
            if cal.startswith("hll::union::merge_array") and len(site["args"]) >= 2:
                a0 = s.operand(site["args"][0])
                a1 = s.operand(site["args"][1])
                if a0[0] == "agg" and a0[1].endswith("Array8::Array8") and a0[2] and lg_like(a1) and "lg" in show(a1):
                    res.obligations += 1
                    n_k += 1
                    if a0[2][0] == a1:
                        res.discharged += 1
                    elif sym.contains(a1, lambda t: t[0] == "var") or sym.contains(a0[2][0], lambda t: t[0] == "var"):
                        res.undecided += 1
                    else:
                        res.violate("C03.K", "C03.K|%s|dst-lg" % f.id, "%s passes a destination array built at lg %s together with lg %s" % (f.id, show(a0[2][0]), show(a1)), f.id, site["span"])

    # ---------------- C03.C : rebuild after bulk stores
    n_c = 0
    _eff = {}
    _hf = [x for v in prog.adts.get("hll::estimator::HipEstimator", {}).get("variants", []) for x in v.get("fields", [])]
    OOO = next((n_ for n_, t_ in _hf if t_ == "bool"), "out_of_order")      # the estimator's only bool field, whatever it is called

    def effect(callee, field):
        """does the callee (transitively) store HipEstimator.<field>?"""
        if not callee or callee not in prog.fns:
            return False
        key = (callee, field)
        if key not in _eff:
            _eff[key] = any(True for g in C.reach_from(prog, [callee]) for _ in sym.field_stores(prog, adt="hll::estimator::HipEstimator", field=field, fns=[g]))
        return _eff[key]
    for f in cand:
        has_bulk = any((site.get("callee") or "").endswith("Array8::set_register") for _, site in f.calls()) or (
            f.item_name not in ("set_register", "put") and any(True for _ in C.buffer_stores(prog, f, "bytes")))
        if not has_bulk:
            continue
        n_c += 1
        res.obligations += 1
        s = Sym(prog, f)
        # "rebuild" is recognised by effect, not by name: a callee that (transitively) stores the estimator's kxq0 register
        rb = [b for b, site in f.calls() if effect(site.get("callee"), "kxq0")]
        if rb and not s.reaches_exit_avoiding(0, set(rb)):
            res.discharged += 1
        else:
            res.violate("C03.C", "C03.C|%s" % f.id, "%s stores registers in bulk but a path to its exit skips the rebuild of the cached values (no call that recomputes KxQ on that path)" % f.id, f.id)
        if f.owner == "hll::array8::Array8":
            res.obligations += 1
            so = [b for b, site in f.calls() if effect(site.get("callee"), OOO)]
            if so and not s.reaches_exit_avoiding(0, set(so)):
                res.discharged += 1
            else:
                res.violate("C03.C", "C03.C|%s|ooo" % f.id, "%s merges registers without marking the estimator out of order on every path" % f.id, f.id)
    res.rule("C03.C", n_c, 4, "bulk-store routines")
    rb8 = C.fn_one(prog, "hll::array8::Array8", "rebuild_estimator_from_registers")
    if rb8 is not None:
        res.obligations += 1
        if any(effect(site.get("callee"), "kxq0") for _, site in rb8.calls()) and any(effect(site.get("callee"), OOO) for _, site in rb8.calls()):
            res.discharged += 1
        else:
            res.violate("C03.C", "C03.C|rebuild_estimator_from_registers", "rebuild_estimator_from_registers no longer recomputes the cached values and sets the out-of-order flag", rb8.id)

    # ---------------- C03.H : estimator state travels with the registers
    n_h = 0
    for f in ufns:
        s = Sym(prog, f)
        copies = [b for b, site in f.calls() if (site.get("callee") or "").endswith("copy_array46_via_coupons")]
        hip_set = [b for b, site in f.calls() if (site.get("callee") or "").endswith("::set_hip_accum")]
        if copies and hip_set:
            for cb in copies:
                n_h += 1
                res.obligations += 1
                # the source's out-of-order state has to be consulted on the path of this copy (before or after it) and applied: a
                # rebuild / set_out_of_order under that decision, or the flag handed to a callee that sets the estimator's state
                ooo = [b for b, site in f.calls() if (site.get("callee") or "").endswith("::is_out_of_order") and (f.dominates(b, cb) or f.dominates(cb, b))]
                rebuilt = [b for b, site in f.calls() if (effect(site.get("callee"), OOO) or (site.get("callee") or "").rsplit("::", 1)[-1] in ("rebuild_estimator_from_registers", "set_out_of_order"))
                           and any(f.dominates(o, b) for o in ooo) and not (site.get("callee") or "").endswith("::set_hip_accum")]
                handed = False
                for b, site in f.calls():
                    if not any(f.dominates(o, b) for o in ooo) or not effect(site.get("callee"), OOO):
                        continue
                    for a in site["args"]:
                        try:
                            if "is_out_of_order" in show(s.at(b).operand(a)) or "out_of_order" in show(s.at(b).operand(a)):
                                handed = True
                        except Exception:
                            pass
                if ooo and (rebuilt or handed):
                    res.discharged += 1
                    res.sample({"rule": "C03.H", "fn": f.id, "copy_block": cb, "verdict": "out-of-order state of the source is consulted and applied"})
                elif ooo:
                    res.undecided += 1      # consulted, but how it is applied is not a shape this rule knows
                else:
                    res.violate("C03.H", "C03.H|%s|copy" % f.id, "%s copies an Hll4/Hll6 source and its HIP accumulator but not its out-of-order state" % f.id, f.id, f.blocks[cb].term[1]["span"])
    conv = [f for f in ufns if any((site.get("callee") or "").endswith("::set_estimator") or (site.get("callee") or "").endswith("Array6::new") for _, site in f.calls()) and f.item_name != "copy_or_downsample"]
    for f in ufns:
        s = Sym(prog, f)
        news = [(b, site) for b, site in f.calls() if (site.get("callee") or "") in ("hll::array4::Array4::new", "hll::array6::Array6::new")]
        if not news or f.item_name == "promote_container_to_array":
            continue
        for b, site in news:
            owner = site["callee"].rsplit("::", 1)[0]
            n_h += 1
            res.obligations += 1
            se = [(bb, st) for bb, st in f.calls() if (st.get("callee") or "") == owner + "::set_estimator"]
            ok = False
            for bb, st in se:
                e = s.operand(st["args"][1])
                if sym.contains(e, lambda t: t[0] == "field" and t[2] == "estimator"):
                    ok = True
            if ok:
                res.discharged += 1
            else:
                res.violate("C03.H", "C03.H|%s|%s" % (f.id, owner.rsplit("::", 1)[-1]),
                            "%s builds an %s from the gadget without copying the gadget's estimator state (HIP, KxQ, out-of-order)" % (f.id, owner.rsplit("::", 1)[-1]), f.id, site["span"])
    # C03.H (ordering): an accumulator restored from a source (a setter of hip_accum fed from a parameter) must be the last word:
    # no routine that *accumulates* HIP (register replay through the estimator's update) may run after it on any path
    HE = "hll::estimator::HipEstimator"
    acc_fns, set_fns = set(), set()
    for g in prog.fns.values():
        if g.promoted:
            continue
        for (ff, b, kind, place, rv, span, adt, fld) in sym.field_stores(prog, adt=HE, field="hip_accum", fns=[g]):
            if kind != "assign" or rv is None:
                continue
            v = Sym(prog, g).rvalue(rv)
            if sym.contains(v, lambda t: t[0] == "field" and t[2] == "hip_accum") and sym.contains(v, lambda t: C.is_bin(t, "Add")):
                acc_fns.add(g.id)
            elif v[0] == "param" or (v[0] in ("cast",) and v[1][0] == "param"):
                set_fns.add(g.id)
    _r = {}

    def reaches_any(callee, targets):
        if not callee or callee not in prog.fns:
            return False
        k = (callee, id(targets))
        if k not in _r:
            _r[k] = callee in targets or any(g.id in targets for g in C.reach_from(prog, [callee]))
        return _r[k]
    for f in ufns:
        s = Sym(prog, f, ifconv=False)
        setters = [b for b, site in f.calls() if reaches_any(site.get("callee"), set_fns) and not reaches_any(site.get("callee"), acc_fns)]
        accs = [b for b, site in f.calls() if reaches_any(site.get("callee"), acc_fns)]
        for sb in setters:
            n_h += 1
            res.obligations += 1
            late = [ab for ab in accs if ab != sb and s._reaches(sb, ab)]
            if late:
                res.violate("C03.H", "C03.H|%s|restore-order" % f.id, "%s restores the HIP accumulator from the source and afterwards replays registers through the estimator (%s): the replay's increments are added on top of the restored value" % (
                    f.id, (f.blocks[late[0]].term[1].get("callee") or "?")), f.id, f.blocks[sb].term[1].get("span"))
            else:
                res.discharged += 1
    # C03.C (siblings): in a dispatch over the source's array type inside the union's merge routines, the arms agree on whether the
    # gadget's estimator ends up marked out of order (a merge into an existing gadget always invalidates HIP)
    for f in ufns:
        s = Sym(prog, f, ifconv=False)
        for b in f.blocks:
            if b.cleanup or b.term[0] != "switch":
                continue
            cond = s.at(b.idx, "t").operand(b.term[1])
            if cond[0] != "discr" or len(b.term[2]) < 2:
                continue
            # only dispatches over a `Mode` parameter (the source sketch's representation), and only its Array arms
            src = cond[1]
            while src[0] in ("variant",):
                src = src[1]
            if not (src[0] == "param" and "Mode" in f.local_ty(src[1])):
                continue
            mode_adt = next((a for k_, a in prog.adts.items() if k_.endswith("::Mode") and k_.startswith("hll::")), None)
            array_vals = set()
            if mode_adt:
                for i_, v_ in enumerate(mode_adt["variants"]):
                    if v_["name"].startswith("Array"):
                        array_vals.add(mode_adt["discrs"][i_] if mode_adt.get("discrs") and i_ < len(mode_adt["discrs"]) else i_)
            arms = {}
            for v, tgt in b.term[2]:
                if v not in array_vals:
                    continue
                # blocks owned by this arm
                eff = False
                for bb, site in f.calls():
                    if f.dominates(tgt, bb) and s.edge_dominates(b.idx, tgt, bb) and effect(site.get("callee"), OOO):
                        eff = True
                has_call = any(f.dominates(tgt, bb) and s.edge_dominates(b.idx, tgt, bb) and (site.get("callee") or "").startswith("hll::") for bb, site in f.calls())
                if has_call:
                    arms[v] = eff
            if len(arms) >= 2 and any(arms.values()):
                n_c += 1
                res.obligations += 1
                if all(arms.values()):
                    res.discharged += 1
                else:
                    res.violate("C03.C", "C03.C|%s|sibling-arms" % f.id, "%s: the arms of the dispatch over the source type disagree on marking the estimator out of order (arms %s do, arms %s do not)" % (
                        f.id, sorted(k for k, v in arms.items() if v), sorted(k for k, v in arms.items() if not v)), f.id)
    res.rule("C03.H", n_h, 4, "estimator-state transfers")

    # C03.E  the union skips inputs that report themselves empty: emptiness of the three register arrays must mean "all registers
    #        zero" (imported from C02.E), or a non-empty input is silently dropped
    try:
        from . import C02
        r2 = C02.run(prog, dict(ctx))
        for v in r2.violations:
            if v.rule == "C02.E":
                res.violate("C03.E", "C03.E|" + v.key, "an input the union would skip as empty: " + v.message, getattr(v, "fn", None), getattr(v, "span", None))
        res.obligations += 1
        if not any(v.rule == "C02.E" for v in r2.violations):
            res.discharged += 1
        res.rule("C03.E", r2.rules.get("C02.E", {}).get("instances", 0), 3, "emptiness of the register arrays (imported from C02.E)")
    except Exception as ex:
        res.extra.setdefault("undecided_items", []).append("C03.E could not run C02: %r" % (ex,))
    # C03.V  the union reads a source's registers through the array accessors; for the 4-bit array the accessor must return
    #        what the writer stored: cur_min + nibble below the token, and for an exception slot exactly the value the update path
    #        hands to the aux table (its argument is evaluated for a coupon of value v and fed back through the accessor)
    from .. import formula
    A4 = "hll::array4::Array4"
    n_v = 0
    g4, u4 = C.fn_one(prog, A4, "get"), C.fn_one(prog, A4, "update")
    tok = prog.consts.get("hll::array4::AUX_TOKEN", {}).get("v", 15)
    if g4 is not None and u4 is not None:
        eg = C.ret_expr(prog, g4)
        su = Sym(prog, u4)
        stored = [su.at(b, "t").operand(site["args"][2]) for b, site in u4.calls()
                  if (site.get("callee") or "").startswith("hll::aux_map::AuxMap::") and (site.get("callee") or "").rsplit("::", 1)[-1] in ("insert", "replace") and len(site["args"]) == 3]
        n_v += 1
        verdict, wit = None, "accessor or aux writer not recognised"
        if eg is not None and stored:
            try:
                verdict = True
                for cm in (0, 1, 5, 20):
                    for v in range(cm, 64):
                        nib = v - cm
                        auxv = None
                        if nib >= tok:
                            vals = set(formula.evaluate(x, {"coupon": (v << 26) | 77, "@prog": prog}) for x in stored)
                            if len(vals) != 1:
                                raise formula.Uneval("aux writers disagree")
                            auxv = vals.pop()
                        env = {"@prog": prog, "self.cur_min": cm, "slot": 77, "@fn:get_raw": lambda *a, _n=min(nib, tok): _n,
                               "@fn:and_then": lambda *a, _x=auxv: ("$variant", "Some", _x) if _x is not None else ("$variant", "None"),
                               "@fn:unwrap_or": lambda o, d: (o[2] if isinstance(o, tuple) and o[1] == "Some" else d),
                               "@lenient": ("get_raw", "and_then")}
                        got = formula.evaluate(eg, env)
                        if got != v and verdict:
                            verdict = False
                            wit = "with cur_min %d a register of value %d (%s) reads back as %r" % (cm, v, "nibble %d" % nib if nib < tok else "aux entry %r" % auxv, got)
            except (formula.Uneval, TypeError) as u:
                verdict, wit = None, "not evaluable: %s" % (u,)
        res.tri(verdict, "C03.V", "C03.V|%s" % A4, "Array4::get does not return what Array4::update stored: %s" % wit, g4.id)
    res.rule("C03.V", n_v, 1, "register accessor of the 4-bit array vs its writer")
    # C03.W  an HllSketch couples `lg_config_k` with the size of the array in `mode`: code outside the sketch module that replaces
    #        the mode wholesale through the `&mut Mode` accessor keeps the old lg_config_k; if the new array was built at an lg taken
    #        from somewhere else (a parameter: the source's lg_k), wrapper and array disagree
    n_w = 0
    for f in reach:
        if f.promoted or f.id.startswith("hll::sketch::"):
            continue
        sw = None
        mm = [site["dest"] for b, site in f.calls() if (site.get("callee") or "").endswith("HllSketch::mode_mut") and isinstance(site["dest"], int)]
        if not mm:
            continue
        for bb in f.blocks:
            if bb.cleanup:
                continue
            for st in bb.stmts:
                if st[0] != "=" or isinstance(st[1], int):
                    continue
                pl = st[1]
                if not (pl[0] in mm and len(pl[1]) == 1 and pl[1][0][0] == "*"):
                    continue
                sw = sw or Sym(prog, f)
                try:
                    e = sw.at(bb.idx, "t").rvalue(st[2])
                except Exception:
                    continue
                n_w += 1
                u8_params = [("param", i, f.local_name(i) or "") for i in range(1, f.argc + 1) if f.local_ty(i) == "u8"]
                foreign_lg = [p for p in u8_params if any(y[:2] == p[:2] for y in sym.walk(e) if y[0] == "param")]
                res.tri(False if foreign_lg else None, "C03.W", "C03.W|%s" % f.id,
                        "%s replaces the gadget's mode through mode_mut() with an array built from `%s` while the sketch keeps its old lg_config_k: the wrapper and "
                        "its register array can disagree on k" % (f.id, foreign_lg[0][2] if foreign_lg else "?"), f.id, st[3] if len(st) > 3 else None)
    res.rule("C03.W", n_w, 0, "wholesale mode replacement through the &mut Mode accessor")
    res.explanation = ("structural rules over the %d functions reachable from HllUnion::{update,to_sketch,reset,new}: gadget adoption guard, "
                       "max-merge stores, down-sample masks, cache rebuild post-domination, estimator-state transfer, gadget type" % len(reach))
    res.not_decided = "order/repetition independence and numeric equality of estimates"
    return res
