"""C14 — malformed bytes yield an error, never a panic, abort or runaway allocation.

Decided statically (DESIGN §5.14): every shift / allocation / fixed-length index / checked arithmetic /
explicit panic / unwrap reachable from a deserialize entry point whose operands are derived from bytes read
through the codec (`SketchSlice::read_*`, `read_exact`) must be discharged by the interval analysis
(guards that dominate the site, callee post-conditions, field invariants).  A site is a VIOLATION only on
positive evidence: byte-tainted operand, interval not produced by widening, obligation fails.
"""
from .. import ir, absint, sym, formula
from ..main import Result
from . import common as C

ENTRY_OWNERS = {
    "hll::sketch::HllSketch": ["deserialize"],
    "theta::sketch::CompactThetaSketch": ["deserialize", "deserialize_with_seed"],
    "cpc::sketch::CpcSketch": ["deserialize", "deserialize_with_seed"],
    "cpc::wrapper::CpcWrapper": ["new"],
    "tdigest::sketch::TDigestMut": ["deserialize"],
    "bloom::sketch::BloomFilter": ["deserialize"],
    "countmin::sketch::CountMinSketch": ["deserialize", "deserialize_with_seed"],
    "frequencies::sketch::FrequentItemsSketch": ["deserialize"],
}

# Explicit panics that are unreachable because of a data-structure invariant the interval domain cannot
# express.  One named function + condition each, with the reason; the structural part of the reason is
# re-checked by the rule named in `checked_by` (see rules/C18.py / C02.py).
def _fi_sum_checked(prog):
    """reason check for the frequent-items replay: in the deserializer, a checked_add fold whose failure leaves with an
    error dominates the loop that replays the counters through update_with_count"""
    for f in prog.fns.values():
        if f.promoted or f.owner != "frequencies::sketch::FrequentItemsSketch" or not f.item_name.startswith("deserialize"):
            continue
        chk = [b for b, site in f.calls() if (site.get("callee") or "").endswith("::checked_add")]
        # ... or folded through an iterator adaptor: a call in f that is handed a closure of f containing the checked_add
        clos = [g.id for g in prog.fns.values() if not g.promoted and g.id.startswith(f.id + "::{closure") and
                any((st.get("callee") or "").endswith("::checked_add") for _, st in g.calls())]
        if clos:
            sf = sym.Sym(prog, f, ifconv=False)
            for b, site in f.calls():
                if any(sym.contains(sf.at(b, "t").operand(a), lambda t: t[0] == "agg" and any(t[1] == "closure:" + c for c in clos)) for a in site["args"]):
                    chk.append(b)
        upd = [b for b, site in f.calls() if (site.get("callee") or "").endswith("::update_with_count")]
        if not upd:
            continue
        def reach(b):
            seen, st = set(), list(f.succs(b))
            while st:
                x = st.pop()
                if x not in seen:
                    seen.add(x)
                    st.extend(f.succs(x))
            return seen
        # the fold loop comes strictly before the replay: it reaches the replay and cannot be re-entered from it
        if chk and all(any(u in reach(c) and c not in reach(u) for c in chk) for u in upd):
            return True
        return False
    return False


ACCEPTED_INVARIANTS = {
    # (function, operand label): (reason, verifier of the structural part of the reason)
    ("frequencies::sketch::FrequentItemsSketch::<T>::update_with_count", "self.stream_weight,count"): (
        "during deserialization the counters replayed through update_with_count were summed with checked_add first (the sum fits u64) and "
        "the stream weight starts at 0; the interval domain cannot carry a bound on a sum over a vector", _fi_sum_checked),
}


def entries(prog):
    out = []
    missing = []
    for owner, names in ENTRY_OWNERS.items():
        for n in names:
            fs = [f for f in prog.find_fns(owner=owner, name=n) if f.exported]
            if not fs:
                missing.append("%s::%s" % (owner, n))
            out.extend(f.id for f in fs)
    # FrequentItemsSketch::deserialize has one impl per item type
    return out, missing


def srcs(taint):
    return sorted(t for t in taint if t.startswith("B:"))


def short_src(t):
    # "B:<fn>:<read>#<n>[:var]" -> "<fn-last-two-segments>:<var or read#n>"
    _, rest = t.split(":", 1)
    fn, _, lbl = rest.rpartition(":read_")
    lbl = "read_" + lbl
    parts = lbl.split(":")
    name = parts[1] if len(parts) > 1 else parts[0]
    seg = fn.split("::")
    return "%s:%s" % ("::".join(seg[-2:]), name)


INT_TYPES = ("u8", "u16", "u32", "u64", "usize", "i8", "i16", "i32", "i64", "isize", "u128", "i128")


def nan_rule(prog, res, ents):
    """C14.N: in a family whose code orders floats with partial_cmp and panics on an unordered pair, every float read from the
    image that reaches the returned object as a float must pass a NaN-rejecting check on every path from the read to that use"""
    sink_mods = {}
    for f in prog.fns.values():
        if f.promoted:
            continue
        names = [(site.get("callee") or "") for _, site in f.calls()]
        if any(n.rsplit("::", 1)[-1] == "partial_cmp" for n in names) and any("panicking" in n or n.rsplit("::", 1)[-1] in ("expect", "unwrap", "panic_fmt", "begin_panic") for n in names):
            sink_mods.setdefault(f.id.split("::")[0], f.id)
    # NaN-rejecting helpers: return Err when the value is NaN and Ok otherwise -- directly (is_nan) or through another such
    # helper whose verdict they propagate (fixpoint over the helpers found so far)
    rejecters = set()
    changed = True
    while changed:
        changed = False
        short = {r.rsplit("::", 1)[-1] for r in rejecters}
        for f in prog.fns.values():
            if f.promoted or f.id in rejecters:
                continue
            cs = [(site.get("callee") or "") for _, site in f.calls()]
            if not any(n.rsplit("::", 1)[-1] == "is_nan" or n in rejecters for n in cs):
                continue
            rets = [b.idx for b in f.blocks if b.term[0] == "return" and not b.cleanup]
            if len(rets) != 1:
                continue
            e = sym.Sym(prog, f).at(rets[0]).local(0)

            def env_(nan):
                env = {"@fn:is_nan": lambda *x: nan, "@fn:is_infinite": lambda *x: 0, "@fn:is_finite": lambda *x: 1 - nan, "@prog": prog,
                       "@fn:from_residual": lambda r, *x: r}
                for nm in short:
                    env["@fn:" + nm] = (lambda *x: ("$variant", "Err", None)) if nan else (lambda *x: ("$variant", "Ok", ()))
                env["@lenient"] = tuple(["is_nan", "is_infinite", "is_finite"] + sorted(short))
                return env
            try:
                a_ = formula.evaluate(e, env_(1))
                b_ = formula.evaluate(e, env_(0))
            except (formula.Uneval, TypeError):
                continue
            if isinstance(a_, tuple) and a_[:2] == ("$variant", "Err") and isinstance(b_, tuple) and b_[:2] == ("$variant", "Ok"):
                rejecters.add(f.id)
                changed = True
    n_reads = 0
    TRANSPARENT = ("is_nan", "is_infinite", "is_finite", "map_err", "branch", "from_residual", "insufficient_data", "map", "and_then", "ok",
                   "from", "into", "ok_or", "ok_or_else")

    def project(e):
        """field k of (select c, (a0, a1), (b0, b1)) -> select c, ak, bk"""
        if e[0] == "field" and isinstance(e[1], tuple) and e[2].isdigit():
            base = e[1]
            if base[0] == "select":
                return ("select", base[1], project(("field", base[2], e[2])), project(("field", base[3], e[2])))
            if base[0] == "agg" and base[1] == "tuple" and int(e[2]) < len(base[2]):
                return base[2][int(e[2])]
        return e

    def has_float_use(e, tags, under_int=False):
        if not isinstance(e, tuple) or not e:
            return False
        if e[0] == "field":
            e = project(e)
        if e[0] == "cast" and e[2] in INT_TYPES:
            return False
        if e[0] == "call" and isinstance(e[1], str) and e[1] in tags:
            return True
        return any(has_float_use(x, tags) for x in e[1:] if isinstance(x, tuple)) or any(
            has_float_use(y, tags) for x in e[1:] if isinstance(x, tuple) and x and not isinstance(x[0], str) for y in x)

    def analyse(g, mod):
        """(reads, calls): reads = [(block, site, tags)] -- direct codec float reads, and calls of same-module helpers that only
        pass a float read on to their return value (the check is then owed by the caller)"""
        s = sym.Sym(prog, g)
        calls = []
        for b, site in g.calls():
            nm = site.get("callee") or ""
            try:
                args = [s.at(b, "t").operand(a) for a in site["args"]]
            except Exception:
                args = []
            calls.append((b, nm, args))
        reads = []
        for b, site in g.calls():
            nm = site.get("callee") or ""
            if nm.rsplit("::", 1)[-1].startswith(("read_f64", "read_f32")):
                reads.append((b, site, frozenset(["%s@%s#%d" % (nm.rsplit("::", 1)[-1], g.item_name, b)])))
            elif nm in passthrough:
                reads.append((b, site, frozenset([nm]) | passthrough[nm]))
        return s, calls, reads

    def uses_of(calls, rb, tags):
        return [(b, nm) for b, nm, args in calls if nm not in rejecters and nm.rsplit("::", 1)[-1] not in TRANSPARENT
                and b != rb and any(has_float_use(a, tags) for a in args)]
    # helpers that read a float and only hand it back (no use of their own): found bottom-up, two levels are plenty
    passthrough = {}
    for _round in range(2):
        for ent in ents:
            mod = ent.split("::")[0]
            if mod not in sink_mods:
                continue
            for g in C.reach_from(prog, [ent]):
                if g.id.split("::")[0] != mod or g.id in passthrough or g.id in ents:
                    continue
                rty = g.local_ty(0) or ""
                if not ("f64" in rty or "f32" in rty):
                    continue
                s_, calls_, reads_ = analyse(g, mod)
                if reads_ and all(not uses_of(calls_, rb, tags) for rb, _st, tags in reads_):
                    tg = frozenset()
                    for _rb, _st, tags in reads_:
                        tg = tg | tags
                    passthrough[g.id] = tg
    seen_fns = set()
    for ent in ents:
        mod = ent.split("::")[0]
        if mod not in sink_mods:
            continue
        for g in C.reach_from(prog, [ent]):
            if g.id.split("::")[0] != mod or g.id in seen_fns:
                continue
            seen_fns.add(g.id)
            s, calls, reads = analyse(g, mod)
            if not reads:
                continue
            for rb, rsite, tags in reads:
                tag = sorted(tags)[0]
                checkers = set(b for b, nm, args in calls if (nm in rejecters or nm.rsplit("::", 1)[-1] == "is_nan") and any(has_float_use(a, tags) for a in args))
                uses = uses_of(calls, rb, tags)
                if not uses:
                    continue
                n_reads += 1
                res.obligations += 1
                bad = None
                for ub, unm in uses:
                    seen, st = set(), [x for x in g.succs(rb) if not g.blocks[x].cleanup]
                    hit = False
                    while st:
                        x = st.pop()
                        if x in seen or x in checkers:
                            continue
                        seen.add(x)
                        if x == ub:
                            hit = True
                            break
                        st.extend(y for y in g.succs(x) if not g.blocks[y].cleanup)
                    if hit:
                        bad = unm
                        break
                if bad is None:
                    res.discharged += 1
                else:
                    res.violate("C14.N", "C14.N|%s|%s" % (g.id, (rsite.get("callee") or "").rsplit("::", 1)[-1] + "->" + bad.rsplit("::", 1)[-1]),
                                "%s: a float read from the image (%s) reaches %s without a NaN-rejecting check on some path; %s panics on an unordered pair" % (
                                    g.id, tag, bad, sink_mods[mod]), g.id, rsite.get("span"))
    res.rule("C14.N", n_reads, 6, "float reads that reach the returned object in NaN-intolerant families")
    res.extra["nan_rejecters"] = sorted(rejecters)
    res.extra["nan_intolerant"] = sink_mods


def object_invariants(prog, res, ents):
    """C14.B (second half of the property: a value returned as Ok can be queried, updated, merged, re-serialized without
    panicking): every checked subtraction `a - b` over `self` fields in a method of a deserializable type needs b <= a for
    the objects the deserializer returns.  The reader's field expressions and the exact path conditions of its Ok
    construction are evaluated on a boundary grid of image field values; a reachable Ok with b > a is a violation."""
    import itertools
    n = 0
    for ent in ents:
        f = prog.fns[ent]
        owner = f.owner
        if not owner or owner not in prog.adts:
            continue
        # the Ok constructions of the owner type reachable from the entry (same module)
        builds = []
        for g in C.reach_from(prog, [ent]):
            if g.id.split("::")[0] != ent.split("::")[0]:
                continue
            sg = None
            for b in g.blocks:
                if b.cleanup:
                    continue
                for i, st in enumerate(b.stmts):
                    if st[0] == "=" and st[2][0] == "agg" and st[2][1][0] == "adt" and st[2][1][1] == owner:
                        sg = sg or sym.Sym(prog, g)
                        names = st[2][1][4]
                        flds = {nm: sg.at(b.idx, i).operand(o) for nm, o in zip(names, st[2][2])}
                        builds.append((g, sg, b.idx, flds))
        if not builds:
            continue
        # needed invariants: checked subtractions over self fields in the type's other methods
        needs = []
        for m in prog.fns.values():
            if m.promoted or m.owner != owner or m.id == ent or m.item_name.startswith(("deserialize", "new", "with_", "make", "from_")):
                continue
            sm = None
            for b in m.blocks:
                t = b.term
                if b.cleanup or t[0] != "assert" or t[3] != "Overflow:Sub":
                    continue
                sm = sm or sym.Sym(prog, m)
                a, bb = sm.at(b.idx, "t").operand(t[4][0]), sm.at(b.idx, "t").operand(t[4][1])
                lv = set(formula.leaves(a)) | set(formula.leaves(bb))
                lv = set(k for k in lv if not k.startswith("len("))
                if not lv or not all(k == "self" or k.startswith("self.") for k in lv):
                    continue
                if a[0] == "const" or bb[0] == "const":
                    continue
                needs.append((m, a, bb, t[6]))
        for (m, a, bb, span) in needs:
            for (g, sg, blk, flds) in builds:
                import re as _re
                fl = set(x for k in (set(formula.leaves(a)) | set(formula.leaves(bb))) for x in _re.findall(r"self\.(\w+)", k))
                if not fl <= set(flds):
                    continue
                exprs = [flds[x] for x in fl]
                paths = sg.path_conditions(blk) or []
                keys = set(k for e in exprs for k in formula.leaves(e) if k.startswith("read_") and "@" in k and k.endswith("()"))
                if not keys or len(keys) > 3:
                    continue
                ck = {}
                for pth in paths:
                    for c, tv in pth:
                        ck[id(c)] = set(k for k in formula.leaves(c) if k.startswith("read_") and "@" in k and k.endswith("()"))
                grow = True
                while grow:
                    grow = False
                    for ks in list(ck.values()):
                        if ks & keys and not ks <= keys and len(keys | ks) <= 3:
                            keys |= ks
                            grow = True
                keys = sorted(keys)
                slim = sorted(set(tuple((c, tv) for (c, tv) in pth if ck[id(c)] and ck[id(c)] <= set(keys)) for pth in paths), key=len)
                n += 1
                res.obligations += 1
                dom = (0, 1, 2, 3, 63, 64, 65, 127, 128, 129, 191, 192, 193, 255, 256, 257, 4095, 4096, 4097)
                bad = None
                evaluated = 0
                for vals in itertools.product(*[dom for _ in keys]):
                    env = dict(zip(keys, vals))
                    env["@prog"] = prog
                    env["@cache"] = {}
                    ok_r = not slim
                    for pth in slim:
                        good = True
                        for c, tv in pth:
                            try:
                                v = formula.evaluate(c, env)
                            except (formula.Uneval, TypeError, ZeroDivisionError):
                                continue
                            if isinstance(v, tuple):
                                continue
                            if (tv[0] == "eq" and v != tv[1]) or (tv[0] == "ne" and v in tv[1]):
                                good = False
                                break
                        if good:
                            ok_r = True
                            break
                    if not ok_r:
                        continue
                    try:
                        fenv = {"@prog": prog}
                        for x in fl:
                            fv = flds[x]
                            try:
                                fenv["self." + x] = formula.evaluate(fv, env)
                            except formula.Uneval:
                                fenv["len(self.%s)" % x] = formula.seq_len(fv, env)
                        va, vb = formula.evaluate(a, fenv), formula.evaluate(bb, fenv)
                    except (formula.Uneval, TypeError, ZeroDivisionError):
                        continue
                    evaluated += 1
                    if vb > va:
                        bad = (dict(zip(keys, vals)), va, vb)
                        break
                if bad:
                    res.violate("C14.B", "C14.B|%s|%s" % (m.id, sym.show(bb)[:40]), "%s computes %s - %s with overflow checks, but %s returns Ok for an image with field values %s where that is %r - %r: the decoded object panics on use" % (
                        m.id, sym.show(a)[:60], sym.show(bb)[:60], g.id, bad[0], bad[1], bad[2]), g.id, span)
                elif evaluated:
                    res.discharged += 1
                    res.sample({"rule": "C14.B", "method": m.id, "needs": "%s <= %s" % (sym.show(bb)[:50], sym.show(a)[:50]), "reader": g.id, "grid_points": evaluated})
                else:
                    res.undecided += 1
    res.rule("C14.B", n, 1, "checked subtractions over self fields in methods of deserializable types, against the reader's Ok conditions")


def aux_slot_agreement(prog, res):
    """C14.S: every Array4 routine that addresses the aux map derives the slot from the coupon by the same function as
    Array4::update does (a reader that skips the lg_k mask files an exception under a key the update path never looks up: the
    decoded object later hits `unreachable!`/`expect` in shift_to_bigger_cur_min / update)"""
    import random
    rnd = random.Random(14)
    sites = []
    for f in C.fns_of(prog, "hll::array4::Array4"):
        s = sym.Sym(prog, f)
        for b, site in f.calls():
            cal = site.get("callee") or ""
            if cal.startswith("hll::aux_map::AuxMap::") and cal.rsplit("::", 1)[-1] in ("insert", "replace", "get") and len(site["args"]) >= 2:
                e = C.resolve_var(prog, f, s.at(b, "t").operand(site["args"][1]), s)
                lv = formula.leaves(e)
                ck = [k for k in lv if k == "coupon" or (k.startswith("read_u32") and "@" in k)]
                lk = [k for k in lv if k.endswith("lg_config_k")]
                others = [k for k in lv if k not in ck and k not in lk and not any(x.startswith(k + ".") for x in lk)]
                if len(ck) == 1 and len(lk) <= 1 and not others:
                    sites.append((f, cal.rsplit("::", 1)[-1], e, ck[0], lk[0] if lk else None, site.get("span")))
    ref = [x for x in sites if x[0].item_name == "update"]
    n = 0
    if not ref:
        res.rule("C14.S", 0, 2, "aux-map slot derivations in Array4")
        return
    rf = ref[0]
    for (f, op, e, ck, lk, span) in sites:
        if f.item_name == "update":
            continue
        n += 1
        res.obligations += 1
        bad = None
        try:
            for _ in range(200):
                c = rnd.getrandbits(32)
                lg = rnd.randrange(4, 22)
                env_a = {"@prog": prog, ck: c}
                if lk:
                    env_a[lk] = lg
                env_r = {"@prog": prog, rf[3]: c}
                if rf[4]:
                    env_r[rf[4]] = lg
                got, want = formula.evaluate(e, env_a), formula.evaluate(rf[2], env_r)
                if got != want:
                    bad = "coupon %#x lg_k %d: slot %d, Array4::update uses %d" % (c, lg, got, want)
                    break
        except formula.Uneval:
            res.undecided += 1
            continue
        if bad is None:
            res.discharged += 1
        else:
            res.violate("C14.S", "C14.S|%s|%s" % (f.id, op), "%s addresses the aux map (%s) with %s, which is not the slot Array4::update derives from the same coupon (%s)" % (f.id, op, sym.show(e)[:80], bad), f.id, span)
    res.rule("C14.S", n, 2, "aux-map slot derivations in Array4 compared with Array4::update")


def raw_buffer_uses(prog, res, ents):
    """C14.R (second half of the property): a byte buffer that a reader fills straight from the image (read_exact into a Vec<u8>
    that becomes a field of the returned object, no per-element validation) holds arbitrary bytes in an Ok value.  Every method of
    that type which uses an element of the buffer as a shift amount must bound it first: for each such shift the dominating
    comparison facts are evaluated for every byte value 0..=255, and a value >= the bit width that passes them is a violation
    (debug builds panic with `attempt to shift left with overflow`, release builds wrap)."""
    from .common import Sym
    raw = {}     # (adt, field) -> reader fn
    inspected = {}
    for g in C.reach_from(prog, ents):
        filled = set()
        for b, site in g.calls():
            if (site.get("callee") or "").rsplit("::", 1)[-1] != "read_exact":
                continue
            # the buffer argument is a &mut to a local (possibly through deref_mut / as_mut_slice)
            cur = [a[1] if isinstance(a[1], int) else a[1][0] for a in site["args"][1:] if a[0] in ("c", "m")]
            seen = set()
            while cur:
                l = cur.pop()
                if l in seen:
                    continue
                seen.add(l)
                for bb in g.blocks:
                    for st in bb.stmts:
                        if st[0] == "=" and st[1] == l and st[2][0] == "ref":
                            pl = st[2][2]
                            base = pl if isinstance(pl, int) else pl[0]
                            filled.add(base)
                            cur.append(base)
                    t = bb.term
                    if t[0] == "call" and t[1]["dest"] == l:
                        for a in t[1]["args"]:
                            if a[0] in ("c", "m"):
                                cur.append(a[1] if isinstance(a[1], int) else a[1][0])
        filled = set(l for l in filled if "u8" in g.local_ty(l) and ("Vec<" in g.local_ty(l) or "Box<[" in g.local_ty(l)))
        if not filled:
            continue
        # forward: moves and conversions of the filled vector
        changed = True
        while changed:
            changed = False
            for bb in g.blocks:
                if bb.cleanup:
                    continue
                for st in bb.stmts:
                    if st[0] == "=" and isinstance(st[1], int) and st[1] not in filled and st[2][0] in ("use", "cast"):
                        op = st[2][1] if st[2][0] == "use" else st[2][2]
                        if op[0] in ("c", "m") and isinstance(op[1], int) and op[1] in filled:
                            filled.add(st[1])
                            changed = True
                t = bb.term
                if t[0] == "call" and isinstance(t[1]["dest"], int) and t[1]["dest"] not in filled:
                    nm = (t[1].get("callee") or "").rsplit("::", 1)[-1]
                    if nm in ("into_boxed_slice", "into", "from", "into_vec") and any(a[0] in ("c", "m") and isinstance(a[1], int) and a[1] in filled for a in t[1]["args"]):
                        filled.add(t[1]["dest"])
                        changed = True
        for bb in g.blocks:
            if bb.cleanup:
                continue
            for st in bb.stmts:
                if st[0] == "=" and st[2][0] == "agg" and isinstance(st[2][1], (list, tuple)) and st[2][1] and st[2][1][0] == "adt":
                    adt = st[2][1][1]
                    a = prog.adts.get(adt)
                    if not a or a.get("kind") != "struct":
                        continue
                    names = [x[0] for x in a["variants"][0]["fields"]]
                    for i, o in enumerate(st[2][-1]):
                        if i < len(names) and o[0] in ("c", "m") and isinstance(o[1], int) and o[1] in filled:
                            raw[(adt, names[i])] = g.id
                            # does the reader ever look at the bytes it has just read (a shared borrow or an element read of the
                            # filled vector, directly or through a closure / helper)?
                            looked = False
                            for b2 in g.blocks:
                                if b2.cleanup:
                                    continue
                                for st2 in b2.stmts:
                                    if st2[0] != "=":
                                        continue
                                    rv2 = st2[2]
                                    if rv2[0] == "ref" and rv2[1] != "mut":
                                        pl2 = rv2[2]
                                        if (pl2 if isinstance(pl2, int) else pl2[0]) in filled:
                                            looked = True
                                    if rv2[0] in ("use", "cast"):
                                        op2 = rv2[1] if rv2[0] == "use" else rv2[2]
                                        if op2[0] in ("c", "m") and not isinstance(op2[1], int) and op2[1][0] in filled and any(p_[0] in ("[]", "[c]") for p_ in op2[1][1]):
                                            looked = True
                            inspected[(adt, names[i])] = looked
    # C14.R (b): a method of the type that reaches an `expect` / `unwrap` / `unreachable!` / panic under a comparison of an element
    # of such a buffer with a constant relies on an invariant of the bytes; a reader that never looks at the bytes cannot have
    # established it
    PANICKY = ("expect", "unwrap", "panic_fmt", "panic", "unreachable_display", "begin_panic", "panic_explicit")
    n_b = 0
    for (adt, fld), reader in sorted(raw.items()):
        getters = set()
        for f in C.fns_of(prog, adt):
            e_ = C.ret_expr(prog, f) if not f.promoted and f.argc >= 1 else None
            if e_ is not None and f.local_ty(0) in ("u8", "u16", "u32") and any(y[0] == "field" and y[-1] == fld for y in sym.walk(e_)):
                getters.add(f.id)

        def reads_buffer(x):
            for y in sym.walk(x):
                if y[0] == "index" and any(z[0] == "field" and z[-1] == fld for z in sym.walk(y[1])):
                    return True
                if y[0] == "call" and y[1] in getters:
                    return True
            return False
        sites = []
        for f in C.fns_of(prog, adt):
            if f.promoted or f.id == reader or f.item_name.startswith(("deserialize", "new")):
                continue
            s_ = None
            for b, site in f.calls():
                nm = (site.get("callee") or "").rsplit("::", 1)[-1]
                if nm not in PANICKY or f.blocks[b].cleanup:
                    continue
                if any(m_ in ("debug_assert", "debug_assert_eq", "debug_assert_ne") for m_ in ir.span_macros(site.get("span"))):
                    continue
                s_ = s_ or Sym(prog, f)
                steer = [t for t in s_.cmp_facts_at(b) if len(t) == 3 and t[0] in ("Lt", "Le", "Gt", "Ge", "Eq", "Ne") and
                         ((reads_buffer(t[1]) and t[2][0] == "const") or (reads_buffer(t[2]) and t[1][0] == "const"))]
                if steer:
                    sites.append((f, b, nm, steer[0]))
        for f, b, nm, t in sites:
            n_b += 1
            res.tri(True if inspected.get((adt, fld)) else False, "C14.R", "C14.R|%s|%s|%s" % (f.id, fld, nm),
                    "%s reaches `%s` under `%s %s %s` on an element of `%s`, a buffer %s copies from the image without ever looking at its bytes: an image "
                    "with such an element and no matching state is returned as Ok and panics later" % (
                        f.id, nm, sym.show(t[1])[:60], t[0], sym.show(t[2])[:20], fld, reader), f.id)
    res.extra["raw_buffer_steered_panics"] = n_b
    n = 0
    for (adt, fld), reader in sorted(raw.items()):
        for f in C.fns_of(prog, adt):
            if f.promoted:
                continue
            s = None
            for b in f.blocks:
                if b.cleanup:
                    continue
                for st in b.stmts:
                    if not (st[0] == "=" and st[2][0] in ("bin", "checked") and st[2][1] in ("Shl", "Shr", "ShlWithOverflow", "ShrWithOverflow")):
                        continue
                    s = s or Sym(prog, f)
                    try:
                        e = s.at(b.idx, "t").rvalue(st[2])
                    except Exception:
                        continue
                    if e[0] != "bin" or len(e) < 4:
                        continue
                    amt = e[3]
                    lv = formula.top_leaves(amt)
                    elems = [k for k, x in lv.items() if any(y[0] == "field" and y[-1] == fld for y in sym.walk(x)) and
                             (x[0] == "index" or (x[0] == "call" and x[1].rsplit("::", 1)[-1] in ("next", "index", "get_unchecked")))]
                    if len(lv) != 1 or len(elems) != 1:
                        continue
                    ty = f.local_ty(st[1]) if isinstance(st[1], int) else ""
                    if ty.startswith("("):
                        ty = ty[1:].split(",")[0]
                    bits = {"u8": 8, "i8": 8, "u16": 16, "i16": 16, "u32": 32, "i32": 32, "u64": 64, "i64": 64, "usize": 64, "isize": 64, "u128": 128, "i128": 128}.get(ty)
                    if bits is None:
                        continue
                    n += 1
                    fp = C.facts_pred(s, b.idx)
                    wit = None
                    try:
                        for v in range(256):
                            env = {elems[0]: v, "@prog": prog}
                            a = formula.evaluate(amt, env)
                            holds, _n = fp(env)
                            if holds and isinstance(a, int) and a >= bits:
                                wit = (v, a)
                                break
                        verdict = wit is None
                    except (formula.Uneval, TypeError):
                        verdict = None
                    res.tri(verdict, "C14.R", "C14.R|%s|%s|shift" % (f.id, fld),
                            "%s shifts a %d-bit value by an element of `%s` without bounding it: %s fills that buffer straight from the image, and a byte %s (amount %s) "
                            "reaches the shift (overflow panic in debug builds) once the deserialized value is queried, updated or merged" % (
                                f.id, bits, fld, reader, wit and wit[0], wit and wit[1]), f.id, st[3] if len(st) > 3 else None)
    res.rule("C14.R", len(raw), 1, "byte buffers handed from the image to the returned object unvalidated")
    res.extra["raw_buffers"] = ["%s.%s <- %s" % (a.rsplit("::", 1)[-1], f_, r) for (a, f_), r in sorted(raw.items())]
    res.extra["raw_buffer_shift_sites"] = n


def unvalidated_scalars(prog, res, ents):
    """C14.U (second half of the property): a scalar that travels from a read of the image into a field of the returned object
    without ever being compared with anything on the way (in the reader, or in the helpers it is handed to) can hold any value of
    its type; a method of the object that does overflow-checked arithmetic on that field (`count -= 1`, `cur_min + nibble`) then
    panics for some image.  Provenance is followed through builder parameters to the call sites (3 hops)."""
    from .common import Sym
    reach = C.reach_from(prog, ents)
    rset = {g.id for g in reach}
    syms = {}

    def S(g):
        if g.id not in syms:
            syms[g.id] = Sym(prog, g)
        return syms[g.id]

    def strip(e):
        while isinstance(e, tuple) and e and e[0] == "cast":
            e = e[1]
        return e
    cmp_cache = {}

    def compared(g, key):
        """is the leaf `key` (a tagged read or a parameter name) an operand of a comparison / match in g, or handed to an
        in-crate callee that compares the parameter it lands in?"""
        ck = (g.id, key)
        if ck in cmp_cache:
            return cmp_cache[ck]
        cmp_cache[ck] = False
        sg = S(g)
        hit = False
        for b in g.blocks:
            if b.cleanup:
                continue
            for st in b.stmts:
                if st[0] == "=" and st[2][0] in ("bin", "checked") and st[2][1] in ("Lt", "Le", "Gt", "Ge", "Eq", "Ne"):
                    try:
                        e = sg.at(b.idx, "t").rvalue(st[2])
                    except Exception:
                        continue
                    if any(sym.show(y) == key for y in sym.walk(e) if y[0] in ("call", "param")):
                        hit = True
            t = b.term
            if t[0] == "switch" and t[4] != "bool":
                try:
                    e = sg.at(b.idx, "t").operand(t[1])
                except Exception:
                    e = None
                if e is not None and strip(e)[0] != "discr" and any(sym.show(y) == key for y in sym.walk(e) if y[0] in ("call", "param")):
                    hit = True          # a match on the value itself (not on the tag of the Result it arrived in)
            if t[0] == "call" and not hit and (t[1].get("callee") or "").rsplit("::", 1)[-1] in (
                    "contains", "cmp", "partial_cmp", "eq", "ne", "lt", "le", "gt", "ge", "min", "max", "clamp", "checked_sub", "checked_add", "checked_mul", "try_from", "try_into"):
                for a in t[1]["args"]:
                    try:
                        ea = sg.at(b.idx, "t").operand(a)
                    except Exception:
                        continue
                    if any(sym.show(y) == key for y in sym.walk(ea) if y[0] in ("call", "param")):
                        hit = True
            if t[0] == "call" and not hit:
                cal = prog.fns.get(t[1].get("callee") or "")
                if cal is not None and not cal.promoted:
                    for i, a in enumerate(t[1]["args"]):
                        try:
                            ea = strip(sg.at(b.idx, "t").operand(a))
                        except Exception:
                            continue
                        if sym.show(ea) == key and i + 1 <= cal.argc and cal.local_name(i + 1):
                            if compared(cal, cal.local_name(i + 1)):
                                hit = True
        cmp_cache[ck] = hit
        return hit

    def validated(g, e, depth=0):
        """three-valued: True = compared somewhere on its way, False = a plain image scalar nobody looked at, None = not a plain scalar"""
        e = strip(e)
        if e[0] == "call" and e[1].startswith("read_") and "@" in e[1]:
            key = sym.show(e)
            return compared(g, key)
        if e[0] == "param" and depth < 3:
            key = sym.show(e)
            if compared(g, key):
                return True
            outs = []
            for h in reach:
                for b, site in h.calls():
                    if site.get("callee") == g.id and e[1] - 1 < len(site["args"]):
                        outs.append(validated(h, S(h).at(b, "t").operand(site["args"][e[1] - 1]), depth + 1))
            if not outs or any(o is None for o in outs):
                return None
            return all(outs)
        return None
    fields = {}     # (adt, field) -> (builder, verdict)
    for g in reach:
        if not g.item_name.startswith(("deserialize", "new", "from_", "read_", "make", "try_")) and g.id not in ents:
            continue        # only the routines that build the returned object
        for (ff, bi, kind, place, rv, span, adt, nm) in sym.field_stores(prog, fns=[g]):
            if kind == "call" or rv is None:
                continue
            a = prog.adts.get(adt)
            if not a or a.get("kind") != "struct":
                continue
            ty = dict((x[0], x[1]) for x in a["variants"][0]["fields"]).get(nm, "")
            if ty not in ("u8", "u16", "u32", "u64", "usize", "i32", "i64"):
                continue
            try:
                e = S(g).at(bi, "t").rvalue(rv)
            except Exception:
                continue
            v = validated(g, e)
            if v is not None:
                old = fields.get((adt, nm))
                fields[(adt, nm)] = (g.id, v if old is None else (old[1] and v))
    n = 0
    for (adt, fld), (builder, ok) in sorted(fields.items()):
        uses = []
        for m in C.fns_of(prog, adt):
            if m.promoted or m.id in rset and m.item_name.startswith("deserialize"):
                continue
            sm = None
            for b in m.blocks:
                t = b.term
                if b.cleanup or t[0] != "assert" or t[3] not in ("Overflow:Sub", "Overflow:Add", "Overflow:Mul"):
                    continue
                sm = sm or Sym(prog, m)
                ops = [strip(sm.at(b.idx, "t").operand(x)) for x in t[4][:2]]
                if any(o[0] == "field" and o[2] == fld and o[1][0] == "param" and o[1][1] == 1 for o in ops):
                    uses.append((m, t[3], t[6] if len(t) > 6 else None))
        for m, kind, span in uses:
            n += 1
            res.tri(bool(ok), "C14.U", "C14.U|%s|%s|%s" % (m.id, fld, kind),
                    "%s does %s on `self.%s`, which %s fills from the image without anything on the way comparing it: for some image value the "
                    "decoded object panics (overflow checks) on use" % (m.id, kind, fld, builder), m.id, span)
    res.rule("C14.U", len(fields), 3, "scalar fields of returned objects that come straight from an image read")
    res.extra["image_scalar_fields"] = ["%s.%s%s" % (a.rsplit("::", 1)[-1], f_, "" if v[1] else " (never compared)") for (a, f_), v in sorted(fields.items())]
    res.extra["image_scalar_uses"] = n



# ------------------------------------------------------------------------------------------------ C14.P slice-length chains
def strip(e):
    while isinstance(e, tuple) and e and e[0] == "cast":
        e = e[1]
    return e


def _slice_params(f):
    return [i for i in range(1, f.argc + 1) if f.local_ty(i).replace("&mut ", "&").startswith("&[") and f.local_ty(i).endswith("]")]


def slice_length_chains(prog, scope):
    from .common import Sym
    """Constant indices into a slice parameter (`bytes[11]` in the generated bit unpackers) are bounds checks the interval domain
    cannot decide: the slice's length is a run-time quantity of the caller.  They are decided here bottom-up, as length
    *requirements*: a function that indexes parameter p at constants needs len(p) >= max + 1; a caller that hands its own parameter
    on inherits the requirement under the exact path condition of the call (the dispatch `match bits { N => unpack_bits_N(..) }`
    turns 63 constants into the table N -> need), unless its own checks refute every shorter length (`assert_eq!(values.len(), 8)`);
    where the slice is finally made (`vec![0u8; entry_bits]`, `&mut entries[i..i + 8]`) its length expression is evaluated for every
    value of the byte-sized leaves and samples of the others and compared with the requirement selected by the same values.
    returns {leaf fn id: (verdict, why)} for every function all of whose slice-parameter bounds checks are constant-index ones;
    verdict True = every chain to an origin satisfies the need, False = some origin provides a shorter slice (with the witness),
    None = a chain could not be followed / evaluated."""
    RETX = {}
    fns = [prog.fns[x] for x in sorted(scope) if x in prog.fns and not prog.fns[x].promoted]
    direct = {}      # fn id -> {param: need}
    covered = {}
    syms = {}

    def S(f):
        if f.id not in syms:
            syms[f.id] = Sym(prog, f)
        return syms[f.id]
    for f in fns:
        sp = _slice_params(f)
        if not sp:
            continue
        need = {}
        clean = True
        n_b = 0
        for b in f.blocks:
            t = b.term
            if b.cleanup or t[0] != "assert" or t[3] != "BoundsCheck":
                continue
            n_b += 1
            try:
                ln, ix = [strip(S(f).at(b.idx, "t").operand(x)) for x in t[4][:2]]
            except Exception:
                clean = False
                continue
            if ln[0] == "un" and ln[1] == "PtrMetadata" and ln[2][0] == "param" and ln[2][1] in sp and ix[0] == "const" and isinstance(ix[1], int):
                need[ln[2][1]] = max(need.get(ln[2][1], 0), ix[1] + 1)
            else:
                clean = False
        if need and clean:
            direct[f.id] = need
            covered[f.id] = n_b
    if not direct:
        return {}, {}
    callers = {}
    for f in fns:
        for b, site in f.calls():
            cal = site.get("callee")
            if cal:
                callers.setdefault(cal, []).append((f, b, site))

    SAMPLES = (0, 1, 8, 9, 64, 1000)
    origin_rows = {}

    def envs_for(leaf_keys, byte_leaves):
        """every value of the byte-sized leaves x samples of the rest (bounded)"""
        import itertools
        byte_leaves = [k for k in leaf_keys if k in byte_leaves]
        rest = [k for k in leaf_keys if k not in byte_leaves]
        doms = [range(256)] * len(byte_leaves) + [SAMPLES] * len(rest)
        total = 1
        for d in doms:
            total *= len(d)
        if total > 40000:
            return None
        return [dict(zip(byte_leaves + rest, vs)) for vs in itertools.product(*doms)]

    def follow(fid, reqs, depth):
        """reqs: list of (pred over fid's own leaves, need, param).  returns (verdict, why)"""
        f = prog.fns[fid]
        if depth > 4:
            return None, "chain deeper than 4 calls"
        scal = [i for i in range(1, f.argc + 1) if f.local_ty(i) in ir.INT_RANGES]
        # local refutation: do f's own checks exclude every shorter length?
        open_reqs = []
        feas = {}
        for (pred, need, p) in reqs:
            pname = f.local_name(p) or "arg%d" % p
            refuted = True
            for L in sorted({0, need - 1}):
                if L < 0:
                    continue
                r = pred({"@prog": prog, "@retexpr": RETX, "PtrMetadata(%s)" % pname: L})
                if r is not False:
                    # may depend on scalar parameters: try them
                    names = [f.local_name(i) or "arg%d" % i for i in scal]
                    es = envs_for(names, set(n for n, i in zip(names, scal) if f.local_ty(i) in ("u8", "i8")))
                    if es is None:
                        refuted = False
                        break
                    fkey = (id(pred),)
                    if fkey not in feas:
                        # scalar values under which the requirement applies at all (lengths left open)
                        feas[fkey] = [e for e in es if pred(dict(e, **{"@prog": prog, "@retexpr": RETX})) is not False]
                    for e in feas[fkey]:
                        e2 = dict(e)
                        e2["@prog"] = prog
                        e2["@retexpr"] = RETX
                        e2["PtrMetadata(%s)" % pname] = L
                        if pred(e2) is not False:
                            refuted = False
                            break
                    if not refuted:
                        break
            if not refuted:
                open_reqs.append((pred, need, p))
        if not open_reqs:
            return True, "own length checks"
        sites = callers.get(fid, [])
        if not sites:
            return None, "%s has open length requirements and no in-crate caller" % fid
        verdict = True
        why = "callers"
        for (g, b, site) in sites:
            sg = S(g)
            args = [strip(sg.at(b, "t").operand(a)) for a in site["args"]]
            gp0 = C.path_pred(sg, b)
            gmemo = {}

            def gp(env, gp0=gp0, gmemo=gmemo):
                k = tuple(sorted((a_, b_) for a_, b_ in env.items() if not a_.startswith("@") and not isinstance(b_, (list, dict))))
                if k not in gmemo:
                    gmemo[k] = gp0(env)
                return gmemo[k]
            gsp = _slice_params(g)
            passed = {}
            for (pred, need, p) in open_reqs:
                a = args[p - 1]
                while a[0] in ("ref", "deref") or (a[0] == "call" and a[1].rsplit("::", 1)[-1] in ("deref", "deref_mut", "as_slice", "as_mut_slice", "as_ref", "borrow")):
                    a = a[1] if a[0] in ("ref", "deref") and len(a) == 2 else (a[2][0] if a[0] == "call" else a[-1])
                if a[0] == "param" and a[1] in gsp:
                    passed.setdefault(a[1], []).append((pred, need, p))
            if passed:
                # the caller hands its own parameter on: requirement inherited under the call's path condition and the callee's condition
                nreq = []
                for gparam, lst in passed.items():
                    for (pred, need, p) in lst:
                        def mk(pred=pred, p=p, gparam=gparam):
                            def q(env):
                                r1 = gp(env)
                                if r1 is False:
                                    return False
                                cenv = {"@prog": prog, "@retexpr": RETX}
                                try:
                                    for i, a_ in enumerate(args):
                                        nm = f.local_name(i + 1) or "arg%d" % (i + 1)
                                        if f.local_ty(i + 1) in ir.INT_RANGES:
                                            cenv[nm] = formula.evaluate(a_, env)
                                    gname = g.local_name(gparam) or "arg%d" % gparam
                                    if "PtrMetadata(%s)" % gname in env:
                                        cenv["PtrMetadata(%s)" % (f.local_name(p) or "arg%d" % p)] = env["PtrMetadata(%s)" % gname]
                                except (formula.Uneval, TypeError):
                                    return None
                                r2 = pred(cenv)
                                if r2 is False:
                                    return False
                                return True if (r1 is True and r2 is True) else None
                            return q
                        nreq.append((mk(), need, gparam))
                v, w = follow(g.id, nreq, depth + 1)
                if v is False:
                    return False, w
                if v is None:
                    verdict, why = None, w
                if len(passed) == len(set(p for _, _, p in open_reqs)):
                    continue
            # the slice is made here: evaluate its length against the requirement chosen by the same values
            skey = (g.id, b)
            if skey not in origin_rows:
                keys = set()
                for a in args:
                    for x in sym.walk(a):
                        if x[0] in ("var", "param") or (x[0] == "call" and "@" in x[1] and not x[2]):
                            keys.add(C.show(x))
                byte_leaves = set(k for k in keys if k.startswith(("read_u8@", "read_i8@")))
                es = envs_for(sorted(keys), byte_leaves)
                rows = None
                if es is not None:
                    rows = []
                    sl = _slice_params(f)
                    for e in es:
                        e["@prog"] = prog
                        e["@retexpr"] = RETX
                        cenv = {"@prog": prog, "@retexpr": RETX}
                        lens = {}
                        try:
                            for i, a_ in enumerate(args):
                                if f.local_ty(i + 1) in ir.INT_RANGES:
                                    cenv[f.local_name(i + 1) or "arg%d" % (i + 1)] = formula.evaluate(a_, e)
                            for p_ in sl:
                                try:
                                    lens[p_] = formula.seq_len(args[p_ - 1], e)
                                except (formula.Uneval, TypeError, ZeroDivisionError) as ex:
                                    lens[p_] = "length of argument %d at %s not evaluable (%s)" % (p_, g.id, str(ex)[:60])
                        except (formula.Uneval, TypeError, ZeroDivisionError) as ex:
                            rows = "scalar argument at %s not evaluable (%s)" % (g.id, str(ex)[:60])
                            break
                        rows.append((e, cenv, lens))
                origin_rows[skey] = rows
            rows = origin_rows[skey]
            if rows is None or isinstance(rows, str):
                verdict, why = None, rows or ("too many leaves at %s" % g.id)
                continue
            for (pred, need, p) in open_reqs:
                if any(p == pp for lst in passed.values() for (_, _, pp) in lst):
                    continue
                for (e, cenv, lens) in rows:
                    L = lens.get(p)
                    if not isinstance(L, int) or isinstance(L, bool):
                        verdict, why = None, L if isinstance(L, str) else "length of argument %d at %s not an integer" % (p, g.id)
                        break
                    if L >= need:
                        continue
                    cenv2 = dict(cenv)
                    cenv2["PtrMetadata(%s)" % (f.local_name(p) or "arg%d" % p)] = L
                    r = pred(cenv2)
                    if r is False or gp(e) is False:       # the values do not select this requirement / do not reach the call
                        continue
                    if r is True:
                        return False, "%s passes a slice of length %d as `%s` of %s where %d elements are indexed (with %s)" % (
                            g.id, L, f.local_name(p), fid, need, {k: v for k, v in e.items() if not k.startswith("@")})
                    if verdict:
                        verdict, why = None, "requirement condition not evaluable at %s" % g.id
        return verdict, why

    out = {}
    for fid, need in direct.items():
        f = prog.fns[fid]
        reqs = [((lambda env: True), n, p) for p, n in sorted(need.items())]
        out[fid] = follow(fid, reqs, 0)
    return out, covered


def container_geometry(prog, res):
    """C14.G / C18: the table size an HLL LIST or SET image announces is handed to the container readers only when the in-memory
    sketch can reach it: a coupon list never grows beyond its initial table (the size `List::default()` builds) and a coupon set is
    promoted when its table has reached lg_k - 3 (the chain C18.K checks by value).  An accepted image beyond that is an Ok value that
    later panics (`HashSet full`) or is never promoted (the set doubles with the stream).  By value: the conditions on every path to
    the call of the container reader, evaluated for every lg_k 4..=21 and every lg_arr byte 0..=255; conditions on anything else are
    left open (a path is feasible unless one of its conditions is definitely false)."""
    from .common import Sym, show
    hs = "hll::sketch::HllSketch"
    rd = C.pub_fn(prog, hs, "deserialize")
    if rd is None:
        return 0
    s = Sym(prog, rd)
    lgk_key = None
    for (ff, b, kind, place, rv, span, adt, fld) in sym.field_stores(prog, adt=hs, field="lg_config_k", fns=[rd]):
        try:
            e = s.at(b, "t").rvalue(rv)
        except Exception:
            continue
        while e[0] == "cast":
            e = e[1]
        lgk_key = show(e)
    # the list's own table size
    list_lg = None
    ld = C.fn_one(prog, "hll::list::List", "default")
    if ld is not None:
        for b, site in ld.calls():
            if (site.get("callee") or "").endswith("List::new") and site["args"]:
                try:
                    list_lg = formula.evaluate(Sym(prog, ld).at(b, "t").operand(site["args"][0]), {"@prog": prog})
                except formula.Uneval:
                    pass
    n = 0
    for b, site in rd.calls():
        cal = site.get("callee") or ""
        which = "list" if cal == "hll::list::List::deserialize" else ("set" if cal == "hll::hash_set::HashSet::deserialize" else None)
        if which is None or len(site["args"]) < 2:
            continue
        n += 1
        a = s.at(b, "t").operand(site["args"][1])
        while a[0] == "cast":
            a = a[1]
        arr_key = show(a)
        paths = s.path_conditions(b)
        if paths is None or lgk_key is None or (which == "list" and not isinstance(list_lg, int)) or not (a[0] == "call" and "@" in a[1]):
            res.tri(None, "C14.G", "C14.G|%s" % which, "size argument of the %s reader / lg_k not recognised" % which)
            continue
        verdict, wit = True, ""
        for lgk in range(4, 22):
            bound = list_lg if which == "list" else max(lgk - 3, 0)
            for arr in range(0, 256):
                if arr <= bound:
                    continue
                env = {"@prog": prog, lgk_key: lgk, arr_key: arr}
                feasible = False
                unknown = False
                for pth in paths:
                    dead = False
                    open_ = False
                    for c, tv in pth:
                        try:
                            v = formula.evaluate(c, env)
                        except (formula.Uneval, TypeError, IndexError, ZeroDivisionError):
                            v = ("?",)
                        if isinstance(v, tuple):
                            # a condition that looks at the size but cannot be evaluated (a validation helper with early returns):
                            # the path may well be closed by it -- not evidence of anything
                            if arr_key in show(c):
                                open_ = True
                            continue
                        if (tv[0] == "eq" and v != tv[1]) or (tv[0] == "ne" and v in tv[1]):
                            dead = True
                            break
                    if not dead and not open_:
                        feasible = True
                        break
                    if not dead and open_:
                        unknown = True
                if feasible:
                    verdict, wit = False, "lg_k %d, lg_arr %d (the sketch itself never goes beyond %d)" % (lgk, arr, bound)
                    break
                if unknown and verdict:
                    verdict = None
            if verdict is False:
                break
        res.tri(verdict, "C14.G", "C14.G|%s" % which, "HllSketch::deserialize hands the %s reader a table size no sketch reaches: %s -- the value is Ok and then %s" % (
            which, wit, "promotion overflows the fixed first set (`HashSet full`)" if which == "list" else "is never promoted: the set doubles with the stream"), rd.id, site.get("span"),
            sample={"rule": "C14.G", "container": which, "lg_k": lgk_key, "lg_arr": arr_key})
    res.rule("C14.G", n, 2, "container readers called from HllSketch::deserialize")
    return n


def run(prog, ctx):
    res = Result("C14")
    ents, missing = entries(prog)
    res.entry_points = ents
    res.rule("C14.entries", len(ents), 11, "public deserialize entry points (8 families, with _with_seed variants and CpcWrapper::new)")
    for m in missing:
        res.violate("C14.entries", "C14.entries|missing|" + m, "deserialize entry point %s no longer exists or is not exported" % m)
    scope = prog.reach(ents)
    res.functions_analysed = len(scope)
    an = absint.Analysis(prog, scope=scope)
    an.run(entries=set(ents))
    kinds = {}
    accepted = []
    n_tainted = 0
    nan_rule(prog, res, ents)
    object_invariants(prog, res, ents)
    aux_slot_agreement(prog, res)
    raw_buffer_uses(prog, res, ents)
    unvalidated_scalars(prog, res, ents)
    try:
        container_geometry(prog, res)
    except Exception as ex:       # a rule that cannot run leaves its obligations undecided; it must not take the pack down
        res.tri(None, "C14.G", "C14.G|error", "rule could not run: %r" % (ex,))
    try:
        chains, chain_cover = slice_length_chains(prog, scope)
    except Exception as ex:
        chains, chain_cover = {}, {}
        res.tri(None, "C14.P", "C14.P|error", "rule could not run: %r" % (ex,))
    n_chain = [0, 0, 0]
    for fid, (v, why) in sorted(chains.items()):
        if v is False:
            res.violate("C14.P", "C14.P|%s" % fid, "index out of bounds reachable from an image: %s" % why, fid)
    res.extra["slice_length_chains"] = {"functions": len(chains), "proved": sum(1 for v, _ in chains.values() if v is True),
                                        "refuted": sum(1 for v, _ in chains.values() if v is False),
                                        "undecided": sorted(set(w for v, w in chains.values() if v is None))[:6]}
    res.rule("C14.P", len(chains), 60, "functions indexing a slice parameter at constants only (generated bit unpackers), decided through the lengths their callers provide")
    nan_obl = res.obligations
    for o in an.obligations:
        b = srcs(o.taint)
        if not b:
            continue
        n_tainted += 1
        widened = absint.W in o.taint
        kinds.setdefault(o.kind, [0, 0, 0, 0])
        kinds[o.kind][0] += 1
        if o.status == "safe":
            res.discharged += 1
            kinds[o.kind][1] += 1
            if o.kind in ("shift", "alloc", "overflow", "index", "bounds") and "bit_pack" not in o.fn:
                res.sample({"site": o.fn, "kind": o.kind, "detail": o.detail, "operands": o.operands, "verdict": "discharged",
                            "sources": [short_src(t) for t in b][:4]})
            continue
        if o.kind == "bounds" and o.fn in chains and o.status != "unsafe":
            # a constant index into a slice parameter: decided by the length requirement chain (C14.P)
            v = chains[o.fn][0]
            if v is True:
                res.discharged += 1
                kinds[o.kind][1] += 1
                n_chain[0] += 1
                continue
            if v is False:
                kinds[o.kind][2] += 1      # reported once per function above
                continue
        if o.status == "unsafe" and not widened:
            detail = o.detail
            if o.kind == "alloc":
                detail = "%s[elem=%s]" % (o.detail, o.operands[1][1])
            # the key names the sink (kind, function, operation, operand); the byte sources are in the message, not in the key:
            # their block numbers move under harmless edits of the reader
            key = "C14|%s|%s|%s" % (o.kind, o.fn, detail)      # (no operand names either: locals get renamed)
            acc = ACCEPTED_INVARIANTS.get((o.fn, o.label))
            if acc is not None and acc[1](prog):
                kinds[o.kind][3] += 1
                res.undecided += 1
                accepted.append({"site": o.fn, "operand": o.label, "reason": acc[0]})
                continue
            kinds[o.kind][2] += 1
            rule = {"shift": "C14.O1", "alloc": "C14.O2", "bounds": "C14.O3", "index": "C14.O3", "overflow": "C14.O4",
                    "divzero": "C14.O4", "panic": "C14.O5", "unwrap": "C14.O5"}.get(o.kind, "C14")
            msg = "%s in %s: %s with byte-derived operand(s) %s not bounded by any dominating check (sources: %s)" % (
                o.kind, o.fn, o.detail, ["%s in [%s, %s]" % x for x in o.operands], ", ".join(sorted(set(short_src(t) for t in b))))
            res.violate(rule, key, msg, o.fn, o.span, {"operands": o.operands, "sources": b})
        else:
            res.undecided += 1
            kinds[o.kind][3] += 1
    res.obligations = n_tainted + nan_obl
    res.extra["per_sink_class"] = {k: {"obligations": v[0], "discharged": v[1], "violations": v[2], "undecided": v[3]} for k, v in kinds.items()}
    res.extra["analysis"] = an.stats
    res.extra["accepted_invariants"] = accepted
    res.rule("C14.sinks", n_tainted, 300, "byte-tainted sink obligations reachable from the deserialize entries")
    # a value returned as Ok must survive updates: the aux table an Hll4 image is rebuilt into keeps insert / find / grow on one
    # probe sequence (C02.Q, Q2), otherwise an entry is lost and the next update of that slot hits an `expect`
    C.import_rules(res, prog, ctx, "C14.Q", "C02", ("C02.Q", "C02.Q2"), "aux table rebuilt from an image", 2)
    # the frequent-items reader rebuilds the map by insertion: each insertion is followed by the resize-or-purge step (C07.K); a map
    # filled past its load limit makes the open-addressing probe spin or hit its drift limit inside deserialize()
    C.import_rules(res, prog, ctx, "C14.K", "C07", ("C07.K",), "map rebuilt from an image keeps its load limit", 0,
                   key_filter=lambda k: "deserialize" in k)
    # a decoded compact theta sketch recorded as ordered is handed to the compressed writer, which subtracts consecutive entries:
    # the ordered form needs the entries to have been compared (C13.D)
    C.import_rules(res, prog, ctx, "C14.D", "C13", ("C13.D",), "ordered form of a decoded theta sketch", 0)
    res.explanation = ("interprocedural interval + taint abstract interpretation (MIR) over the %d functions reachable from the %d "
                       "deserialize entry points; every byte-tainted shift, allocation, index, checked arithmetic, division, explicit panic and "
                       "unwrap is an obligation; discharged = proved from dominating guards / post-conditions / field invariants; "
                       "violation = tainted operand with a non-widened interval that fails the obligation" % (len(scope), len(ents)))
    res.not_decided = ("bounds of indices into run-time sized slices (O7) and obligations whose interval was widened are reported as undecided; "
                       "non-termination of loops whose body does not read input is not decided")
    return res
