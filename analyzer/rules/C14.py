"""C14 — malformed bytes yield an error, never a panic, abort or runaway allocation.

Decided statically (DESIGN §5.14): every shift / allocation / fixed-length index / checked arithmetic /
explicit panic / unwrap reachable from a deserialize entry point whose operands are derived from bytes read
through the codec (`SketchSlice::read_*`, `read_exact`) must be discharged by the interval analysis
(guards that dominate the site, callee post-conditions, field invariants).  A site is a VIOLATION only on
positive evidence: byte-tainted operand, interval not produced by widening, obligation fails.
"""
from .. import ir, absint
from ..main import Result

ENTRY_OWNERS = {
    "hll::sketch::HllSketch": ["deserialize"],
    "theta::sketch::CompactThetaSketch": ["deserialize", "deserialize_with_seed"],
    "cpc::sketch::CpcSketch": ["deserialize", "deserialize_with_seed"],
    "cpc::wrapper::CpcWrapper": ["new"],
    "tdigest::sketch::TDigestMut": ["deserialize"],
    "bloom::sketch::BloomFilter": ["deserialize"],
    "countmin::sketch::CountMinSketch": ["deserialize", "deserialize_with_seed"],
    "frequencies::sketch::FrequentItemsSketch": ["deserialize"],
}

# Explicit panics that are unreachable because of a data-structure invariant the interval domain cannot
# express.  One named function + condition each, with the reason; the structural part of the reason is
# re-checked by the rule named in `checked_by` (see rules/C18.py / C02.py).
def _fi_sum_checked(prog):
    """reason check for the frequent-items replay: in the deserializer, a checked_add fold whose failure leaves with an
    error dominates the loop that replays the counters through update_with_count"""
    for f in prog.fns.values():
        if f.promoted or f.owner != "frequencies::sketch::FrequentItemsSketch" or not f.item_name.startswith("deserialize"):
            continue
        chk = [b for b, site in f.calls() if (site.get("callee") or "").endswith("::checked_add")]
        upd = [b for b, site in f.calls() if (site.get("callee") or "").endswith("::update_with_count")]
        if not upd:
            continue
        def reach(b):
            seen, st = set(), list(f.succs(b))
            while st:
                x = st.pop()
                if x not in seen:
                    seen.add(x)
                    st.extend(f.succs(x))
            return seen
        # the fold loop comes strictly before the replay: it reaches the replay and cannot be re-entered from it
        if chk and all(any(u in reach(c) and c not in reach(u) for c in chk) for u in upd):
            return True
        return False
    return False


ACCEPTED_INVARIANTS = {
    # (function, operand label): (reason, verifier of the structural part of the reason)
    ("frequencies::sketch::FrequentItemsSketch::<T>::update_with_count", "self.stream_weight,count"): (
        "during deserialization the counters replayed through update_with_count were summed with checked_add first (the sum fits u64) and "
        "the stream weight starts at 0; the interval domain cannot carry a bound on a sum over a vector", _fi_sum_checked),
}


def entries(prog):
    out = []
    missing = []
    for owner, names in ENTRY_OWNERS.items():
        for n in names:
            fs = [f for f in prog.find_fns(owner=owner, name=n) if f.exported]
            if not fs:
                missing.append("%s::%s" % (owner, n))
            out.extend(f.id for f in fs)
    # FrequentItemsSketch::deserialize has one impl per item type
    return out, missing


def srcs(taint):
    return sorted(t for t in taint if t.startswith("B:"))


def short_src(t):
    # "B:<fn>:<read>#<n>[:var]" -> "<fn-last-two-segments>:<var or read#n>"
    _, rest = t.split(":", 1)
    fn, _, lbl = rest.rpartition(":read_")
    lbl = "read_" + lbl
    parts = lbl.split(":")
    name = parts[1] if len(parts) > 1 else parts[0]
    seg = fn.split("::")
    return "%s:%s" % ("::".join(seg[-2:]), name)


def run(prog, ctx):
    res = Result("C14")
    ents, missing = entries(prog)
    res.entry_points = ents
    res.rule("C14.entries", len(ents), 11, "public deserialize entry points (8 families, with _with_seed variants and CpcWrapper::new)")
    for m in missing:
        res.violate("C14.entries", "C14.entries|missing|" + m, "deserialize entry point %s no longer exists or is not exported" % m)
    scope = prog.reach(ents)
    res.functions_analysed = len(scope)
    an = absint.Analysis(prog, scope=scope)
    an.run(entries=set(ents))
    kinds = {}
    accepted = []
    n_tainted = 0
    for o in an.obligations:
        b = srcs(o.taint)
        if not b:
            continue
        n_tainted += 1
        widened = absint.W in o.taint
        kinds.setdefault(o.kind, [0, 0, 0, 0])
        kinds[o.kind][0] += 1
        if o.status == "safe":
            res.discharged += 1
            kinds[o.kind][1] += 1
            if o.kind in ("shift", "alloc", "overflow", "index", "bounds") and "bit_pack" not in o.fn:
                res.sample({"site": o.fn, "kind": o.kind, "detail": o.detail, "operands": o.operands, "verdict": "discharged",
                            "sources": [short_src(t) for t in b][:4]})
            continue
        if o.status == "unsafe" and not widened:
            detail = o.detail
            if o.kind == "alloc":
                detail = "%s[elem=%s]" % (o.detail, o.operands[1][1])
            key = "C14|%s|%s|%s|%s|src=%s" % (o.kind, o.fn, detail, o.label, ",".join(sorted(set(short_src(t) for t in b))))
            acc = ACCEPTED_INVARIANTS.get((o.fn, o.label))
            if acc is not None and acc[1](prog):
                kinds[o.kind][3] += 1
                res.undecided += 1
                accepted.append({"site": o.fn, "operand": o.label, "reason": acc[0]})
                continue
            kinds[o.kind][2] += 1
            rule = {"shift": "C14.O1", "alloc": "C14.O2", "bounds": "C14.O3", "index": "C14.O3", "overflow": "C14.O4",
                    "divzero": "C14.O4", "panic": "C14.O5", "unwrap": "C14.O5"}.get(o.kind, "C14")
            msg = "%s in %s: %s with byte-derived operand(s) %s not bounded by any dominating check (sources: %s)" % (
                o.kind, o.fn, o.detail, ["%s in [%s, %s]" % x for x in o.operands], ", ".join(sorted(set(short_src(t) for t in b))))
            res.violate(rule, key, msg, o.fn, o.span, {"operands": o.operands, "sources": b})
        else:
            res.undecided += 1
            kinds[o.kind][3] += 1
    res.obligations = n_tainted
    res.extra["per_sink_class"] = {k: {"obligations": v[0], "discharged": v[1], "violations": v[2], "undecided": v[3]} for k, v in kinds.items()}
    res.extra["analysis"] = an.stats
    res.extra["accepted_invariants"] = accepted
    res.rule("C14.sinks", n_tainted, 300, "byte-tainted sink obligations reachable from the deserialize entries")
    res.explanation = ("interprocedural interval + taint abstract interpretation (MIR) over the %d functions reachable from the %d "
                       "deserialize entry points; every byte-tainted shift, allocation, index, checked arithmetic, division, explicit panic and "
                       "unwrap is an obligation; discharged = proved from dominating guards / post-conditions / field invariants; "
                       "violation = tainted operand with a non-widened interval that fails the obligation" % (len(scope), len(ents)))
    res.not_decided = ("bounds of indices into run-time sized slices (O7) and obligations whose interval was widened are reported as undecided; "
                       "non-termination of loops whose body does not read input is not decided")
    return res
