"""Symbolic helpers over MIR facts: PROV (normalised expression DAGs), GUARD (branch facts dominating a point),
PATH (must-pass-through), WRITERS (stores to ADT fields), call-site enumeration.

Expressions are nested tuples:
  ('const', v) ('param', i, name) ('field', base, name) ('bin', op, a, b) ('un', op, a) ('cast', a, to)
  ('call', callee, (args...)) ('len', x) ('index', base, idx) ('var', local, name) ('static', id)
  ('agg', kind, (fields...)) ('discr', x) ('unknown',)
Commutative operators have their operands sorted; widening casts, copies, (re)borrows, `?`, map_err, into,
clone are transparent; checked arithmetic `(a op b).0` is `a op b`.
"""
from . import ir
from .ir import pl_local, pl_proj, op_place, op_const, INT_RANGES

COMMUTATIVE = {"Add", "Mul", "BitAnd", "BitOr", "BitXor", "Eq", "Ne"}
TRANSPARENT_CALLS = (
    "std::result::Result::<T, E>::map_err", "<std::result::Result<T, E> as std::ops::Try>::branch",
    "<std::option::Option<T> as std::ops::Try>::branch", "std::hint::must_use", "std::convert::Into::into",
    "std::option::Option::<T>::expect", "std::option::Option::<T>::unwrap", "std::result::Result::<T, E>::expect",
    "std::result::Result::<T, E>::unwrap", "<std::vec::Vec<T, A> as std::ops::Deref>::deref",
    "<std::vec::Vec<T, A> as std::ops::DerefMut>::deref_mut", "<std::boxed::Box<T, A> as std::ops::Deref>::deref",
    "<I as std::iter::IntoIterator>::into_iter", "std::iter::Iterator::copied", "std::iter::Iterator::cloned",
    "std::borrow::Borrow::borrow", "std::convert::AsRef::as_ref",
)


def is_widening(fr, to):
    if fr in INT_RANGES and to in INT_RANGES:
        a, b = INT_RANGES[fr], INT_RANGES[to]
        return a[0] >= b[0] and a[1] <= b[1]
    return False


class Sym:
    def __init__(self, prog, fn, inline_depth=3, ifconv=True):
        self.prog = prog
        self.fn = fn
        self.inline_depth = inline_depth
        self.ifconv = ifconv
        self._memo = {}

    # ---------------------------------------------------------------- expressions
    def const_expr(self, k):
        if "fn" in k:
            return ("fnref", k["fn"])
        v = k.get("v")
        if isinstance(v, dict) and "static" in v:
            return ("static", v["static"])
        if isinstance(v, dict) and all(not isinstance(x, (dict, list)) for x in v.values()):
            return ("constdict", tuple(sorted(v.items())))
        if isinstance(v, list) and all(not isinstance(x, (dict, list)) for x in v) and len(v) <= 64:
            return ("constlist", tuple(v))
        if isinstance(v, (dict, list)):
            return ("const", repr(v)[:80])
        if v is None and "def" in k:
            if k.get("promoted") is not None and self.prog is not None:
                pf = self.prog.fns.get("%s::promoted[%d]" % (k["def"], k["promoted"]))
                if pf is not None and len(pf.blocks) <= 4:
                    try:
                        e = Sym(self.prog, pf, inline_depth=1).local(0)
                        if e[0] in ("const", "constdict", "constlist", "call", "agg"):
                            return e
                    except RecursionError:
                        pass
            return ("constref", k["def"], k.get("promoted"))
        return ("const", v)

    def operand(self, op, depth=0, subst=None):
        if op[0] == "k":
            return self.const_expr(op[1])
        return self.place(op[1], depth, subst)

    def place(self, p, depth=0, subst=None):
        if isinstance(p, int):
            return self.local(p, depth, subst)
        e = self.local(p[0], depth, subst)
        for pr in p[1]:
            k = pr[0]
            if k == "*":
                continue
            if k == "." and pr[3].startswith(("std::boxed::Box", "std::ptr::", "core::ptr::", "alloc::boxed::Box")):
                continue  # Box / Unique / NonNull internals
            if k == ".":
                # (x op y).0 of checked arithmetic
                if e[0] == "bin" and pr[1] == 0:
                    continue
                if e[0] == "agg" and pr[1] < len(e[2]):
                    el = e[2][pr[1]]
                    if el[0] == "call" and not el[2]:
                        # a fresh object created by a nullary call (Vec::new(), Default::default()): keep the field identity
                        e = ("field", ("fresh", e[1].rsplit("::", 1)[-1]), pr[2])
                        continue
                    e = el
                    continue
                if e[0] == "constdict":
                    d = dict(e[1])
                    if pr[2] in d:
                        e = ("const", d[pr[2]])
                        continue
                if e[0] == "call" and e[1] in ("Try::ok", ) and pr[1] == 0:
                    continue
                tag = getattr(self, "_tag_field", None)
                if tag is not None and ((e[0] == "param" and e[1] == tag[0]) or (p[0] == tag[0] and pr is p[1][0])) and pr[2] == tag[1] and getattr(self, "_pos", None) is not None:
                    e = ("fieldat", pr[2], self._pos)      # position-tagged read (field_exit_value_seq)
                    continue
                e = ("field", e, pr[2])
            elif k == "[]":
                e = ("index", e, self.local(pr[1], depth, subst))
            elif k == "[c]":
                e = ("index", e, ("const", pr[1]))
            elif k == "as":
                # downcast: payload of Continue/Some/Ok is the value itself for transparent carriers
                e = ("variant", e, pr[1])
            elif k == "[..]":
                e = ("subslice", e, pr[1], pr[2])
        return self._norm(e)

    def local(self, l, depth=0, subst=None):
        fn = self.fn
        key = (l, id(subst) if subst else 0)
        if key in self._memo:
            return self._memo[key]
        if depth > 120:
            return ("unknown",)
        d = fn.defs().get(l, [])
        full = [x for x in d if x[2] != "partial"]
        if len(d) != 1 or len(full) != 1:
            e = None
            pos = getattr(self, "_pos", None)
            exp = self.__dict__.setdefault("_expanding", set())
            if self.ifconv and pos is not None and len(full) == len(d) and len(d) >= 2 and depth < 100 and (l, pos) not in exp and len(exp) < 80:
                exp.add((l, pos))
                try:
                    e = self._value_at(l, pos, depth, subst)
                finally:
                    exp.discard((l, pos))
                if e is not None and contains(e, lambda t: t[0] == "unknown"):
                    e = None
            if e is None:
                e = ("var", l, fn.local_name(l) or "")
            return e
        sd = full[0]
        e = self._def_expr(l, sd, depth, subst)
        if not contains(e, lambda t: t[0] == "unknown") and not self.__dict__.get("_expanding"):
            self._memo[key] = e
        return e

    def _def_expr(self, l, sd, depth, subst):
        fn = self.fn
        saved = getattr(self, "_pos", None)
        try:
            if sd[2] == "arg":
                if subst is not None and l in subst:
                    return subst[l]
                e = ("param", l, fn.local_name(l) or "")
            elif sd[2] == "assign":
                self._pos = (sd[0], sd[1])
                rv = fn.blocks[sd[0]].stmts[sd[1]][2]
                e = self.rvalue(rv, depth + 1, subst)
            else:
                self._pos = (sd[0], "t")
                site = fn.blocks[sd[0]].term[1]
                e = self.call_expr(site, depth + 1, subst)
        finally:
            self._pos = saved
        return self._norm(e)

    def _reaches(self, a, b):
        fn = self.fn
        seen, st = set(), [a]
        while st:
            x = st.pop()
            if x == b:
                return True
            if x in seen:
                continue
            seen.add(x)
            st.extend(fn.succs(x))
        return False

    def at(self, block, idx="t"):
        """set the program point at which mutable locals are read (enables if-conversion of two reaching definitions)"""
        self._pos = (block, idx)
        return self

    def _reaching_defs(self, l, pos):
        """definitions of local l that reach program point pos (None if the search is inconclusive)"""
        fn = self.fn
        defs = fn.defs().get(l, [])
        by_block = {}
        for d in defs:
            by_block.setdefault(d[0], []).append(d)
        out = set()
        b0, i0 = pos

        def last_def_in(b, before):
            best = None
            for d in by_block.get(b, []):
                di = d[1]
                if di == "t":
                    if before is None:
                        best = d
                    continue
                if before is None or (before != "t" and di < before) or (before == "t"):
                    if best is None or best[1] == "t" or di > best[1]:
                        if best is not None and best[1] == "t":
                            continue
                        best = d
            if before is None:
                # terminator definition is the last one in the block
                for d in by_block.get(b, []):
                    if d[1] == "t":
                        return d
            return best

        d = last_def_in(b0, i0)
        if d is not None:
            return {d}
        seen = set()
        stack = list(fn.preds(b0))
        hit_entry = (b0 == 0)
        while stack:
            b = stack.pop()
            if b in seen:
                continue
            seen.add(b)
            d = last_def_in(b, None)
            if d is not None:
                out.add(d)
                continue
            if b == 0:
                hit_entry = True
            stack.extend(fn.preds(b))
        if hit_entry:
            argd = [x for x in defs if x[2] == "arg"]
            if argd:
                out.add(argd[0])
            else:
                return None
        # a use inside a loop: a definition later in the loop body reaches the use around the back edge and is in `out`;
        # _value_by_paths rejects the result when some reaching definition is not the last one on any acyclic path
        return out

    # ---- if-conversion: value of a mutable local at a program point as nested selects over branch conditions
    def _last_def_in(self, l, b, before):
        best = None
        for d in self.fn.defs().get(l, []):
            if d[0] != b or d[2] == "partial":
                continue
            di = d[1]
            if di == "t":
                if before is None:
                    return d
                continue
            if before is None or before == "t" or di < before:
                if best is None or di > best[1]:
                    best = d
        return best

    def _value_at(self, l, pos, depth, subst):
        b, i = pos
        d = self._last_def_in(l, b, i)
        if d is not None:
            return self._def_expr(l, d, depth, subst)
        v = self._value_at_entry(l, b, depth, subst, set())
        if v is None:
            v = self._value_by_paths(l, pos, depth, subst)
        return v

    def _value_by_paths(self, l, pos, depth, subst):
        """decision tree over the branch decisions of every acyclic path from the region head to the use
        (handles short-circuit || / && and any mix of nested and sequential branches)"""
        fn = self.fn
        R = self._reaching_defs(l, pos)
        if not R or len(R) > 12:
            return None
        b0 = pos[0]
        blocks = [d[0] if d[0] >= 0 else 0 for d in R] + [b0]
        chains = [self._dom_chain(x) for x in blocks]
        common = [x for x in chains[0] if all(x in c for c in chains[1:])]
        if not common:
            return None
        head = common[0]
        # enumerate acyclic paths head -> b0
        paths = []
        limit = [0]

        def dfs(b, path, decisions, last):
            if limit[0] > 400:
                return False
            d = self._last_def_in(l, b, pos[1] if b == b0 and len(path) > 0 or b == b0 else None)
            if b == b0:
                dd = self._last_def_in(l, b, pos[1])
                if dd is not None:
                    last = dd
                limit[0] += 1
                paths.append((tuple(decisions), last))
                return True
            dd = self._last_def_in(l, b, None)
            if dd is not None:
                last = dd
            t = fn.blocks[b].term
            for sx in fn.succs(b):
                if sx in path or fn.blocks[sx].cleanup:
                    continue
                if not self._reaches(sx, b0):
                    continue
                dec = decisions
                if t[0] == "switch":
                    vals = [v for v, tgt in t[2] if tgt == sx]
                    if sx == t[3] and not vals:
                        key = ("other",)
                    elif len(vals) == 1:
                        key = ("eq", vals[0])
                    else:
                        key = ("in", tuple(vals))
                    dec = decisions + [(b, key)]
                if not dfs(sx, path | {sx}, dec, last):
                    return False
            return True
        start_def = None
        for d in fn.defs().get(l, []):
            if d[2] == "arg":
                start_def = d
        # value entering the head: the unique def dominating head, if any
        hd = self._reaching_defs(l, (head, 0))
        if hd and len(hd) == 1:
            start_def = next(iter(hd))
        if not dfs(head, {head}, [], start_def):
            return None
        if not paths or any(p[1] is None for p in paths):
            return None
        # a definition that reaches the use only around a cycle (loop-carried) is not represented by any acyclic path:
        # the value is then not a function of the branch decisions alone
        if set(p[1] for p in paths) != set(R):
            return None

        def build(ps, k):
            defs = set(p[1] for p in ps)
            if len(defs) == 1:
                return self._def_expr(l, next(iter(defs)), depth, subst)
            # split on the k-th decision (all paths in ps share decisions[:k])
            if any(len(p[0]) <= k for p in ps):
                return None
            blk = ps[0][0][k][0]
            if any(p[0][k][0] != blk for p in ps):
                return None
            t = fn.blocks[blk].term
            groups = {}
            for p in ps:
                groups.setdefault(p[0][k][1], []).append(p)
            saved = getattr(self, "_pos", None)
            self._pos = (blk, "t")
            cond = self.operand(t[1], depth + 1, subst)
            self._pos = saved
            sub = {}
            for key, g in groups.items():
                v = build(g, k + 1)
                if v is None:
                    return None
                sub[key] = v
            if len(set(repr(v) for v in sub.values())) == 1:
                return next(iter(sub.values()))
            if t[4] == "bool" and len(t[2]) == 1 and t[2][0][0] == 0:
                vt, vf = sub.get(("other",)), sub.get(("eq", 0))
                if vt is None or vf is None:
                    return None
                return ("select", cond, vt, vf)
            e = sub.get(("other",))
            keys = [k2 for k2 in sub if k2[0] == "eq"]
            if e is None:
                if not keys:
                    return None
                e = sub[keys[-1]]
                keys = keys[:-1]
            for k2 in reversed(keys):
                e = ("select", ("bin", "Eq", cond, ("const", k2[1])), sub[k2], e)
            return e
        return build(paths, 0)

    def _value_at_exit(self, l, b, depth, subst, busy):
        d = self._last_def_in(l, b, None)
        if d is not None:
            return self._def_expr(l, d, depth, subst)
        return self._value_at_entry(l, b, depth, subst, busy)

    def _value_at_entry(self, l, b, depth, subst, busy):
        fn = self.fn
        if b in busy or len(busy) > 60 or depth > 110:
            return None
        if b == 0:
            argd = [x for x in fn.defs().get(l, []) if x[2] == "arg"]
            return self._def_expr(l, argd[0], depth, subst) if argd else None
        preds = [p for p in fn.preds(b) if not fn.blocks[p].cleanup]
        if not preds:
            return None
        busy = busy | {b}
        if len(preds) == 1:
            return self._value_at_exit(l, preds[0], depth, subst, busy)
        return self._merge(l, b, frozenset(preds), depth, subst, busy, 0)

    def _merge(self, l, join, preds, depth, subst, busy, rec):
        """value flowing into `join` over the edges from `preds`"""
        fn = self.fn
        if rec > 10:
            return None
        if len(preds) == 1:
            return self._value_at_exit(l, next(iter(preds)), depth, subst, busy)
        chains = [self._dom_chain(p) for p in preds]
        common = [x for x in chains[0] if all(x in c for c in chains[1:])]
        for D in common:
            t = fn.blocks[D].term
            if t[0] != "switch":
                continue
            succ = []
            for v, tgt in t[2]:
                succ.append((v, tgt))
            groups = {}
            okk = True
            for p in preds:
                owner = None
                if p == D:
                    # the edge D -> join itself: the arm(s) whose target is the join
                    owner = ("direct", join)
                else:
                    for tgt in set([x[1] for x in succ] + [t[3]]):
                        if tgt != join and fn.dominates(tgt, p) and self.edge_dominates(D, tgt, p):
                            owner = ("arm", tgt)
                if owner is None:
                    okk = False
                    break
                groups.setdefault(owner, set()).add(p)
            if not okk or len(groups) < 2:
                continue
            vals = {}
            for g, ps in groups.items():
                v = self._merge(l, join, frozenset(ps), depth + 1, subst, busy, rec + 1)
                if v is None:
                    return None
                vals[g] = v
            if len(set(repr(v) for v in vals.values())) == 1:
                return next(iter(vals.values()))
            saved = getattr(self, "_pos", None)
            self._pos = (D, "t")
            cond = self.operand(t[1], depth + 1, subst)
            self._pos = saved

            def arm_val(tgt):
                if ("arm", tgt) in vals:
                    return vals[("arm", tgt)]
                if tgt == join and ("direct", join) in vals:
                    return vals[("direct", join)]
                return None
            other = arm_val(t[3])
            if other is None:
                return None
            # bool switch [0: f, otherwise: t]
            if len(t[2]) == 1 and t[2][0][0] == 0 and t[4] == "bool":
                f0 = arm_val(t[2][0][1])
                if f0 is None:
                    return None
                return ("select", cond, other, f0)
            e = other
            for v, tgt in reversed(t[2]):
                av = arm_val(tgt)
                if av is None:
                    return None
                e = ("select", ("bin", "Eq", cond, ("const", v)), av, e)
            return e
        return None


    def clobber_blocks(self, field, self_local=1):
        """blocks whose call terminator may change `(*self).field` behind the analysis' back: the call receives `self` itself or a
        `&mut` reborrow of the whole of `*self`, and either is not an in-crate function, or (transitively) stores a field of that
        name, or hands back a `&mut` (a later store through the returned reference is not a visible store to the field)."""
        fn = self.fn
        prog = self.prog
        key = ("clob", fn.id, field, self_local)
        cache = prog.__dict__.setdefault("_clobber_cache", {})
        if key in cache:
            return cache[key]
        out = set()
        for b in fn.blocks:
            if b.cleanup or b.term[0] != "call":
                continue
            site = b.term[1]
            hit = False
            for a in site["args"]:
                pp = op_place(a)
                if pp is None:
                    continue
                l = pp if isinstance(pp, int) else pp[0]
                if l == self_local and isinstance(pp, int) and (fn.local_ty(self_local) or "").startswith("&mut"):
                    hit = True
                    break
                if not (fn.local_ty(l) or "").startswith("&mut"):
                    continue
                d = fn.single_def(l)
                if d and d[1] != "t" and d[2] == "assign":
                    rv = fn.blocks[d[0]].stmts[d[1]][2]
                    if rv[0] == "ref" and rv[1] == "mut" and not isinstance(rv[2], int) and rv[2][0] == self_local and [e[0] for e in rv[2][1]] == ["*"]:
                        hit = True
                        break
            if not hit:
                continue
            cal = site.get("callee")
            dty = ir.pl_ty(fn, site["dest"]) or ""
            if cal in prog.fns and not dty.startswith("&mut"):
                wk = ("writes", cal, field)
                if wk not in cache:
                    fns_ = [prog.fns[i] for i in prog.reach([cal]) if i in prog.fns and not prog.fns[i].promoted]
                    cache[wk] = any(True for _ in field_stores(prog, field=field, fns=fns_)) or any(True for _ in mut_borrows_named(prog, field, fns_))
                if not cache[wk]:
                    continue
            out.add(b.idx)
        cache[key] = out
        return out

    def field_exit_value(self, field, self_local=1):
        """value of `(*self).field` when the function returns, as a select-tree over the branch decisions of every acyclic
        path (leaves: the expression last stored on the path, or the entry value of the field).  None when a path reads the
        field after storing it (the flow-insensitive field read would be wrong) or the paths are too many."""
        fn = self.fn

        def is_field_place(p):
            return (not isinstance(p, int)) and p[0] == self_local and len(p[1]) == 2 and p[1][0][0] == "*" and p[1][1][0] == "." and p[1][1][2] == field

        stores = {}   # block -> list of (idx, rvalue)
        reads = {}    # block -> list of idx where the field is read
        for b in fn.blocks:
            if b.cleanup:
                continue
            for i, st in enumerate(b.stmts):
                if st[0] != "=":
                    continue
                if is_field_place(st[1]):
                    stores.setdefault(b.idx, []).append((i, st[2]))
                for o in ir.rvalue_operands(st[2]):
                    pp = op_place(o)
                    if pp is not None and is_field_place(pp):
                        reads.setdefault(b.idx, []).append(i)
                if st[2][0] in ("ref",) and is_field_place(st[2][2]) and st[2][1] == "mut":
                    return None
        exits = [b.idx for b in fn.blocks if b.term[0] == "return" and not b.cleanup]
        clob = self.clobber_blocks(field, self_local)
        paths = []
        count = [0]

        def dfs(b, seen, decisions, last, stored):
            if count[0] > 600:
                return False
            # reads after a store on this path?
            if stored:
                for i in reads.get(b, []):
                    return False
            for (i, rv) in stores.get(b, []):
                # a read in the same statement (x += y) reads the entry value only if nothing was stored before
                last = (b, i, rv)
                stored = True
            if b in clob:
                last = (b, "clob", None)     # a callee holding `&mut self` may have changed the field: value unknown from here
                stored = True
            t = fn.blocks[b].term
            if t[0] == "return":
                count[0] += 1
                paths.append((tuple(decisions), last))
                return True
            for sx in fn.succs(b):
                if sx in seen or fn.blocks[sx].cleanup:
                    continue
                dec = decisions
                if t[0] == "switch":
                    vals = [v for v, tgt in t[2] if tgt == sx]
                    key = ("other",) if (sx == t[3] and not vals) else (("eq", vals[0]) if len(vals) == 1 else ("in", tuple(vals)))
                    dec = decisions + [(b, key)]
                if not dfs(sx, seen | {sx}, dec, last, stored):
                    return False
            return True
        if not dfs(0, {0}, [], None, False):
            return None
        if not paths:
            return None
        entry = ("field", ("param", self_local, fn.local_name(self_local) or "self"), field)

        def leaf(last):
            if last is None:
                return entry
            b, i, rv = last
            if rv is None:
                return ("unknown",)
            saved = getattr(self, "_pos", None)
            self._pos = (b, i)
            try:
                return self._norm(self.rvalue(rv))
            finally:
                self._pos = saved

        def build(ps, k):
            lasts = set((p[1][0], p[1][1]) if p[1] else None for p in ps)
            if len(lasts) == 1:
                return leaf(ps[0][1])
            if any(len(p[0]) <= k for p in ps):
                return None
            blk = ps[0][0][k][0]
            if any(p[0][k][0] != blk for p in ps):
                return None
            t = fn.blocks[blk].term
            groups = {}
            for p in ps:
                groups.setdefault(p[0][k][1], []).append(p)
            saved = getattr(self, "_pos", None)
            self._pos = (blk, "t")
            cond = self.operand(t[1])
            self._pos = saved
            sub = {}
            for key, g in groups.items():
                v = build(g, k + 1)
                if v is None:
                    return None
                sub[key] = v
            if len(set(repr(v) for v in sub.values())) == 1:
                return next(iter(sub.values()))
            if t[4] == "bool" and len(t[2]) == 1 and t[2][0][0] == 0:
                vt, vf = sub.get(("other",)), sub.get(("eq", 0))
                if vt is None or vf is None:
                    return None
                return ("select", cond, vt, vf)
            e = sub.get(("other",))
            keys = [k2 for k2 in sub if k2[0] == "eq"]
            if e is None:
                if not keys:
                    return None
                e = sub[keys[-1]]
                keys = keys[:-1]
            for k2 in reversed(keys):
                e = ("select", ("bin", "Eq", cond, ("const", k2[1])), sub[k2], e)
            return e
        return build(paths, 0)

    def field_exit_value_seq(self, field, self_local=1, cap=400):
        """like field_exit_value, but reads of the field see the stores made earlier on the same path (x -= a; x += b).
        Select-tree over the branch decisions of every acyclic path; leaves are expressions over the entry value."""
        fn = self.fn
        t = Sym(self.prog, fn, ifconv=self.ifconv)
        t._tag_field = (self_local, field)
        entry = ("field", ("param", self_local, fn.local_name(self_local) or "self"), field)

        def is_field_place(p):
            if isinstance(p, int) or p[0] != self_local:
                return False
            pr = p[1]
            if len(pr) == 2 and pr[0][0] == "*" and pr[1][0] == "." and pr[1][2] == field:
                return True
            return len(pr) == 1 and pr[0][0] == "." and pr[0][2] == field      # a local struct (not behind a reference)
        for b in fn.blocks:
            if b.cleanup:
                continue
            for st in b.stmts:
                if st[0] == "=" and st[2][0] == "ref" and is_field_place(st[2][2]) and st[2][1] == "mut":
                    return None
        paths = []
        clob_seq = self.clobber_blocks(field, self_local)

        def dfs(b, seen, blocks, decisions):
            if len(paths) > cap:
                return False
            tm = fn.blocks[b].term
            if tm[0] == "return":
                paths.append((tuple(blocks), tuple(decisions)))
                return True
            for sx in fn.succs(b):
                if sx in seen or fn.blocks[sx].cleanup:
                    continue
                dec = decisions
                if tm[0] == "switch":
                    vals = [v for v, tgt in tm[2] if tgt == sx]
                    key = ("other",) if (sx == tm[3] and not vals) else (("eq", vals[0]) if len(vals) == 1 else ("in", tuple(vals)))
                    dec = decisions + [(b, key)]
                if not dfs(sx, seen | {sx}, blocks + [sx], dec):
                    return False
            return True
        if not dfs(0, {0}, [0], []) or not paths:
            return None

        def subst_at(e, order, hist):
            """replace position-tagged reads by the value the field has at that position on this path"""
            if not isinstance(e, tuple) or not e:
                return e
            if e[0] == "fieldat" and e[1] == field:
                pb, pi = e[2]
                if pb not in order:
                    return ("unknown",)
                key = (order[pb], 10 ** 9 if pi == "t" else pi)
                val = entry
                for hk, hv in hist:
                    if hk < key:
                        val = hv
                return val
            if not isinstance(e[0], str):
                return tuple(subst_at(x, order, hist) for x in e)
            return tuple(subst_at(x, order, hist) if isinstance(x, tuple) else x for x in e)

        finals = []
        for blocks, decisions in paths:
            order = {b: k for k, b in enumerate(blocks)}
            hist = []
            for b in blocks:
                for i, st in enumerate(fn.blocks[b].stmts):
                    if st[0] == "=" and is_field_place(st[1]):
                        e = t.at(b, i).rvalue(st[2])
                        hist.append(((order[b], i), subst_at(e, order, hist)))
                tm = fn.blocks[b].term
                if tm[0] == "call" and is_field_place(tm[1]["dest"]):
                    return None
                if b in clob_seq:
                    hist.append(((order[b], 10 ** 9), ("unknown",)))
            val = hist[-1][1] if hist else entry
            if contains(val, lambda x: x[0] == "unknown"):
                return None
            finals.append((blocks, decisions, val, order, hist))

        def build(ps, k):
            if len(set(repr(p[2]) for p in ps)) == 1:
                return ps[0][2]
            if any(len(p[1]) <= k for p in ps):
                return None
            blk = ps[0][1][k][0]
            if any(p[1][k][0] != blk for p in ps):
                return None
            tm = fn.blocks[blk].term
            groups = {}
            for p in ps:
                groups.setdefault(p[1][k][1], []).append(p)
            cond = subst_at(t.at(blk, "t").operand(tm[1]), ps[0][3], ps[0][4])
            sub = {}
            for key, g in groups.items():
                v = build(g, k + 1)
                if v is None:
                    return None
                sub[key] = v
            if len(set(repr(v) for v in sub.values())) == 1:
                return next(iter(sub.values()))
            if tm[4] == "bool" and len(tm[2]) == 1 and tm[2][0][0] == 0:
                vt, vf = sub.get(("other",)), sub.get(("eq", 0))
                if vt is None or vf is None:
                    return None
                return ("select", cond, vt, vf)
            e = sub.get(("other",))
            keys = [k2 for k2 in sub if k2[0] == "eq"]
            if e is None:
                if not keys:
                    return None
                e = sub[keys[-1]]
                keys = keys[:-1]
            for k2 in reversed(keys):
                e = ("select", ("bin", "Eq", cond, ("const", k2[1])), sub[k2], e)
            return e
        return build(finals, 0)

    def straightline_effects(self, self_local=1):
        """for a function with a single normal path: the final value of every field of `*self` it stores, in terms of the
        entry values of the fields and the parameters (sequential reads see earlier stores).  None if the path branches."""
        fn = self.fn
        order = []
        cur = 0
        seen = set()
        while True:
            if cur in seen:
                return None
            seen.add(cur)
            order.append(cur)
            t = fn.blocks[cur].term
            if t[0] == "return":
                break
            nxt = [x for x in fn.succs(cur) if not fn.blocks[x].cleanup]
            if len(nxt) != 1:
                return None
            cur = nxt[0]
        state = {}

        def subst(e):
            if not isinstance(e, tuple):
                return e
            if e[0] == "field" and e[1][0] == "param" and e[1][1] == self_local and e[2] in state:
                return state[e[2]]
            return tuple(subst(x) if isinstance(x, tuple) and x and isinstance(x[0], str) else
                         (tuple(subst(y) for y in x) if isinstance(x, tuple) else x) for x in e)
        saved_if = self.ifconv
        for b in order:
            for i, st in enumerate(fn.blocks[b].stmts):
                if st[0] != "=":
                    continue
                p = st[1]
                if (not isinstance(p, int)) and p[0] == self_local and len(p[1]) == 2 and p[1][0][0] == "*" and p[1][1][0] == ".":
                    self._pos = (b, i)
                    self._memo = {}
                    e = self._norm(self.rvalue(st[2]))
                    state[p[1][1][2]] = subst(e)
        self._pos = None
        return state

    def _dom_chain(self, b):
        fn = self.fn
        idom = fn.dominators()
        out = [b]
        guard = 0
        while b in idom and idom[b] != b and guard < 500:
            b = idom[b]
            out.append(b)
            guard += 1
        return out

    def rvalue(self, rv, depth=0, subst=None):
        k = rv[0]
        if k == "use":
            return self.operand(rv[1], depth, subst)
        if k == "bin":
            op = rv[1].replace("WithOverflow", "").replace("Unchecked", "")
            return ("bin", op, self.operand(rv[2], depth, subst), self.operand(rv[3], depth, subst))
        if k == "un":
            return ("un", rv[1], self.operand(rv[2], depth, subst))
        if k == "cast":
            inner = self.operand(rv[2], depth, subst)
            if rv[1] == "IntToInt" and is_widening(rv[3], rv[4]):
                return inner
            if rv[1].startswith("Coerce") or rv[1] in ("PtrToPtr", "Transmute"):
                return inner
            return ("cast", inner, rv[4])
        if k == "ref" or k == "rawptr":
            return self.place(rv[2], depth, subst)
        if k == "agg":
            kk = rv[1]
            name = kk[0] if kk[0] != "adt" else "%s::%s" % (kk[1], kk[2])
            if kk[0] == "closure":
                name = "closure:" + kk[1]
            return ("agg", name, tuple(self.operand(o, depth, subst) for o in rv[2]))
        if k == "discr":
            return ("discr", self.place(rv[1], depth, subst))
        if k == "repeat":
            return ("repeat", self.operand(rv[1], depth, subst), rv[2])
        return ("unknown",)

    def call_expr(self, site, depth=0, subst=None):
        callee = site.get("callee") or "indirect"
        args = [self.operand(a, depth, subst) for a in site["args"]]
        if "SketchSlice::<'_>::read_" in callee:
            # impure: every read site is a distinct value
            pos = getattr(self, "_pos", None)
            tag = "%s#%s" % (self.fn.id.rsplit("::", 1)[-1], pos[0] if pos else "?")
            return ("call", "%s@%s" % (callee.rsplit("::", 1)[-1], tag), ())
        if callee in TRANSPARENT_CALLS or callee.endswith("::clone") or (callee.endswith("::from") and len(args) == 1 and callee.startswith(("std::convert::", "<"))):
            if args:
                a = args[0]
                if a[0] == "variant":
                    a = a[1]
                return a
        name = callee.rsplit("::", 1)[-1]
        if name == "len" and len(args) == 1 and callee.startswith(("std::vec::Vec", "core::slice::", "std::string::String")):
            return ("len", args[0])
        if name in ("min", "max") and len(args) == 2 and callee.startswith(("std::cmp::", "core::cmp::", "core::f64", "std::f64")):
            a, b = sorted(args, key=repr)
            return ("call", name, (a, b))
        # inline simple local callees (accessors / one-expression helpers)
        cf = self.prog.fns.get(callee)
        if cf is not None and depth < 20 and self.inline_depth > 0:
            r = inline_simple(self.prog, cf, args, self.inline_depth - 1)
            if r is not None:
                return r
        return ("call", short(callee), tuple(args))

    def _norm(self, e):
        if not isinstance(e, tuple):
            return e
        if e[0] == "bin" and e[1] in COMMUTATIVE:
            a, b = e[2], e[3]
            if repr(a) > repr(b):
                a, b = b, a
            return ("bin", e[1], a, b)
        if e[0] == "variant":
            # payload extraction of a transparent carrier
            return e
        if e[0] == "field" and isinstance(e[1], tuple) and e[1][0] == "variant":
            # (x as Continue).0 -> x ; (x as Some).0 -> x
            if e[2] == "0":
                return e[1][1]
        return e

    # ---------------------------------------------------------------- guards
    def edge_dominates(self, d, s, b):
        """does taking edge d->s dominate block b?"""
        fn = self.fn
        if not fn.dominates(s, b):
            return False
        for p in fn.preds(s):
            if p == d:
                continue
            if not fn.dominates(s, p):
                return False
        # d must have s as a successor on exactly the edges considered
        return True

    def guards_at(self, b):
        """list of (cond_expr, truth_or_value, switch_block) for branch edges dominating block b"""
        fn = self.fn
        out = []
        idom = fn.dominators()
        cur = b
        seen = 0
        chain = []
        while cur in idom and seen < 400:
            chain.append(cur)
            if idom[cur] == cur:
                break
            cur = idom[cur]
            seen += 1
        for d in chain:
            t = fn.blocks[d].term
            if t[0] != "switch":
                continue
            arms, otherwise, dty = t[2], t[3], t[4]
            cond = self.operand(t[1])
            targets = {}
            for v, tgt in arms:
                targets.setdefault(tgt, []).append(v)
            for tgt, vals in targets.items():
                if tgt == otherwise:
                    continue
                if self.edge_dominates(d, tgt, b) and len(vals) == 1:
                    out.append((cond, ("eq", vals[0]), d))
            if self.edge_dominates(d, otherwise, b) and otherwise not in targets:
                out.append((cond, ("ne", tuple(v for v, _ in arms)), d))
        return out

    def path_conditions(self, b, cap=3000, with_blocks=False):
        """every acyclic path from the entry to block b as a list of (cond_expr, ('eq', v) | ('ne', vals)) decisions;
        None when there are more than `cap` paths"""
        fn = self.fn
        # blocks from which b is reachable
        can = set()
        st = [b]
        while st:
            x = st.pop()
            if x in can:
                continue
            can.add(x)
            st.extend(p for p in fn.preds(x) if not fn.blocks[p].cleanup)
        paths = []
        cond_cache = {}
        # blocks that can reach a normal return: a branch whose other arms only panic is an assumption, not a decision
        live = set()
        stx = [x.idx for x in fn.blocks if x.term[0] == "return" and not x.cleanup]
        while stx:
            x = stx.pop()
            if x in live:
                continue
            live.add(x)
            stx.extend(p for p in fn.preds(x) if not fn.blocks[p].cleanup)

        def cond_of(blk):
            if blk not in cond_cache:
                saved = getattr(self, "_pos", None)
                self._pos = (blk, "t")
                cond_cache[blk] = self.operand(fn.blocks[blk].term[1])
                self._pos = saved
            return cond_cache[blk]

        def dfs(x, seen, decs):
            if len(paths) > cap:
                return False
            if x == b:
                paths.append(tuple(decs))
                return True
            t = fn.blocks[x].term
            for sx in fn.succs(x):
                if sx in seen or sx not in can:
                    continue
                d = decs
                if t[0] == "switch" and sum(1 for y in fn.succs(x) if y in live) > 1:
                    vals = [v for v, tgt in t[2] if tgt == sx]
                    cnd = None
                    if sx == t[3]:
                        # the default edge (also the target of some listed values): taken unless another listed value matches
                        tv = ("ne", tuple(v for v, tgt in t[2] if tgt != sx))
                    elif len(vals) == 1:
                        tv = ("eq", vals[0])
                    elif vals:
                        # several listed values share this target (`2 | 3 => ..`): the edge is taken iff the scrutinee is one of them
                        cnd = cond_of(x)
                        acc = None
                        for v_ in vals:
                            t_ = ("bin", "Eq", cnd, ("const", v_))
                            acc = t_ if acc is None else ("bin", "BitOr", acc, t_)
                        cnd = acc
                        tv = ("ne", (0,))
                    else:
                        tv = None
                    if tv is not None:
                        cnd = cnd if cnd is not None else cond_of(x)
                        d = decs + [(cnd, tv, x) if with_blocks else (cnd, tv)]
                if not dfs(sx, seen | {sx}, d):
                    return False
            return True
        if not dfs(0, {0}, []):
            return None
        return paths

    def cmp_facts_at(self, b):
        """normalised comparison facts holding at block b: list of (op, lhs_expr, rhs_expr) with op in Lt Le Gt Ge Eq Ne,
        plus ('true', expr) / ('false', expr) for opaque boolean conditions"""
        facts = []
        for cond, tv, _d in self.guards_at(b):
            truth = None
            if tv[0] == "eq":
                truth = bool(tv[1]) if tv[1] in (0, 1) else None
                val = tv[1]
            else:
                # "ne" to all listed arm values: for a bool switch `[0: x, otherwise: y]` this is true
                if tv[1] == (0,):
                    truth = True
                elif tv[1] == (1,):
                    truth = False
                val = None
            facts.extend(self._facts_of(cond, truth, tv))
        return facts

    def _facts_of(self, cond, truth, tv):
        NEG = {"Lt": "Ge", "Le": "Gt", "Gt": "Le", "Ge": "Lt", "Eq": "Ne", "Ne": "Eq"}
        if cond[0] == "un" and cond[1] == "Not" and truth is not None:
            return self._facts_of(cond[2], not truth, tv)
        if cond[0] == "bin" and cond[1] in NEG and truth is not None:
            op = cond[1] if truth else NEG[cond[1]]
            return [(op, cond[2], cond[3])]
        if truth is not None:
            return [("true" if truth else "false", cond)]
        if tv[0] == "eq":
            return [("Eq", cond, ("const", tv[1]))]
        return [("NotIn", cond, ("const", tv[1]))]

    # ---------------------------------------------------------------- paths
    def reaches_exit_avoiding(self, start, avoid):
        """can a normal `return` be reached from block `start` without entering any block in `avoid`?"""
        fn = self.fn
        if start in avoid:
            return False
        seen = {start}
        st = [start]
        while st:
            x = st.pop()
            if fn.blocks[x].term[0] == "return":
                return True
            for s in fn.succs(x):
                if s not in seen and s not in avoid:
                    seen.add(s)
                    st.append(s)
        return False

    def blocks_calling(self, pred):
        out = []
        for b, site in self.fn.calls():
            if pred(site):
                out.append(b)
        return out

    def loops(self):
        """natural loops: list of (header, set(blocks))"""
        fn = self.fn
        out = {}
        for b in fn.reachable_blocks():
            for s in fn.succs(b):
                if fn.dominates(s, b):
                    body = out.setdefault(s, {s})
                    st = [b]
                    while st:
                        x = st.pop()
                        if x in body:
                            continue
                        body.add(x)
                        st.extend(fn.preds(x))
        return list(out.items())


def short(callee):
    return callee


def inline_simple(prog, cf, args, depth):
    """If the local function is a straight line (single path, no branches) return its result expression with
    parameters substituted by `args`; otherwise None."""
    blocks = [b for b in cf.blocks if not b.cleanup]
    cur = 0
    visited = 0
    while True:
        visited += 1
        if visited > 12:
            return None
        t = cf.blocks[cur].term
        if t[0] == "return":
            break
        if t[0] == "goto":
            cur = t[1]
        elif t[0] == "call" and t[1]["target"] is not None:
            cur = t[1]["target"]
        elif t[0] == "assert":
            cur = t[5]
        elif t[0] == "drop":
            cur = t[2]
        else:
            return None
    if len(args) != cf.argc:
        return None
    s = Sym(prog, cf, inline_depth=depth)
    subst = {i + 1: a for i, a in enumerate(args)}
    s._pos = (cur, "t")
    e = s.local(0, 0, subst)
    if contains(e, lambda x: x[0] in ("var", "unknown")):
        return None
    return e


def contains(e, pred):
    if not isinstance(e, tuple):
        return False
    if pred(e):
        return True
    for x in e[1:]:
        if isinstance(x, tuple):
            if x and isinstance(x[0], str):
                if contains(x, pred):
                    return True
            else:
                for y in x:
                    if isinstance(y, tuple) and contains(y, pred):
                        return True
    return False


def walk(e):
    if not isinstance(e, tuple):
        return
    yield e
    for x in e[1:]:
        if isinstance(x, tuple):
            if x and isinstance(x[0], str):
                for y in walk(x):
                    yield y
            else:
                for z in x:
                    if isinstance(z, tuple):
                        for y in walk(z):
                            yield y


def show(e, depth=0):
    if not isinstance(e, tuple):
        return str(e)
    if depth > 8:
        return "…"
    k = e[0]
    if k == "const":
        return str(e[1])
    if k == "param":
        return e[2] or "arg%d" % e[1]
    if k == "var":
        return e[2] or "_%d" % e[1]
    if k == "field":
        return "%s.%s" % (show(e[1], depth + 1), e[2])
    if k == "bin":
        sym = {"Add": "+", "Sub": "-", "Mul": "*", "Div": "/", "Rem": "%", "BitAnd": "&", "BitOr": "|", "BitXor": "^", "Shl": "<<",
               "Shr": ">>", "Lt": "<", "Le": "<=", "Gt": ">", "Ge": ">=", "Eq": "==", "Ne": "!="}.get(e[1], e[1])
        return "(%s %s %s)" % (show(e[2], depth + 1), sym, show(e[3], depth + 1))
    if k == "un":
        return "%s(%s)" % (e[1], show(e[2], depth + 1))
    if k == "cast":
        return "(%s as %s)" % (show(e[1], depth + 1), e[2])
    if k == "call":
        return "%s(%s)" % (e[1].rsplit("::", 1)[-1], ", ".join(show(a, depth + 1) for a in e[2]))
    if k == "len":
        return "len(%s)" % show(e[1], depth + 1)
    if k == "index":
        return "%s[%s]" % (show(e[1], depth + 1), show(e[2], depth + 1))
    if k == "static":
        return e[1].rsplit("::", 1)[-1]
    if k == "agg":
        return "%s{%s}" % (e[1].rsplit("::", 2)[-1] if "::" in e[1] else e[1], ", ".join(show(a, depth + 1) for a in e[2]))
    if k == "discr":
        return "discr(%s)" % show(e[1], depth + 1)
    if k == "variant":
        return "(%s as %s)" % (show(e[1], depth + 1), e[2])
    if k == "fresh":
        return "new:" + e[1]
    if k == "constlist":
        return str(list(e[1]))
    if k == "constdict":
        return "{" + ",".join("%s:%s" % kv for kv in e[1]) + "}"
    if k == "select":
        return "(if %s then %s else %s)" % (show(e[1], depth + 1), show(e[2], depth + 1), show(e[3], depth + 1))
    return k


def field_stores(prog, adt=None, field=None, fns=None):
    """every store to an ADT field: yields (fn, block, kind, place_or_None, value_operand, span)
    kind: 'assign' (place store), 'agg' (aggregate construction), 'call' (call result stored into the field)"""
    for f in (fns if fns is not None else prog.fns.values()):
        if f.promoted:
            continue
        for b in f.blocks:
            if b.cleanup:
                continue
            for s in b.stmts:
                if s[0] != "=":
                    continue
                p, rv = s[1], s[2]
                if not isinstance(p, int):
                    last = p[1][-1]
                    if last[0] == "." and last[3] and (adt is None or last[3] == adt) and (field is None or last[2] == field):
                        yield (f, b.idx, "assign", p, rv, s[3], last[3], last[2])
                if rv[0] == "agg" and rv[1][0] == "adt" and (adt is None or rv[1][1] == adt):
                    names = rv[1][4]
                    for name, o in zip(names, rv[2]):
                        if field is None or name == field:
                            yield (f, b.idx, "agg", None, ["use", o], s[3], rv[1][1], name)
            t = b.term
            if t[0] == "call":
                d = t[1]["dest"]
                if not isinstance(d, int):
                    last = d[1][-1]
                    if last[0] == "." and last[3] and (adt is None or last[3] == adt) and (field is None or last[2] == field):
                        yield (f, b.idx, "call", d, None, t[1]["span"], last[3], last[2])


def mut_borrows_of_field(prog, adt, field, fns=None):
    """`&mut x.field` borrows (a way to write the field without a visible store)"""
    for f in (fns if fns is not None else prog.fns.values()):
        if f.promoted:
            continue
        for b in f.blocks:
            if b.cleanup:
                continue
            for s in b.stmts:
                if s[0] == "=" and s[2][0] == "ref" and s[2][1] == "mut" and not isinstance(s[2][2], int):
                    for e in s[2][2][1]:
                        if e[0] == "." and e[3] == adt and e[2] == field:
                            yield (f, b.idx, s[3])


def mut_borrows_named(prog, field, fns):
    """`&mut x.<field>` borrows in fns, whatever the ADT (a way to write the field without a visible store)"""
    for f in fns:
        for b in f.blocks:
            if b.cleanup:
                continue
            for st in b.stmts:
                if st[0] == "=" and st[2][0] == "ref" and st[2][1] == "mut" and not isinstance(st[2][2], int):
                    for e in st[2][2][1]:
                        if e[0] == "." and e[2] == field:
                            yield (f, b.idx)
