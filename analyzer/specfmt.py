"""Published binary layouts of the DataSketches families (Java/C++), written by hand from the format documentation
(preamble bytes, field order, widths, endianness, flag masks, family ids, serial versions, optional-field conditions).
Independent of the Rust code: this is the oracle of C12 (writer conforms) and C13 (reader accepts every variant).

Each family gives
  writer      (owner ADT, method)          the public serialize entry
  reader      (owner ADT, method)          the public deserialize entry
  leaves      [(regex on the leaf text, abstract variable)]   -- private field names are used as positive evidence only:
                                           an unmatched leaf makes a token value / presence unknown (undecided)
  states()    abstract states the library can be in (writer side)
  layout(st)  expected token list [(kind, value | None)] ; a token kind ending in '*' is a repeated group
  images()    abstract images a conforming Java/C++ writer can emit (reader side), incl. variants this library never writes
"""
import re

MAXT = (1 << 63) - 1
ANY = None


def rep(kind):
    return kind + "*"


# ------------------------------------------------------------------------------------------------ theta (compact)
def theta_states():
    for empty in (True, False):
        for n in (0, 1, 2, 5):
            for est in (False, True):
                for ordered in (True, False):
                    if empty and (n != 0 or est):
                        continue
                    yield {"empty": empty, "n": n, "theta": (12345678901 if est else MAXT), "ordered": ordered, "sh": 0x3af1}


def theta_pre(st):
    if st["theta"] < MAXT:
        return 3
    if st["empty"] or st["n"] == 1:
        return 1
    return 2


def theta_layout(st):
    pre = theta_pre(st)
    flags = 2 | 8 | (4 if st["empty"] else 0) | (16 if st["ordered"] else 0)
    t = [("u8", pre), ("u8", 3), ("u8", 3), ("u16", ANY), ("u8", flags), ("u16le", st["sh"])]
    if pre > 1:
        t += [("u32le", st["n"]), ("u32", ANY)]
    if pre > 2:
        t += [("u64le", st["theta"])]
    if st["n"] > 0:
        t += [(rep("u64le"), ANY)]
    return t


# ------------------------------------------------------------------------------------------------ HLL
def hll_states():
    for mode in (0, 1, 2, 3, 4):        # List, Set, Array4, Array6, Array8  (enum order of hll::mode::Mode)
        for tgt in (0, 1, 2):
            # 7 coupons: the fullest list (the 8th promotes it); 24 coupons in 32 slots: the fullest set (exactly 3/4, one more grows it)
            for n in (0, 3, 7, 24):
                for ooo in (False, True):
                    for aux in (0, 2):
                        if (n == 7 and mode != 0) or (n == 24 and mode != 1):
                            continue
                        if mode >= 2 and tgt != mode - 2:
                            continue
                        if mode < 2 and (ooo or aux):
                            continue
                        if mode != 2 and aux:
                            continue
                        if mode == 1 and n == 0:
                            continue
                        if mode >= 2 and n == 0:
                            continue
                        yield {"mode": mode, "tgt": tgt, "n": n, "ooo": ooo, "aux": aux, "lgk": 11, "lgarr": 5 if mode == 1 else 3, "curmin": 2}


def hll_layout(st):
    m = st["mode"]
    if m == 0:
        flags = 8 | (4 if st["n"] == 0 else 0)
        t = [("u8", 2), ("u8", 1), ("u8", 7), ("u8", st["lgk"]), ("u8", st["lgarr"]), ("u8", flags), ("u8", st["n"]), ("u8", 0 | (st["tgt"] << 2))]
        if st["n"]:
            t += [(rep("u32le"), ANY)]
        return t
    if m == 1:
        t = [("u8", 3), ("u8", 1), ("u8", 7), ("u8", st["lgk"]), ("u8", st["lgarr"]), ("u8", 8), ("u8", ANY), ("u8", 1 | (st["tgt"] << 2)), ("u32le", st["n"])]
        t += [(rep("u32le"), ANY)]
        return t
    typ = m - 2
    # Hll4: the aux pairs follow back to back, which is the compact form and must be flagged as such (a non-compact Hll4 image is
    # read by Java/C++ as carrying the whole aux table of 2^lg_arr ints); Hll6/Hll8 bytes are the same in both forms
    flags = (16 if st["ooo"] else 0) | (8 if typ == 0 else 0)
    t = [("u8", 10), ("u8", 1), ("u8", 7), ("u8", st["lgk"]), ("u8", ANY), ("u8", flags), ("u8", st["curmin"] if typ == 0 else 0), ("u8", 2 | (typ << 2)),
         ("f64le", "hip"), ("f64le", "kxq0"), ("f64le", "kxq1"), ("u32le", "numatcurmin"), ("u32le", st["aux"] if typ == 0 else 0), ("bytes", ANY)]
    if typ == 0 and st["aux"]:
        t += [(rep("u32le"), ANY)]
    return t


# ------------------------------------------------------------------------------------------------ Bloom
def bloom_states():
    yield {"empty": True, "nh": 5, "seed": 9001, "words": 4, "bits": 0}
    # boundary bit counts: one bit, a whole word, an odd count, every bit of the filter set (inverted / saturated filter)
    for bits in (17, 1, 64, 255, 256):
        yield {"empty": False, "nh": 5, "seed": 9001, "words": 4, "bits": bits}


def bloom_layout(st):
    t = [("u8", 3 if st["empty"] else 4), ("u8", 1), ("u8", 21), ("u8", 4 if st["empty"] else 0), ("u16le", st["nh"]), ("u16", ANY), ("u64le", st["seed"]),
         ("i32le", st["words"]), ("u32", ANY)]
    if not st["empty"]:
        t += [("u64le", st["bits"]), (rep("u64le"), ANY)]
    return t


# ------------------------------------------------------------------------------------------------ Count-Min
def cm_states():
    for empty in (True, False):
        yield {"empty": empty, "nb": 64, "nh": 3, "sh": 0x3af1}


def cm_layout(st):
    t = [("u8", 2), ("u8", 1), ("u8", 18), ("u8", 1 if st["empty"] else 0), ("u32", ANY), ("u32le", st["nb"]), ("u8", st["nh"]), ("u16le", st["sh"]), ("u8", ANY)]
    if not st["empty"]:
        t += [("bytes", ANY), (rep("bytes"), ANY)]
    return t


# ------------------------------------------------------------------------------------------------ Frequent items
def fi_states():
    for empty in (True, False):
        yield {"empty": empty, "lgmax": 6, "lgcur": 4, "active": 0 if empty else 3, "weight": 0 if empty else 99, "offset": 0 if empty else 7}


def fi_layout(st):
    if st["empty"]:
        return [("u8", 1), ("u8", 1), ("u8", 10), ("u8", st["lgmax"]), ("u8", st["lgcur"]), ("u8", 5), ("u16", ANY)]
    return [("u8", 4), ("u8", 1), ("u8", 10), ("u8", st["lgmax"]), ("u8", st["lgcur"]), ("u8", 0), ("u16", ANY), ("u32le", st["active"]), ("u32", ANY),
            ("u64le", st["weight"]), ("u64le", st["offset"]), (rep("u64le"), ANY), (rep("opaque"), ANY)]


# ------------------------------------------------------------------------------------------------ t-digest
def td_states():
    for kind in ("empty", "single", "multi"):
        for rev in (False, True):
            yield {"kind": kind, "rev": rev, "k": 200, "w": {"empty": 0, "single": 1, "multi": 50}[kind], "nc": {"empty": 0, "single": 1, "multi": 7}[kind]}


def td_layout(st):
    flags = (1 if st["kind"] == "empty" else 0) | (2 if st["kind"] == "single" else 0) | (4 if st["rev"] else 0)
    t = [("u8", 2 if st["kind"] == "multi" else 1), ("u8", 1), ("u8", 20), ("u16le", st["k"]), ("u8", flags), ("u16", ANY)]
    if st["kind"] == "single":
        t += [("f64le", "min")]
    elif st["kind"] == "multi":
        t += [("u32le", st["nc"]), ("u32", ANY), ("f64le", "min"), ("f64le", "max"), (rep("f64le"), ANY), (rep("u64le"), ANY)]
    return t


# ------------------------------------------------------------------------------------------------ CPC
def cpc_states():
    for empty in (True, False):
        for hip in (True, False):
            for table in (True, False):
                for window in (True, False):
                    if empty and (table or window):
                        continue
                    if not empty and not table and not window:
                        continue
                    yield {"empty": empty, "has_hip": hip, "table": table, "window": window, "lgk": 11, "fic": 0, "sh": 0x3af1, "c": 0 if empty else 1234}


def cpc_layout(st):
    c = st["c"]
    pre = 2
    if c > 0:
        pre += 1
        if st["has_hip"]:
            pre += 4
        if st["table"]:
            pre += 1
            if st["window"]:
                pre += 1
        if st["window"]:
            pre += 1
    flags = 2 | (4 if st["has_hip"] else 0) | (8 if st["table"] else 0) | (16 if st["window"] else 0)
    t = [("u8", pre), ("u8", 1), ("u8", 16), ("u8", st["lgk"]), ("u8", st["fic"]), ("u8", flags), ("u16le", st["sh"])]
    if c > 0:
        t += [("u32le", c)]
        if st["table"] and st["window"]:
            t += [("u32le", "nsv")]
            if st["has_hip"]:
                t += [("f64le", "kxp"), ("f64le", "hip")]
        if st["table"]:
            t += [("u32le", "tw")]
        if st["window"]:
            t += [("u32le", "ww")]
        if st["has_hip"] and not (st["table"] and st["window"]):
            t += [("f64le", "kxp"), ("f64le", "hip")]
        if st["window"]:
            t += [(rep("u32le"), ANY)]
        if st["table"]:
            t += [(rep("u32le"), ANY)]
    return t


FAMILIES = {
    "theta": {
        "writer": ("theta::sketch::CompactThetaSketch", "serialize"),
        "reader": ("theta::sketch::CompactThetaSketch", "deserialize"),
        "leaves": [(r"^self\.theta$", "theta"), (r"^len\(self\.entries\)$", "n"), (r"^self\.empty$", "empty"), (r"^self\.ordered$", "ordered"), (r"seed_hash$", "sh")],
        "states": theta_states, "layout": theta_layout,
    },
    "hll": {
        "writer": ("hll::sketch::HllSketch", "serialize"),
        "reader": ("hll::sketch::HllSketch", "deserialize"),
        "leaves": [(r"^discr\(self\.mode\)$", "mode"), (r"hll_type\)$", "tgt"), (r"container\.len$", "n"), (r"^self\.lg_config_k$", "lgk"), (r"container\.lg_size$", "lgarr"),
                   (r"estimator\.out_of_order$", "ooo"), (r"\.cur_min$", "curmin"), (r"^len\(.*aux.*\)$", "aux"), (r"hip_accum$", "hip"), (r"kxq0$", "kxq0"), (r"kxq1$", "kxq1"),
                   (r"num_at_cur_min$|num_zeros$", "numatcurmin"), (r"^discr\(self\.mode\.aux_map\)$", "has_aux")],
        "states": hll_states, "layout": hll_layout,
    },
    "bloom": {
        "writer": ("bloom::sketch::BloomFilter", "serialize"),
        "reader": ("bloom::sketch::BloomFilter", "deserialize"),
        "leaves": [(r"^self\.num_bits_set$", "bits"), (r"^self\.num_hashes$", "nh"), (r"^self\.seed$", "seed"), (r"^len\(self\.bit_array\)$", "words")],
        "states": bloom_states, "layout": bloom_layout,
    },
    "countmin": {
        "writer": ("countmin::sketch::CountMinSketch", "serialize"),
        "reader": ("countmin::sketch::CountMinSketch", "deserialize"),
        "leaves": [(r"^is_empty\(self\)$|^eq\(self\.total_weight", "empty"), (r"^self\.num_buckets$", "nb"), (r"^self\.num_hashes$", "nh"), (r"seed_hash$", "sh")],
        "states": cm_states, "layout": cm_layout,
    },
    "frequencies": {
        "writer": ("frequencies::sketch::FrequentItemsSketch", "serialize"),
        "reader": ("frequencies::sketch::FrequentItemsSketch", "deserialize"),
        "leaves": [(r"num_active$", "active"), (r"^self\.lg_max_map_size$", "lgmax"), (r"lg_length$", "lgcur"), (r"^self\.stream_weight$", "weight"), (r"^self\.offset$", "offset")],
        "states": fi_states, "layout": fi_layout,
    },
    "tdigest": {
        "writer": ("tdigest::sketch::TDigestMut", "serialize"),
        "reader": ("tdigest::sketch::TDigestMut", "deserialize"),
        "leaves": [(r"^self\.centroids_weight$", "w"), (r"^len\(self\.buffer\)$", "zero"), (r"^self\.reverse_merge$", "rev"), (r"^self\.k$", "k"), (r"^len\(self\.centroids\)$", "nc"),
                   (r"^self\.min$", "min"), (r"^self\.max$", "max")],
        "states": td_states, "layout": td_layout,
    },
    "cpc": {
        "writer": ("cpc::sketch::CpcSketch", "serialize"),
        "reader": ("cpc::sketch::CpcSketch", "deserialize"),
        "leaves": [(r"^self\.merge_flag$", "merged"), (r"table_data\)$", "table_empty"), (r"window_data\)$", "window_empty"), (r"^self\.num_coupons$", "c"), (r"^self\.lg_k$", "lgk"),
                   (r"first_interesting_column$", "fic"), (r"seed_hash$", "sh"), (r"table_num_entries$", "nsv"), (r"table_data_words$", "tw"), (r"window_data_words$", "ww"),
                   (r"\.kxp$", "kxp"), (r"hip_est_accum$", "hip")],
        "states": cpc_states, "layout": cpc_layout,
    },
}


def state_env(fam, st, leaf_keys):
    """leaf key -> concrete value for this abstract state (derived variables included)"""
    d = dict(st)
    # derived abstract variables
    if fam == "theta":
        pass
    if fam == "hll":
        d["has_aux"] = 1 if st.get("aux") else 0
        d["ooo"] = int(st["ooo"])
    if fam == "countmin":
        d["empty"] = int(st["empty"])
    if fam == "tdigest":
        d["zero"] = 0
        d["rev"] = int(st["rev"])
    if fam == "cpc":
        d["merged"] = int(not st["has_hip"])
        d["table_empty"] = int(not st["table"])
        d["window_empty"] = int(not st["window"])
    if fam == "bloom":
        pass
    env = {}
    pats = FAMILIES[fam]["leaves"]
    for k in leaf_keys:
        for pat, var in pats:
            if re.search(pat, k):
                v = d.get(var)
                if isinstance(v, bool):
                    v = int(v)
                if v is not None and not isinstance(v, str):
                    env[k] = v
                break
    return env


# ================================================================================================ reader-side images (C13)
# every variant a conforming Java/C++ writer can emit, including forms this library never writes itself
def theta_images():
    sh = 0x3af1
    for st in theta_states():
        yield ("v3 " + ",".join("%s=%s" % kv for kv in sorted(st.items()) if kv[0] != "sh"), theta_layout(st), {})
    # single-item flag (0x20) as written by Java's SingleItemSketch
    st = {"empty": False, "n": 1, "theta": MAXT, "ordered": True, "sh": sh}
    lay = theta_layout(st)
    lay[4] = ("u8", 2 | 8 | 16 | 32)
    yield ("v3 single-item flag", lay, {})
    # serial version 1: three preamble longs, no seed hash, no flags
    yield ("v1 estimating", [("u8", 3), ("u8", 1), ("u8", 3), ("u8", ANY), ("u32", ANY), ("u32le", 2), ("u32", ANY), ("u64le", 12345678901), (rep("u64le"), ANY)], {})
    # serial version 2
    yield ("v2 empty", [("u8", 1), ("u8", 2), ("u8", 3), ("u8", ANY), ("u16", ANY), ("u16le", sh)], {})
    yield ("v2 exact", [("u8", 2), ("u8", 2), ("u8", 3), ("u8", ANY), ("u16", ANY), ("u16le", sh), ("u32le", 2), ("u32", ANY), (rep("u64le"), ANY)], {})
    yield ("v2 estimating", [("u8", 3), ("u8", 2), ("u8", 3), ("u8", ANY), ("u16", ANY), ("u16le", sh), ("u32le", 2), ("u32", ANY), ("u64le", 12345678901), (rep("u64le"), ANY)], {})
    # serial version 4 (compressed), exact and estimating; 16 entries = two full blocks, no tail
    for pre in (1, 2):
        t = [("u8", pre), ("u8", 4), ("u8", 3), ("u8", 20), ("u8", 1), ("u8", 2 | 8 | 16), ("u16le", sh)]
        if pre == 2:
            t += [("u64le", 12345678901)]
        t += [(rep("u8"), ANY), (rep("bytes"), ANY)]
        yield ("v4 pre=%d" % pre, t, {"tail_optional": True})


def hll_images():
    for st in hll_states():
        yield ("compact " + ",".join("%s=%s" % kv for kv in sorted(st.items())), hll_layout(st), {})
    # updatable (non-compact) list and set tables, out-of-order and compact flags on arrays
    for tgt in (0, 1, 2):
        yield ("list updatable tgt=%d" % tgt, [("u8", 2), ("u8", 1), ("u8", 7), ("u8", 11), ("u8", 3), ("u8", 0), ("u8", 3), ("u8", 0 | (tgt << 2)), (rep("u32le"), ANY)], {})
        yield ("set updatable tgt=%d" % tgt, [("u8", 3), ("u8", 1), ("u8", 7), ("u8", 11), ("u8", 5), ("u8", 0), ("u8", ANY), ("u8", 1 | (tgt << 2)), ("u32le", 9), (rep("u32le"), ANY)], {})
        for flags in (8, 8 | 16, 16 | 32):
            t = [("u8", 10), ("u8", 1), ("u8", 7), ("u8", 11), ("u8", ANY), ("u8", flags), ("u8", 2 if tgt == 0 else 0), ("u8", 2 | (tgt << 2)),
                 ("f64le", "hip"), ("f64le", "kxq0"), ("f64le", "kxq1"), ("u32le", "numatcurmin"), ("u32le", 2 if tgt == 0 else 0), ("bytes", ANY)]
            if tgt == 0:
                t += [(rep("u32le"), ANY)]
            yield ("array tgt=%d flags=%d" % (tgt, flags), t, {})


def td_images():
    for st in td_states():
        yield ("double " + ",".join("%s=%s" % kv for kv in sorted(st.items())), td_layout(st), {"is_f32": 0})
        # float variant: f32 values, u32 weights
        lay = []
        for k, v in td_layout(st):
            if k.startswith("f64le"):
                k = k.replace("f64le", "f32le")
            elif k.startswith("u64le"):
                k = k.replace("u64le", "u32le")
            lay.append((k, v))
        yield ("float " + ",".join("%s=%s" % kv for kv in sorted(st.items())), lay, {"is_f32": 1})


def same_as_writer(fam):
    def gen():
        for st in FAMILIES[fam]["states"]():
            yield (",".join("%s=%s" % kv for kv in sorted(st.items())), FAMILIES[fam]["layout"](st), {})
    return gen


def bloom_images():
    for name, lay, opt in same_as_writer("bloom")():
        yield (name, lay, opt)
    st = {"empty": False, "nh": 5, "seed": 9001, "words": 4, "bits": 0xFFFFFFFFFFFFFFFF}
    yield ("dirty bit count", bloom_layout(st), {})


IMAGES = {"theta": theta_images, "hll": hll_images, "tdigest": td_images, "bloom": bloom_images, "countmin": same_as_writer("countmin"),
          "frequencies": same_as_writer("frequencies"), "cpc": same_as_writer("cpc")}
