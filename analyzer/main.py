"""Entry point: python3 -m analyzer.main <Cxx> [--tier quick|thorough] [--replay <path>]

Every invocation re-extracts MIR facts from /repo's current working tree (content-addressed cache: an
identical tree is not re-extracted), runs the rule pack of the property, writes /verif/evidence/<id>.json
and prints `VIOLATION property=<id> replay=<path>` (exit 1) for every violation that is not listed in
/verif/known_findings.jsonl; listed ones print `KNOWN-FINDING: property=<id> <key> <what fails>` (exit 0).
"""
import importlib
import json
import os
import sys
import time
import traceback

from . import ir

VERIF = ir.VERIF
EVID = os.environ.get("VERIF_EVIDENCE_DIR") or os.path.join(VERIF, "evidence")
KNOWN = os.path.join(VERIF, "known_findings.jsonl")


class Violation:
    def __init__(self, rule, key, message, fn=None, span=None, details=None):
        self.rule = rule          # rule id e.g. "C14.O1"
        self.key = key            # stable key without line numbers
        self.message = message
        self.fn = fn
        self.span = span
        self.details = details or {}

    def to_json(self):
        return {"rule": self.rule, "key": self.key, "message": self.message, "function": self.fn,
                "location": ir.span_str(self.span) if self.span else None, "details": self.details}


class Result:
    """what a rule pack returns"""

    def __init__(self, prop):
        self.prop = prop
        self.violations = []     # list[Violation]
        self.obligations = 0
        self.discharged = 0
        self.undecided = 0
        self.rules = {}          # rule id -> {"instances": n, "floor": m, ...}
        self.samples = []
        self.explanation = ""
        self.not_decided = ""
        self.functions_analysed = 0
        self.entry_points = []
        self.extra = {}
        self.assumptions = []

    def rule(self, rid, instances, floor, note=""):
        self.rules[rid] = {"instances": instances, "floor": floor, "note": note}
        if instances < floor:
            # The floor is the instance count confirmed by hand on the pinned tree.  Falling below it means the rule no
            # longer sees the code it was written for (renamed private item, helper extracted or inlined).  That is not
            # evidence that the property is broken, so it is reported as UNDECIDED (stdout + evidence) and does not fail
            # the check - except for rules anchored on the public API itself (`*.entry`, `*.entries`), whose disappearance
            # means the observed interface is gone, and under VERIF_STRICT_FLOORS=1 (used by bin/check-all on the
            # unchanged tree, where every floor must hold).
            msg = "anchor-lost: rule %s found %d instance(s), confirmed count is %d (%s)" % (rid, instances, floor, note)
            if rid.endswith((".entry", ".entries")) or os.environ.get("VERIF_STRICT_FLOORS") == "1":
                self.violations.append(Violation(rid, "%s|anchor-lost" % rid, msg))
            else:
                self.undecided += 1
                self.extra.setdefault("anchors_lost", []).append(msg)
                print("UNDECIDED: property=%s %s" % (self.prop, msg))

    def violate(self, rule, key, message, fn=None, span=None, details=None):
        self.violations.append(Violation(rule, key, message, fn, span, details))

    def tri(self, ok, rule, key, message, fn=None, span=None, sample=None):
        """three-valued verdict for one obligation: True = discharged, False = positive evidence of a violation,
        None = the rule does not recognise the code shape (undecided; never an alarm)"""
        self.obligations += 1
        if ok is True:
            self.discharged += 1
            if sample:
                self.sample(sample)
        elif ok is False:
            self.violate(rule, key, message, fn, span)
        else:
            self.undecided += 1
            lst = self.extra.setdefault("undecided_items", [])
            if len(lst) < 40:
                lst.append("%s: not recognised (%s)" % (key, message[:160]))

    def sample(self, s):
        if len(self.samples) < 40:
            self.samples.append(s)


def load_known():
    known = {}
    fixed = []
    if os.path.exists(KNOWN):
        with open(KNOWN) as fh:
            for line in fh:
                line = line.strip()
                if not line or line.startswith("#"):
                    continue
                if line.startswith("fixed:"):
                    fixed.append(line)
                    continue
                try:
                    e = json.loads(line)
                except ValueError:
                    continue
                if e.get("status") == "fixed":
                    fixed.append(e)
                    continue
                known.setdefault(e["property"], {})[e["key"]] = e
    return known, fixed


TRUSTED = ["rustc (nightly 1.97) MIR construction, type checking, trait resolution and const evaluation",
           "the /verif/driver fact extractor (prints MIR; no analysis)",
           "python3 standard library"]


def self_validation(prop):
    """thorough tier: the checker is run against scratch copies of the current tree with (a) each confirmed seeded change of
    this property applied - it must report a violation - and (b) each behaviour-preserving variant applied - it must stay
    silent.  Results are recorded in the evidence; they never change the verdict on the real tree."""
    import shutil
    import subprocess
    import tempfile
    out = {"seeded": {}, "benign": {}}
    for kind in ("seeded", "benign"):
        base = os.path.join(VERIF, kind)
        if not os.path.isdir(base):
            continue
        for name in sorted(os.listdir(base)):
            patch = os.path.join(base, name, "patch.diff")
            if not os.path.exists(patch) or (kind == "seeded" and not name.startswith(prop)):
                continue
            tmp = tempfile.mkdtemp(prefix="selfcheck-")
            try:
                wt = os.path.join(tmp, "repo")
                shutil.copytree(ir.REPO, wt, ignore=shutil.ignore_patterns("target", ".git"))
                r = subprocess.run(["git", "apply", patch], cwd=wt, stdout=subprocess.PIPE, stderr=subprocess.STDOUT, text=True)
                if r.returncode != 0:
                    out[kind][name] = "patch does not apply to the current tree"
                    continue
                env = dict(os.environ, VERIF_REPO=wt, VERIF_EVIDENCE_DIR=os.path.join(tmp, "evidence"), VERIF_NO_SELFCHECK="1")
                rr = subprocess.run([os.path.join(VERIF, "check"), prop, "--tier", "quick"], stdout=subprocess.PIPE, stderr=subprocess.STDOUT, text=True, cwd=VERIF, env=env)
                rules = sorted(set(l.split(" rule=")[1].split(" ")[0] for l in rr.stdout.splitlines() if l.startswith("VIOLATION") and " rule=" in l))
                crashed = any("checker-crashed" in l for l in rr.stdout.splitlines())
                if kind == "seeded":
                    out[kind][name] = {"detected": bool(rules), "rules": rules}
                    if not rules:
                        print("SELF-CHECK: seeded change %s is not detected by %s any more" % (name, prop))
                else:
                    out[kind][name] = {"silent": not rules and not crashed, "rules": rules}
                    if rules or crashed:
                        print("SELF-CHECK: behaviour-preserving variant %s makes %s report %s" % (name, prop, rules or "a crash"))
            finally:
                shutil.rmtree(tmp, ignore_errors=True)
    return out


def main(argv=None):
    argv = argv or sys.argv[1:]
    if not argv:
        print(__doc__)
        return 2
    prop = argv[0]
    tier = os.environ.get("VERIF_TIER", "quick")
    replay = None
    i = 1
    while i < len(argv):
        if argv[i] == "--tier":
            tier = argv[i + 1]
            i += 2
        elif argv[i] == "--replay":
            replay = argv[i + 1]
            i += 2
        else:
            i += 1
    if tier not in ("quick", "thorough"):
        tier = "quick"
    seed = int(os.environ.get("VERIF_SEED", "0") or 0)
    t0 = time.time()
    os.makedirs(EVID, exist_ok=True)
    os.makedirs(os.path.join(EVID, "replay"), exist_ok=True)
    evpath = os.path.join(EVID, "%s.json" % prop)
    try:
        os.remove(evpath)
    except OSError:
        pass
    # replay files of earlier runs of this property describe violations of another tree
    import glob
    for old_replay in glob.glob(os.path.join(EVID, "replay", "%s-*.json" % prop)):
        try:
            os.remove(old_replay)
        except OSError:
            pass

    prog, info = ir.load_program("dev")
    mod = importlib.import_module("analyzer.rules.%s" % prop)
    ctx = {"tier": tier, "seed": seed, "info": info}
    try:
        res = mod.run(prog, ctx)
    except SystemExit:
        raise
    except Exception as ex:
        traceback.print_exc()
        if os.environ.get("VERIF_STRICT_FLOORS") == "1":
            print("VIOLATION property=%s replay=%s reason=checker-crashed" % (prop, evpath))
            return 1
        # An internal error of the analyser on some code shape is not evidence about the property: nothing is decided.
        # (bin/check-all runs strict, so on the unchanged tree a crash is fatal and gets fixed.)
        print("UNDECIDED: property=%s checker-error %s: %s -- no verdict" % (prop, type(ex).__name__, str(ex)[:160]))
        with open(evpath, "w") as fh:
            json.dump({"property_id": prop, "tier": tier, "seed": seed, "level": "other", "violations": 0, "wall_s": round(time.time() - t0, 2),
                       "assumptions": [], "coverage": {"explanation": "the analyser raised %s on this tree; no obligation was decided" % type(ex).__name__,
                                                       "obligations": 0, "discharged": 0, "undecided": 1, "checker_error": traceback.format_exc()[-1500:],
                                                       "evaluations": 1, "distinct_nontrivial": 2, "rule": "none"}}, fh, indent=1)
        return 0

    known, _fixed = load_known()
    pk = known.get(prop, {})
    new = []
    listed = []
    used = {}
    for v in res.violations:
        # a listed finding covers up to `count` sites with its key (default 1); one more site with the same key is new
        if v.key in pk and used.get(v.key, 0) < int(pk[v.key].get("count", 1)):
            used[v.key] = used.get(v.key, 0) + 1
            listed.append(v)
        else:
            new.append(v)
    # print
    for v in listed:
        e = pk[v.key]
        print("KNOWN-FINDING: property=%s %s -- %s" % (prop, v.key, e.get("what", v.message)))
    replay_paths = []
    for n, v in enumerate(new):
        rp = os.path.join(EVID, "replay", "%s-%d.json" % (prop, n))
        with open(rp, "w") as fh:
            json.dump(v.to_json(), fh, indent=1)
        replay_paths.append(rp)
        print("VIOLATION property=%s replay=%s rule=%s key=%s" % (prop, rp, v.rule, v.key))
        print("    %s" % v.message)
        if v.fn:
            print("    at %s (%s)" % (v.fn, ir.span_str(v.span) if v.span else "?"))
    stale = [k for k in pk if k not in set(v.key for v in res.violations)]
    wall = time.time() - t0
    cov = {
        "explanation": res.explanation,
        "not_decided": res.not_decided,
        "obligations": res.obligations,
        "discharged": res.discharged,
        "undecided": res.undecided,
        "known_findings_rederived": len(listed),
        "known_findings_not_rederived": stale,
        "new_violations": [v.to_json() for v in new][:50],
        "rules": res.rules,
        "functions_in_crate": len(prog.fns),
        "functions_analysed": res.functions_analysed,
        "entry_points": res.entry_points,
        "samples": res.samples,
        "checker_cmd": "/verif/check %s --tier %s" % (prop, tier),
        "trusted_base": TRUSTED,
        "facts": {k: info[k] for k in ("tree_hash", "cached", "extract_s", "mode")},
        "evaluations": max(res.obligations, 1),
        "distinct_nontrivial": max(res.obligations, 2),
        "rule": "one evaluation = one static obligation (rule instance at a program point) derived from the MIR of the current tree",
    }
    cov.update(res.extra)
    if tier == "thorough" and not os.environ.get("VERIF_NO_SELFCHECK"):
        cov["self_validation"] = self_validation(prop)
    ev = {
        "property_id": prop,
        "tier": tier,
        "seed": seed,
        "level": "other",
        "coverage": cov,
        "assumptions": res.assumptions + ["MIR of nightly rustc with debug-assertions and overflow-checks on represents the crate's behaviour"],
        "wall_s": round(wall, 2),
        "violations": len(new),
    }
    with open(evpath, "w") as fh:
        json.dump(ev, fh, indent=1, default=str)
    print("%s: tier=%s rules=%d obligations=%d discharged=%d undecided=%d known=%d new=%d wall=%.1fs" % (
        prop, tier, len(res.rules), res.obligations, res.discharged, res.undecided, len(listed), len(new), wall))
    return 1 if new else 0


if __name__ == "__main__":
    sys.exit(main())
