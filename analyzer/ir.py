"""Fact loading and the in-memory program model (functions, CFG, dominators, call graph).

Facts come from the rustc_private driver (/verif/driver) run over /repo's current working tree.
Raw JSON shapes (see driver/src/main.rs):
  place   : int | [local, [proj...], ty]
  proj    : ["*"] | [".", idx, name, owner_adt, ty] | ["[]", local] | ["[c]", off, minlen, from_end]
            | ["[..]", from, to, from_end] | ["as", variant_name, variant_idx]
  operand : ["c", place] | ["m", place] | ["k", const]
  const   : {"ty":..., "v":..., "fn":..., "def":..., "promoted":..., "s":...}
  stmt    : ["=", place, rvalue, span] | ["setdiscr", place, idx, span] | ["intrinsic", str]
  rvalue  : ["use", op] | ["bin", op, a, b] | ["un", op, a] | ["cast", kind, op, from, to] | ["ref", kind, place]
            | ["agg", kind, [ops]] | ["discr", place] | ["repeat", op, n] | ["rawptr", ..]
  term    : ["goto", bb] | ["switch", op, [[v, bb]..], otherwise, ty, span] | ["call", {...}] | ["assert", cond, expected, kind, ops, target, span]
            | ["return", span] | ["drop", place, bb] | ["unreachable"] | ["resume"] | ["terminate"]
"""
import hashlib
import json
import os
import subprocess
import sys
import time

HERE = os.path.dirname(os.path.abspath(__file__))
VERIF = os.path.dirname(HERE)
REPO = os.environ.get("VERIF_REPO", "/repo")


# ----------------------------------------------------------------------------------------------
# extraction with a content-addressed cache (facts are a pure function of sources + driver)
# ----------------------------------------------------------------------------------------------
def _tree_hash(mode):
    h = hashlib.sha256()
    h.update(mode.encode())
    roots = [os.path.join(REPO, "datasketches", "src"), os.path.join(REPO, "datasketches", "Cargo.toml"),
             os.path.join(REPO, "Cargo.toml"), os.path.join(REPO, "Cargo.lock"),
             os.path.join(VERIF, "driver", "src", "main.rs"), os.path.join(VERIF, "driver", "src", "json.rs"),
             os.path.join(VERIF, "bin", "extract-facts")]
    files = []
    for r in roots:
        if os.path.isdir(r):
            for dp, _dn, fn in os.walk(r):
                for f in fn:
                    files.append(os.path.join(dp, f))
        elif os.path.exists(r):
            files.append(r)
    for f in sorted(files):
        h.update(f.encode())
        with open(f, "rb") as fh:
            h.update(hashlib.sha256(fh.read()).digest())
    return h.hexdigest()[:24]


def extract(mode="dev", use_cache=True):
    """Returns (facts dict, info dict). Runs the driver on /repo's working tree unless an identical
    tree (by content hash of every input) was already extracted by this /verif checkout."""
    t0 = time.time()
    key = _tree_hash(mode)
    cache_dir = os.path.join(VERIF, ".cache")
    os.makedirs(cache_dir, exist_ok=True)
    path = os.path.join(cache_dir, "facts-%s-%s.json" % (mode, key))
    cached = use_cache and os.path.exists(path) and os.environ.get("VERIF_NO_CACHE") != "1"
    if not cached:
        tmp = path + ".tmp.%d" % os.getpid()
        r = subprocess.run([os.path.join(VERIF, "bin", "extract-facts"), tmp, mode],
                           stdout=subprocess.PIPE, stderr=subprocess.PIPE, text=True)
        if r.returncode != 0 or not os.path.exists(tmp):
            sys.stderr.write(r.stderr[-4000:])
            raise SystemExit("FATAL: fact extraction failed (the tree does not compile?)")
        os.replace(tmp, path)
        # keep the cache small
        # (never touch another process's in-flight temporary file)
        ents = sorted((os.path.getmtime(os.path.join(cache_dir, f)), f) for f in os.listdir(cache_dir) if f.startswith("facts-") and f.endswith(".json"))
        for _, f in ents[:-6]:
            try:
                os.remove(os.path.join(cache_dir, f))
            except OSError:
                pass
    with open(path) as fh:
        facts = json.load(fh)
    if facts.get("crate") != "datasketches" or not facts.get("functions"):
        raise SystemExit("FATAL: facts file is empty or names the wrong crate")
    return facts, {"facts_file": path, "cached": cached, "tree_hash": key, "extract_s": round(time.time() - t0, 2), "mode": mode}


# ----------------------------------------------------------------------------------------------
# helpers on raw shapes
# ----------------------------------------------------------------------------------------------
def pl_local(p):
    return p if isinstance(p, int) else p[0]


def pl_proj(p):
    return [] if isinstance(p, int) else p[1]


def pl_ty(fn, p):
    return fn.locals[p]["ty"] if isinstance(p, int) else p[2]


def op_place(op):
    return op[1] if op[0] in ("c", "m") else None


def op_const(op):
    return op[1] if op[0] == "k" else None


def span_str(sp):
    if not sp:
        return "?"
    return "%s:%s" % (sp[0], sp[1])


def span_macros(sp):
    return sp[2] if sp and len(sp) > 2 else []


INT_RANGES = {
    "u8": (0, 2**8 - 1), "u16": (0, 2**16 - 1), "u32": (0, 2**32 - 1), "u64": (0, 2**64 - 1), "u128": (0, 2**128 - 1),
    "usize": (0, 2**64 - 1),
    "i8": (-2**7, 2**7 - 1), "i16": (-2**15, 2**15 - 1), "i32": (-2**31, 2**31 - 1), "i64": (-2**63, 2**63 - 1),
    "i128": (-2**127, 2**127 - 1), "isize": (-2**63, 2**63 - 1),
    "bool": (0, 1), "char": (0, 0x10FFFF),
}
INT_BITS = {"u8": 8, "u16": 16, "u32": 32, "u64": 64, "u128": 128, "usize": 64, "i8": 8, "i16": 16, "i32": 32, "i64": 64,
            "i128": 128, "isize": 64}


class Block:
    __slots__ = ("idx", "stmts", "term", "cleanup")

    def __init__(self, idx, raw):
        self.idx = idx
        self.stmts = raw["s"]
        self.term = raw["t"]
        self.cleanup = raw.get("cleanup", False)


class Fn:
    def __init__(self, raw):
        self.raw = raw
        self.id = raw["id"]
        self.kind = raw["kind"]
        self.owner = raw.get("owner")
        self.item_name = raw.get("item_name", "")
        self.trait = raw.get("trait")
        self.is_pub = raw.get("pub", False)
        self.exported = raw.get("exported", False)
        self.reachable = raw.get("reachable", False)
        self.promoted = raw.get("promoted", False)
        self.parent = raw.get("parent")
        self.locals = raw["locals"]
        self.argc = raw["argc"]
        self.span = raw["span"]
        self.generics = raw.get("generics", [])
        self.blocks = [Block(i, b) for i, b in enumerate(raw["blocks"])]
        self._succs = None
        self._preds = None
        self._dom = None
        self._pdom = None
        self._defs = None

    # ---- CFG ----
    def succs(self, b):
        if self._succs is None:
            self._build_cfg()
        return self._succs[b]

    def preds(self, b):
        if self._preds is None:
            self._build_cfg()
        return self._preds[b]

    def _build_cfg(self):
        n = len(self.blocks)
        S = [[] for _ in range(n)]
        P = [[] for _ in range(n)]
        for b in self.blocks:
            t = b.term
            k = t[0]
            out = []
            if k == "goto":
                out = [t[1]]
            elif k == "switch":
                out = [x[1] for x in t[2]] + [t[3]]
            elif k == "call":
                if t[1]["target"] is not None:
                    out = [t[1]["target"]]
            elif k == "assert":
                out = [t[5]]
            elif k == "drop":
                out = [t[2]]
            seen = []
            for o in out:
                if o not in seen:
                    seen.append(o)
            S[b.idx] = seen
            for o in seen:
                P[o].append(b.idx)
        self._succs, self._preds = S, P

    def reachable_blocks(self):
        seen = {0}
        st = [0]
        while st:
            b = st.pop()
            for s in self.succs(b):
                if s not in seen:
                    seen.add(s)
                    st.append(s)
        return seen

    def rpo(self):
        seen = set()
        order = []

        def dfs(b):
            stack = [(b, iter(self.succs(b)))]
            seen.add(b)
            while stack:
                node, it = stack[-1]
                adv = False
                for s in it:
                    if s not in seen:
                        seen.add(s)
                        stack.append((s, iter(self.succs(s))))
                        adv = True
                        break
                if not adv:
                    order.append(node)
                    stack.pop()
        dfs(0)
        order.reverse()
        return order

    def dominators(self):
        """idom map (block -> immediate dominator), Cooper-Harvey-Kennedy."""
        if self._dom is not None:
            return self._dom
        order = self.rpo()
        idx = {b: i for i, b in enumerate(order)}
        idom = {order[0]: order[0]}
        changed = True
        while changed:
            changed = False
            for b in order[1:]:
                ps = [p for p in self.preds(b) if p in idom]
                if not ps:
                    continue
                new = ps[0]
                for p in ps[1:]:
                    a, c = p, new
                    while a != c:
                        while idx[a] > idx[c]:
                            a = idom[a]
                        while idx[c] > idx[a]:
                            c = idom[c]
                    new = a
                if idom.get(b) != new:
                    idom[b] = new
                    changed = True
        self._dom = idom
        return idom

    def dominates(self, a, b):
        idom = self.dominators()
        if b not in idom or a not in idom:
            return False
        while True:
            if a == b:
                return True
            nb = idom[b]
            if nb == b:
                return False
            b = nb

    def is_panic_block(self, b):
        """Block ends in a diverging call (panic, unreachable!, etc.) or `unreachable` terminator."""
        t = self.blocks[b].term
        if t[0] == "call" and t[1]["target"] is None:
            return True
        return False

    def exits(self):
        """normal exits = blocks ending with `return`"""
        return [b.idx for b in self.blocks if b.term[0] == "return"]

    def post_dominators(self, ignore_panic=True):
        """ipdom over the reverse CFG, with a virtual exit joined to all `return` blocks
        (panic exits ignored when ignore_panic)."""
        if self._pdom is not None:
            return self._pdom
        n = len(self.blocks)
        EXIT = n
        rs = {b: list(self.preds(b)) for b in range(n)}  # reverse succs = preds
        rp = {b: list(self.succs(b)) for b in range(n)}  # reverse preds = succs
        rs[EXIT] = self.exits()
        rp[EXIT] = []
        for e in self.exits():
            rp[e] = rp[e] + [EXIT]
        # rpo over reverse graph from EXIT
        seen = {EXIT}
        order = []
        stack = [(EXIT, iter(rs[EXIT]))]
        while stack:
            node, it = stack[-1]
            adv = False
            for s in it:
                if s not in seen:
                    seen.add(s)
                    stack.append((s, iter(rs[s])))
                    adv = True
                    break
            if not adv:
                order.append(node)
                stack.pop()
        order.reverse()
        idx = {b: i for i, b in enumerate(order)}
        ipdom = {EXIT: EXIT}
        changed = True
        while changed:
            changed = False
            for b in order[1:]:
                ps = [p for p in rp[b] if p in ipdom]
                if not ps:
                    continue
                new = ps[0]
                for p in ps[1:]:
                    a, c = p, new
                    while a != c:
                        while idx[a] > idx[c]:
                            a = ipdom[a]
                        while idx[c] > idx[a]:
                            c = ipdom[c]
                    new = a
                if ipdom.get(b) != new:
                    ipdom[b] = new
                    changed = True
        self._pdom = ipdom
        return ipdom

    def post_dominates(self, a, b):
        """a post-dominates b (every normal path from b to a return passes a)."""
        ip = self.post_dominators()
        if b not in ip:
            return False  # b cannot reach a normal exit
        while True:
            if a == b:
                return True
            nb = ip.get(b)
            if nb is None or nb == b:
                return False
            b = nb

    # ---- definitions ----
    def defs(self):
        """local -> list of (block, stmt_index|'t', kind) for whole-local definitions;
        partial definitions (projected stores) are recorded with kind 'partial'."""
        if self._defs is not None:
            return self._defs
        D = {i: [] for i in range(len(self.locals))}
        for a in range(1, self.argc + 1):
            D[a].append((-1, a, "arg"))
        for b in self.blocks:
            if b.cleanup:
                continue
            for i, s in enumerate(b.stmts):
                if s[0] == "=":
                    p = s[1]
                    if isinstance(p, int):
                        D[p].append((b.idx, i, "assign"))
                    elif p[1] and p[1][0][0] == "*":
                        pass  # store through a pointer: not a definition of the pointer local
                    else:
                        D[p[0]].append((b.idx, i, "partial"))
                elif s[0] == "setdiscr":
                    D[pl_local(s[1])].append((b.idx, i, "partial"))
            t = b.term
            if t[0] == "call":
                d = t[1]["dest"]
                if isinstance(d, int):
                    D[d].append((b.idx, "t", "call"))
                elif d[1] and d[1][0][0] == "*":
                    pass
                else:
                    D[d[0]].append((b.idx, "t", "partial"))
        self._defs = D
        return D

    def single_def(self, local):
        d = self.defs().get(local, [])
        full = [x for x in d if x[2] != "partial"]
        if len(full) == 1 and len(d) == 1:
            return full[0]
        return None

    def local_ty(self, l):
        return self.locals[l]["ty"]

    def local_name(self, l):
        return self.locals[l].get("name")

    def calls(self):
        for b in self.blocks:
            if b.cleanup:
                continue
            if b.term[0] == "call":
                yield b.idx, b.term[1]

    def short(self):
        return self.id


class Program:
    def __init__(self, facts):
        self.facts = facts
        self.cfg = facts.get("cfg", {})
        self.fns = {}
        for raw in facts["functions"]:
            self.fns[raw["id"]] = Fn(raw)
        self.statics = {s["id"]: s for s in facts["statics"]}
        self.consts = {s["id"]: s for s in facts["consts"]}
        self.adts = {a["id"]: a for a in facts["adts"]}
        self.impls = facts["impls"]
        self._cg = None
        self._rcg = None
        # trait method -> list of impl method ids
        self.trait_impls = {}
        for im in self.impls:
            tr = im.get("trait")
            if not tr:
                continue
            for name, did, _k in im["items"]:
                self.trait_impls.setdefault((tr, name), []).append(did)

    def fn(self, fid):
        return self.fns.get(fid)

    def find_fns(self, owner=None, name=None, suffix=None):
        out = []
        for f in self.fns.values():
            if f.promoted:
                continue
            if owner is not None and f.owner != owner:
                continue
            if name is not None and f.item_name != name:
                continue
            if suffix is not None and not f.id.endswith(suffix):
                continue
            out.append(f)
        return out

    def callees_of_site(self, fn, site):
        """Resolved local callees for a call site: concrete callee, or for unresolved trait calls all
        in-crate impls of the method; closures passed as arguments are treated as potentially called
        by the callee (added as edges from the caller)."""
        out = []
        c = site.get("callee")
        if c and c in self.fns:
            out.append(c)
        elif site.get("unresolved") and site.get("trait"):
            name = c.rsplit("::", 1)[-1]
            for did in self.trait_impls.get((site["trait"], name), []):
                if did in self.fns:
                    out.append(did)
        return out

    def call_graph(self):
        if self._cg is not None:
            return self._cg
        cg = {fid: set() for fid in self.fns}
        for fid, f in self.fns.items():
            for b in f.blocks:
                if b.cleanup:
                    continue
                for s in b.stmts:
                    if s[0] == "=" and s[2][0] == "agg" and s[2][1][0] == "closure":
                        cid = s[2][1][1]
                        if cid in self.fns:
                            cg[fid].add(cid)
                    # function items used as values (fn pointers / passed to map etc.)
                    if s[0] == "=":
                        for op in _rvalue_operands(s[2]):
                            k = op_const(op)
                            if k and "fn" in k and k["fn"] in self.fns:
                                cg[fid].add(k["fn"])
                if b.term[0] == "call":
                    site = b.term[1]
                    for c in self.callees_of_site(f, site):
                        cg[fid].add(c)
                    for a in site["args"]:
                        k = op_const(a)
                        if k and "fn" in k and k["fn"] in self.fns:
                            cg[fid].add(k["fn"])
                    # closure types in generic args: "{closure@...}" are printed by span; handled via agg above
            # promoteds belong to their parent
        for fid, f in self.fns.items():
            if f.promoted:
                base = fid.rsplit("::promoted[", 1)[0]
                if base in cg:
                    cg[base].add(fid)
        self._cg = cg
        return cg

    def reach(self, entries):
        cg = self.call_graph()
        seen = set()
        st = [e for e in entries if e in self.fns]
        seen.update(st)
        while st:
            f = st.pop()
            for c in cg[f]:
                if c not in seen:
                    seen.add(c)
                    st.append(c)
        return seen

    def callers(self):
        if self._rcg is None:
            r = {fid: set() for fid in self.fns}
            for a, bs in self.call_graph().items():
                for b in bs:
                    r[b].add(a)
            self._rcg = r
        return self._rcg


def _rvalue_operands(rv):
    k = rv[0]
    if k == "use":
        return [rv[1]]
    if k == "bin":
        return [rv[2], rv[3]]
    if k == "un":
        return [rv[2]]
    if k == "cast":
        return [rv[2]]
    if k == "agg":
        return list(rv[2])
    if k == "repeat":
        return [rv[1]]
    return []


rvalue_operands = _rvalue_operands


def load_program(mode="dev"):
    facts, info = extract(mode)
    return Program(facts), info
