"""Pretty printer for facts (debugging aid): python3 -m analyzer.pp <fn-id-substring>"""
import sys
from . import ir


def pplace(p):
    if isinstance(p, int):
        return "_%d" % p
    s = "_%d" % p[0]
    for e in p[1]:
        k = e[0]
        if k == "*":
            s = "(*%s)" % s
        elif k == ".":
            s = "%s.%s" % (s, e[2])
        elif k == "[]":
            s = "%s[_%d]" % (s, e[1])
        elif k == "[c]":
            s = "%s[%s%d]" % (s, "-" if e[3] else "", e[1])
        elif k == "[..]":
            s = "%s[%d..%s%d]" % (s, e[1], "-" if e[3] else "", e[2])
        elif k == "as":
            s = "(%s as %s)" % (s, e[1])
        else:
            s = "%s<%s>" % (s, k)
    return s


def pop(o):
    if o[0] == "c":
        return "copy " + pplace(o[1])
    if o[0] == "m":
        return "move " + pplace(o[1])
    k = o[1]
    if "fn" in k:
        return "fn " + k["fn"]
    if "v" in k:
        v = k["v"]
        sv = repr(v) if not isinstance(v, (dict, list)) else "<agg>"
        return "const %s_%s" % (sv, k["ty"]) + ("{%s}" % k["def"] if "def" in k else "")
    if "def" in k:
        return "const {%s%s}" % (k["def"], "::promoted[%d]" % k["promoted"] if "promoted" in k else "")
    return "const %s" % k.get("s", k.get("ty"))


def prv(rv):
    k = rv[0]
    if k == "use":
        return pop(rv[1])
    if k == "bin":
        return "%s(%s, %s)" % (rv[1], pop(rv[2]), pop(rv[3]))
    if k == "un":
        return "%s(%s)" % (rv[1], pop(rv[2]))
    if k == "cast":
        return "%s as %s [%s]" % (pop(rv[2]), rv[4], rv[1])
    if k == "ref":
        return "&%s %s" % (rv[1], pplace(rv[2]))
    if k == "agg":
        kk = rv[1]
        name = kk[0] if kk[0] != "adt" else "%s::%s" % (kk[1], kk[2])
        if kk[0] == "closure":
            name = "closure " + kk[1]
        return "%s{%s}" % (name, ", ".join(pop(o) for o in rv[2]))
    if k == "discr":
        return "discriminant(%s)" % pplace(rv[1])
    if k == "repeat":
        return "[%s; %s]" % (pop(rv[1]), rv[2])
    return str(rv)


def pfn(f):
    out = []
    out.append("fn %s  [%s]  argc=%d %s" % (f.id, ir.span_str(f.span), f.argc, "pub" if f.is_pub else ""))
    for i, l in enumerate(f.locals):
        out.append("    let %s_%d: %s%s" % ("mut " if l.get("mut") else "", i, l["ty"], "  // " + l["name"] if l.get("name") else ""))
    for b in f.blocks:
        out.append("  bb%d%s:" % (b.idx, " (cleanup)" if b.cleanup else ""))
        for s in b.stmts:
            if s[0] == "=":
                out.append("      %s = %s    // L%s" % (pplace(s[1]), prv(s[2]), s[3][1]))
            else:
                out.append("      %s" % (s,))
        t = b.term
        if t[0] == "call":
            c = t[1]
            callee = c.get("callee") or ("indirect " + pop(c["indirect"]))
            out.append("      %s = %s(%s) -> %s   // L%s %s" % (pplace(c["dest"]), callee, ", ".join(pop(a) for a in c["args"]),
                                                              "bb%s" % c["target"] if c["target"] is not None else "!", c["span"][1],
                                                              "UNRESOLVED" if c.get("unresolved") else ""))
        elif t[0] == "switch":
            out.append("      switch %s [%s, otherwise: bb%d]" % (pop(t[1]), ", ".join("%d: bb%d" % (v, bb) for v, bb in t[2]), t[3]))
        elif t[0] == "assert":
            out.append("      assert(%s == %s, %s(%s)) -> bb%d" % (pop(t[1]), t[2], t[3], ", ".join(pop(o) for o in t[4]), t[5]))
        elif t[0] == "goto":
            out.append("      goto bb%d" % t[1])
        elif t[0] == "drop":
            out.append("      drop(%s) -> bb%d" % (pplace(t[1]), t[2]))
        else:
            out.append("      %s" % t[0])
    return "\n".join(out)


if __name__ == "__main__":
    prog, _ = ir.load_program()
    pat = sys.argv[1]
    for fid, f in prog.fns.items():
        if pat in fid:
            print(pfn(f))
            print()
