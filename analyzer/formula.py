"""FORMULA: evaluation of extracted expression DAGs (sym.py) on concrete leaf values, used to compare a formula found
in the code with the published one *semantically* (over the whole configuration domain or a dense grid), so that
algebraically equivalent rewrites do not disturb the rule.  This evaluates the extracted expression, never the program.
"""
from . import sym

M64 = (1 << 64) - 1
CAST_MASK = {"u8": 0xff, "u16": 0xffff, "u32": 0xffffffff, "u64": M64, "usize": M64, "i8": 0xff, "i16": 0xffff, "i32": 0xffffffff,
             "i64": M64, "isize": M64}


class Uneval(Exception):
    pass


def leaf_key(e):
    """stable textual key of a leaf expression"""
    return sym.show(e)


class _Unevaluated:
    def __init__(self, why):
        self.why = why


class VName(str):
    """variant name that remembers the enum it belongs to (compares and hashes as the bare name)"""
    path = None


def evaluate(e, env, bits=64):
    """env: dict leaf-key -> value (keys starting with '@fn:' map a callee name to a python callable).
    Raises Uneval when a leaf is missing or an operator is not modelled."""
    cache = env.get("@cache")
    if cache is not None:
        h = id(e)
        if h in cache:
            return cache[h][1]
        v = _evaluate(e, env, bits)
        cache[h] = (e, v)   # keep e alive so ids are not reused
        return v
    return _evaluate(e, env, bits)


def _evaluate(e, env, bits=64):
    k = e[0]
    key = None
    if k in ("param", "field", "var", "call", "index", "len", "static", "discr", "variant"):
        key = leaf_key(e)
        if key in env:
            return env[key]
    if k == "index":
        try:
            base = evaluate(e[1], env, bits)
        except Uneval:
            base = None
        if isinstance(base, list):
            i = evaluate(e[2], env, bits)
            if not isinstance(i, int) or i < 0 or i >= len(base):
                raise Uneval("index out of range")
            return base[i]
    if k == "field" and isinstance(e[1], tuple) and e[1] and e[1][0] == "agg" and isinstance(e[1][1], str) and "::" in e[1][1]:
        # a field of a struct built in place: the operand in that field's position (operands are in declaration order)
        prog_ = env.get("@prog")
        sdef = prog_.adts.get(e[1][1].rsplit("::", 1)[0]) if prog_ is not None else None
        if sdef is not None and sdef.get("kind") == "struct" and sdef.get("variants") and len(sdef["variants"][0]["fields"]) == len(e[1][2]):
            names = [fn_ for fn_, _t in sdef["variants"][0]["fields"]]
            if e[2] in names:
                return evaluate(e[1][2][names.index(e[2])], env, bits)
    if k == "field":
        try:
            base = evaluate(e[1], env, bits)
        except Uneval:
            base = None
        if isinstance(base, dict) and e[2] in base:
            if isinstance(base[e[2]], _Unevaluated):
                raise Uneval(base[e[2]].why)
            return base[e[2]]
        if isinstance(base, tuple) and str(e[2]).isdigit() and (not base or base[0] not in ("$variant", "$closure", "$fnref", "$list")) and int(e[2]) < len(base):
            return base[int(e[2])]
    if k == "fnref":
        return ("$fnref", e[1])
    if k == "static":
        prog_ = env.get("@prog")
        if prog_ is not None and e[1] in prog_.statics and isinstance(prog_.statics[e[1]].get("v"), list):
            return prog_.statics[e[1]]["v"]
    if k == "const":
        v = e[1]
        if isinstance(v, bool):
            return int(v)
        if isinstance(v, (int, float)):
            return v
        if isinstance(v, str) and v.lower() in ("inf", "+inf", "-inf", "nan"):
            return float(v)      # float constants the fact extractor prints by name
        raise Uneval("const " + repr(v))
    if k == "bin":
        op = e[1]
        a = evaluate(e[2], env, bits)
        b = evaluate(e[3], env, bits)
        if not isinstance(a, (int, float)) or not isinstance(b, (int, float)):
            raise Uneval("operands of %s are not numbers" % op)
        fl = isinstance(a, float) or isinstance(b, float)
        if op == "Add":
            return a + b
        if op == "Sub":
            return a - b
        if op == "Mul":
            return a * b
        if op == "Div":
            if b == 0:
                if fl and env.get("@ieee"):
                    return float("nan") if (a == 0 or a != a) else (float("inf") if a > 0 else float("-inf"))
                raise Uneval("div0")
            return a / b if fl else a // b
        if op == "Rem":
            if b == 0:
                raise Uneval("rem0")
            return a % b
        if op == "BitAnd":
            return a & b
        if op == "BitOr":
            return a | b
        if op == "BitXor":
            return a ^ b
        if op == "Shl":
            return a << b
        if op == "Shr":
            return a >> b
        if op == "Lt":
            return int(a < b)
        if op == "Le":
            return int(a <= b)
        if op == "Gt":
            return int(a > b)
        if op == "Ge":
            return int(a >= b)
        if op == "Eq":
            return int(a == b)
        if op == "Ne":
            return int(a != b)
        raise Uneval(op)
    if k == "len":
        return seq_len(e[1], env, bits)
    if k == "call" and e[1].rsplit("::", 1)[-1] == "is_empty" and len(e[2]) == 1 and e[1].startswith(("std::", "core::", "alloc::", "<std::", "<alloc::", "<core::")):
        return int(seq_len(e[2][0], env, bits) == 0)
    if k == "select":
        c = evaluate(e[1], env, bits)
        return evaluate(e[2], env, bits) if c else evaluate(e[3], env, bits)
    if k == "un":
        a = evaluate(e[2], env, bits)
        if e[1] == "Not":
            return 1 - a if a in (0, 1) else (~a) & M64
        if e[1] == "Neg":
            return -a
        raise Uneval(e[1])
    if k == "cast":
        a = evaluate(e[1], env, bits)
        to = e[2]
        if to in ("f64", "f32"):
            return float(a)
        if to in CAST_MASK:
            if isinstance(a, float):
                # Rust `as`: float -> integer saturates, NaN -> 0
                if a != a:
                    return 0
                if to.startswith("u"):
                    return 0 if a <= 0 else (CAST_MASK[to] if a >= CAST_MASK[to] else int(a))
                return int(a)
            return a & CAST_MASK[to]
        raise Uneval("cast " + to)
    if k == "constlist":
        return ("$list", e[1])
    if k == "call" and e[1].rsplit("::", 1)[-1] == "contains" and len(e[2]) == 2:
        rng = e[2][0]
        renv = env
        if rng[0] == "param" and rng[2] in (env.get("@subst") or {}):
            rng, renv = env["@subst"][rng[2]]
        x = evaluate(e[2][1], env, bits)
        env_saved = env
        env = renv
        if rng[0] == "call" and rng[1].endswith("RangeInclusive::<Idx>::new"):
            return int(evaluate(rng[2][0], env, bits) <= x <= evaluate(rng[2][1], env, bits))
        if rng[0] == "agg" and rng[1].endswith("Range") and len(rng[2]) == 2:
            return int(evaluate(rng[2][0], env, bits) <= x < evaluate(rng[2][1], env, bits))
        if rng[0] == "agg" and "RangeInclusive" in rng[1] and len(rng[2]) >= 2:
            return int(evaluate(rng[2][0], env, bits) <= x <= evaluate(rng[2][1], env, bits))
        if rng[0] == "agg" and rng[1] == "array":
            return int(x in [evaluate(a, env, bits) for a in rng[2]])
        r = evaluate(rng, env, bits)
        if isinstance(r, tuple) and r and r[0] == "$list":
            return int(x in r[1])
        raise Uneval("contains")
    if k == "agg" and e[1] == "tuple":
        return tuple(evaluate(a, env, bits) for a in e[2])
    if k == "agg" and e[1].startswith("closure:"):
        return ("$closure", e[1][len("closure:"):], tuple(evaluate(a, env, bits) for a in e[2]))
    if k == "agg" and "::" in e[1]:
        vn = VName(e[1].rsplit("::", 1)[-1])
        vn.path = e[1].rsplit("::", 1)[0]
        if len(e[2]) == 1:
            try:
                return ("$variant", vn, evaluate(e[2][0], env, bits))
            except Uneval:
                pass
        return ("$variant", vn)
    if k == "discr":
        v = evaluate(e[1], env, bits)
        if isinstance(v, int) and not isinstance(v, bool) and env.get("@enum_as_int"):
            return v
        if isinstance(v, tuple) and v and v[0] == "$variant":
            idx = {"Ok": 0, "Err": 1, "None": 0, "Some": 1, "Continue": 0, "Break": 1}.get(v[1])
            if idx is not None:
                return idx
            prog = env.get("@prog")
            if prog is not None:
                hits = [(a, i) for a in prog.adts.values() if a["kind"] == "enum" for i, vv in enumerate(a["variants"]) if vv["name"] == v[1]]
                if len(hits) > 1 and getattr(v[1], "path", None) in prog.adts:
                    # the variant name alone is ambiguous (Flavor::Empty / FindResult::Empty): the aggregate's own path decides
                    a = prog.adts[v[1].path]
                    hits = [(a, i) for i, vv in enumerate(a["variants"]) if vv["name"] == v[1]] if a["kind"] == "enum" else hits
                if len(hits) == 1:
                    a, i = hits[0]
                    return a["discrs"][i] if a.get("discrs") and i < len(a["discrs"]) else i
        raise Uneval("discr")
    if k == "call":
        name = e[1].rsplit("::", 1)[-1]
        fnk = "@fn:" + name
        if name in ("remainder", "into_remainder") and fnk not in env and e[2] and e[2][0][0] == "call" and e[2][0][1].rsplit("::", 1)[-1] == "chunks_exact":
            # what chunks_exact(n) leaves over: the tail of the slice
            base_ = evaluate(e[2][0][2][0], env, bits)
            n_ = evaluate(e[2][0][2][1], env, bits)
            if isinstance(base_, list) and isinstance(n_, int) and n_ > 0:
                return base_[len(base_) - len(base_) % n_:]
        if fnk in env:
            args_ = []
            for a in e[2]:
                try:
                    args_.append(evaluate(a, env, bits))
                except Uneval:
                    if name not in env.get("@lenient", ()):
                        raise
                    args_.append(None)      # the override ignores arguments it cannot see (e.g. `self`)
            return env[fnk](*args_)
        prog = env.get("@prog")
        if prog is not None and e[1] in prog.fns:
            # branchy in-crate helper: evaluate its if-converted return expression with the parameters bound
            cf = prog.fns[e[1]]
            cache = env.setdefault("@retexpr", {})
            if e[1] not in cache:
                s_ = sym.Sym(prog, cf)
                rets = [b.idx for b in cf.blocks if b.term[0] == "return" and not b.cleanup]
                cache[e[1]] = s_.at(rets[0]).local(0) if rets else ("unknown",)
            cenv = dict(env)
            cenv.pop("@cache", None)
            call_args = list(e[2])
            if "{closure" in e[1] and len(call_args) == 2 and call_args[1][0] == "agg" and call_args[1][1] == "tuple":
                # a direct call of a closure body: (captures, (args...)) -> captures become arg1.N, the tuple is spread
                try:
                    clo = evaluate(call_args[0], env, bits)
                    if isinstance(clo, tuple) and clo and clo[0] == "$closure":
                        for i_, cv in enumerate(clo[2]):
                            cenv["arg1.%d" % i_] = cv
                except Uneval:
                    pass
                call_args = [("const", 0)] + list(call_args[1][2])
            for i, a in enumerate(call_args):
                nm = cf.local_name(i + 1)
                if nm and a[0] == "constdict":
                    for fk, fv in a[1]:
                        cenv["%s.%s" % (nm, fk)] = fv
                    continue
                if nm == "self":
                    # re-root the caller's `<arg>.field` leaves as the callee's `self.field`
                    pref = sym.show(a)
                    if pref != "self":
                        for kk in [x for x in cenv if isinstance(x, str) and (x.startswith("self.") or x == "self")]:
                            del cenv[kk]
                        for kk, vv in env.items():
                            if isinstance(kk, str) and kk.startswith(pref + "."):
                                cenv["self." + kk[len(pref) + 1:]] = vv
                        try:
                            cenv["self"] = evaluate(a, env, bits)
                        except Uneval:
                            pass
                if nm and nm != "self":
                    try:
                        cenv[nm] = evaluate(a, env, bits)
                    except Uneval:
                        sub = dict(cenv.get("@subst") or {})
                        sub[nm] = (a, env)
                        cenv["@subst"] = sub
            return evaluate(cache[e[1]], cenv, bits)
        if name in ("call", "call_mut", "call_once") and len(e[2]) == 2 and env.get("@prog") is not None:
            # invocation of a closure value: evaluate the closure body with its captures and arguments bound
            try:
                clo = evaluate(e[2][0], env, bits)
            except Uneval:
                clo = None
            if isinstance(clo, tuple) and clo and clo[0] == "$closure" and clo[1] in env["@prog"].fns:
                cf = env["@prog"].fns[clo[1]]
                argv = evaluate(e[2][1], env, bits)
                if not isinstance(argv, tuple):
                    argv = (argv,)
                cache = env.setdefault("@retexpr", {})
                if clo[1] not in cache:
                    s_ = sym.Sym(env["@prog"], cf)
                    rets = [b.idx for b in cf.blocks if b.term[0] == "return" and not b.cleanup]
                    cache[clo[1]] = s_.at(rets[0]).local(0) if rets else ("unknown",)
                cenv = dict(env)
                cenv.pop("@cache", None)
                for i_, cv in enumerate(clo[2]):
                    cenv["arg1.%d" % i_] = cv
                for i_, av in enumerate(argv):
                    cenv[cf.local_name(i_ + 2) or "arg%d" % (i_ + 2)] = av
                return evaluate(cache[clo[1]], cenv, bits)
        if name in ("index", "index_mut") and len(e[2]) == 2:
            try:
                base_ = evaluate(e[2][0], env, bits)
            except Uneval:
                base_ = None
            if isinstance(base_, list):
                rng_ = e[2][1]
                if rng_[0] == "agg" and "Range" in rng_[1]:
                    # slicing by a..b / ..b / a.. / ..
                    parts = [evaluate(x, env, bits) for x in rng_[2]]
                    kind_ = rng_[1]
                    if "RangeFull" in kind_:
                        lo_, hi_ = 0, len(base_)
                    elif "RangeFrom" in kind_:
                        lo_, hi_ = parts[0], len(base_)
                    elif "RangeToInclusive" in kind_:
                        lo_, hi_ = 0, parts[0] + 1
                    elif "RangeTo" in kind_:
                        lo_, hi_ = 0, parts[0]
                    elif "RangeInclusive" in kind_:
                        lo_, hi_ = parts[0], parts[1] + 1
                    else:
                        lo_, hi_ = parts[0], parts[1]
                    if not (0 <= lo_ <= hi_ <= len(base_)):
                        raise Uneval("slice out of range")
                    return base_[lo_:hi_]
                i_ = evaluate(rng_, env, bits)
                if isinstance(i_, int) and 0 <= i_ < len(base_):
                    return base_[i_]
                raise Uneval("index out of range")
        args = [evaluate(a, env, bits) for a in e[2]]
        if name == "min":
            return min(args)
        if name == "max":
            return max(args)
        if name == "leading_zeros":
            w = 64
            if "u32" in e[1]:
                w = 32
            elif "u8" in e[1]:
                w = 8
            elif "u16" in e[1]:
                w = 16
            return w - int(args[0]).bit_length()
        if name == "trailing_zeros":
            a = int(args[0])
            if a == 0:
                return 64
            return (a & -a).bit_length() - 1
        if name == "wrapping_mul":
            return (args[0] * args[1]) & M64
        if name == "wrapping_add":
            return (args[0] + args[1]) & M64
        if name == "wrapping_sub":
            return (args[0] - args[1]) & M64
        if name == "rotate_left":
            a, r = args[0] & M64, args[1] % 64
            return ((a << r) | (a >> (64 - r))) & M64
        if name == "div_ceil":
            return -(-args[0] // args[1])
        if name == "sqrt":
            return float(args[0]) ** 0.5
        if name == "ceil":
            import math
            return float(math.ceil(args[0]))
        if name == "floor":
            import math
            return float(math.floor(args[0]))
        if name == "ln":
            import math
            return math.log(args[0])
        if name == "log2":
            import math
            return math.log2(args[0])
        if name == "powf":
            return float(args[0]) ** float(args[1])
        if name == "exp2":
            return 2.0 ** float(args[0])
        if name == "saturating_sub":
            return max(args[0] - args[1], 0)
        if name in ("split_at", "split_at_checked") and len(args) == 2 and isinstance(args[0], list) and isinstance(args[1], int):
            if 0 <= args[1] <= len(args[0]):
                return (args[0][:args[1]], args[0][args[1]:])
            raise Uneval("split_at out of range")
        if name in ("is_finite", "is_nan", "is_infinite") and len(args) == 1 and isinstance(args[0], (int, float)):
            import math
            x_ = float(args[0])
            return int(math.isfinite(x_) if name == "is_finite" else (math.isnan(x_) if name == "is_nan" else math.isinf(x_)))
        if name == "clamp" and len(args) == 3 and all(isinstance(a, (int, float)) and not isinstance(a, bool) for a in args):
            return max(args[1], min(args[0], args[2]))
        if name == "to_bits" and len(args) == 1 and isinstance(args[0], float):
            import struct as _st
            return _st.unpack("<Q", _st.pack("<d", args[0]))[0]
        if name == "from_bits" and len(args) == 1 and isinstance(args[0], int) and not isinstance(args[0], bool) and "f64" in e[1]:
            import struct as _st
            return _st.unpack("<d", _st.pack("<Q", args[0] & 0xFFFFFFFFFFFFFFFF))[0]
        if name in ("eq", "ne") and len(args) == 2 and all(isinstance(a, (int, float)) for a in args):
            return int((args[0] == args[1]) == (name == "eq"))
        if name in ("saturating_add", "saturating_mul") and len(args) == 2 and all(isinstance(a, int) for a in args):
            import re as _re
            m_ = _re.search(r"<impl (u|i)(\d+|size)>", e[1])
            if m_ and m_.group(1) == "u":
                w_ = 64 if m_.group(2) == "size" else int(m_.group(2))
                r_ = args[0] + args[1] if name == "saturating_add" else args[0] * args[1]
                return min(r_, (1 << w_) - 1)
        if name == "next_power_of_two" and len(args) == 1 and isinstance(args[0], int):
            return 1 if args[0] <= 1 else 1 << (args[0] - 1).bit_length()
        if name == "is_power_of_two" and len(args) == 1 and isinstance(args[0], int):
            return int(args[0] > 0 and args[0] & (args[0] - 1) == 0)
        if name == "count_ones" and len(args) == 1 and isinstance(args[0], int):
            return bin(args[0] & M64).count("1")
        if name == "ilog2" and len(args) == 1 and isinstance(args[0], int) and args[0] > 0:
            return args[0].bit_length() - 1
        if name == "abs" and len(args) == 1:
            return abs(args[0])
        if name in ("trunc",) and len(args) == 1:
            return float(int(args[0]))
        if name == "mul_add" and len(args) == 3:
            return args[0] * args[1] + args[2]
        if name == "checked_add" and len(args) == 2 and all(isinstance(a, int) for a in args):
            return ("$variant", "Some", args[0] + args[1]) if args[0] + args[1] <= M64 else ("$variant", "None")
        raise Uneval("call " + name)
    raise Uneval(key or k)


def seq_len(e, env, bits=64):
    """length of a slice-valued expression from the lengths of its roots"""
    key = "len(%s)" % sym.show(e)
    if key in env:
        return env[key]
    k0 = sym.show(e)
    if isinstance(env.get(k0), list):
        return len(env[k0])
    if e[0] == "call" and ("@fn:" + e[1].rsplit("::", 1)[-1]) in env:
        v = evaluate(e, env, bits)
        if isinstance(v, list):
            return len(v)
    if e[0] == "select":
        return seq_len(e[2] if evaluate(e[1], env, bits) else e[3], env, bits)
    if e[0] == "variant":
        return seq_len(e[1], env, bits)
    if e[0] == "agg" and e[1] == "array":
        return len(e[2])
    if e[0] == "call" and not e[2] and e[1].rsplit("::", 1)[-1] in ("new", "default"):
        return 0
    if e[0] == "call":
        nm = e[1].rsplit("::", 1)[-1]
        if nm in ("index", "index_mut") and len(e[2]) == 2 and e[2][1][0] == "agg":
            rng = e[2][1]
            base = seq_len(e[2][0], env, bits)
            kind = rng[1].rsplit("::", 1)[-1]
            if "RangeFrom" in rng[1]:
                return base - evaluate(rng[2][0], env, bits)
            if "RangeTo" in rng[1] and "Inclusive" not in rng[1]:
                return evaluate(rng[2][0], env, bits)
            if "RangeFull" in rng[1]:
                return base
            if rng[1].endswith("Range::Range") or kind == "Range":
                return evaluate(rng[2][1], env, bits) - evaluate(rng[2][0], env, bits)
        if nm in ("remainder", "into_remainder") and e[2] and e[2][0][0] == "call" and e[2][0][1].rsplit("::", 1)[-1] in ("chunks_exact", "chunks_exact_mut"):
            inner = e[2][0]
            return seq_len(inner[2][0], env, bits) % evaluate(inner[2][1], env, bits)
        if nm in ("deref", "deref_mut", "as_slice", "by_ref", "as_ref", "borrow", "into_boxed_slice", "into_vec", "to_vec", "as_mut_slice", "clone"):
            return seq_len(e[2][0], env, bits)
        if nm == "from_elem" and len(e[2]) == 2:
            return evaluate(e[2][1], env, bits)
        if nm == "next" and e[2] and e[2][0][0] == "call" and e[2][0][1].rsplit("::", 1)[-1] in ("chunks_exact", "chunks_exact_mut") and len(e[2][0][2]) == 2:
            # an item of `chunks_exact(n)` has exactly n elements
            return evaluate(e[2][0][2][1], env, bits)
    raise Uneval(key)


def _computed_field(x):
    """a field read off a value that is itself computed here (a struct built in place, a select between two of them): not an
    input of the expression -- it is evaluated structurally"""
    if x[0] != "field":
        return False
    r = x
    while isinstance(r, tuple) and r and r[0] == "field":
        r = r[1]
    return isinstance(r, tuple) and bool(r) and r[0] in ("agg", "select")


def leaves(e):
    out = {}
    for x in sym.walk(e):
        if _computed_field(x):
            continue
        if x[0] in ("param", "field", "var", "index", "len", "static", "discr") or (x[0] == "call" and x[1].rsplit("::", 1)[-1] not in (
                "min", "max", "leading_zeros", "trailing_zeros", "wrapping_mul", "wrapping_add", "wrapping_sub", "rotate_left", "div_ceil",
                "sqrt", "ceil", "floor", "ln", "log2", "powf", "exp2", "saturating_sub")):
            out[leaf_key(x)] = x
    # keep only maximal leaves (a field of a param is a leaf; the param below it is not needed)
    keys = list(out)
    res = {}
    for k in keys:
        res[k] = out[k]
    return res


_PURE = ("eq", "ne", "is_finite", "is_nan", "is_infinite", "min", "max", "leading_zeros", "trailing_zeros", "wrapping_mul", "wrapping_add", "wrapping_sub", "rotate_left", "div_ceil",
         "sqrt", "ceil", "floor", "ln", "log2", "powf", "exp2", "saturating_sub")


def top_leaves(e):
    """maximal leaves only: the traversal does not descend below a leaf"""
    out = {}

    def go(x):
        if not isinstance(x, tuple) or not x:
            return
        if not isinstance(x[0], str):
            for z in x:
                go(z)
            return
        if not _computed_field(x) and (x[0] in ("param", "field", "var", "index", "len", "static", "discr", "fieldat") or (x[0] == "call" and x[1].rsplit("::", 1)[-1] not in _PURE)):
            out[leaf_key(x)] = x
            return
        for y in x[1:]:
            if isinstance(y, tuple):
                go(y)
            elif isinstance(y, list):
                for z in y:
                    go(z)
    go(e)
    return out


def equivalent(e, spec, envs, tol=0.0):
    """compare extracted expression e with python callable spec(env) on every env.
    returns (ok, counterexample | None, n_evaluated, uneval_reason | None)"""
    n = 0
    for env in envs:
        try:
            got = evaluate(e, env)
        except Uneval as u:
            return (None, None, n, str(u))
        want = spec(env)
        n += 1
        if isinstance(got, float) or isinstance(want, float):
            if abs(got - want) > tol * max(1.0, abs(want)):
                return (False, (env, got, want), n, None)
        elif got != want:
            return (False, (env, got, want), n, None)
    if n == 0:
        return (None, None, 0, "no evaluation points")
    return (True, None, n, None)
