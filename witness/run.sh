#!/bin/bash
cd /verif/witness && CARGO_NET_OFFLINE=true cargo build --offline 2>&1 | grep -E "^error" -A 8
for w in "$@"; do
  out=$( ( ulimit -v 3000000; timeout 60 ./target/debug/wit $w 2>&1 ) ); rc=$?
  if [ $rc -ne 0 ]; then echo "$w: ABORT rc=$rc $(echo "$out" | grep -i "memory allocation" | head -1)"; else echo "$out" | grep "^$w:" ; fi
done
