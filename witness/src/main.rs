use datasketches::hll::{HllSketch, HllType, HllUnion};
use datasketches::theta::{CompactThetaSketch, ThetaSketch};
use datasketches::tdigest::TDigestMut;
use datasketches::bloom::BloomFilter;
use datasketches::frequencies::FrequentItemsSketch;
use datasketches::cpc::CpcSketch;
use datasketches::common::NumStdDev;

fn hll_hdr(pre: u8, lgk: u8, lgarr: u8, flags: u8, state: u8, mode: u8) -> Vec<u8> {
    vec![pre, 1, 7, lgk, lgarr, flags, state, mode]
}

fn run(name: &str) -> String {
    match name {
        // ---------------- HLL
        "hll_list_lgarr_5_then_update" => {
            // C14/C18: LIST image announcing a 32-slot table with 32 coupons (lg_k 12): accepted, then promoted into the fixed 32-slot set
            let mut b = hll_hdr(2, 12, 5, 0, 32, 2 << 2);
            for i in 0..32u32 { b.extend_from_slice(&(((i % 60 + 1) << 26) | (i * 97 + 5)).to_le_bytes()); }
            match HllSketch::deserialize(&b) {
                Err(e) => format!("Err({e})"),
                Ok(mut s) => { for i in 0..2000u64 { s.update(i); } format!("Ok, estimate after 2000 updates {:.1}, image {} bytes", s.estimate(), s.serialize().len()) }
            }
        }
        "hll_set_lgarr_over_then_update" => {
            // C18: SET image of an lg_k = 10 sketch with lg_arr = 8 (> lg_k - 3): never promoted, the set doubles with the stream
            let mut s0 = HllSketch::new(10, HllType::Hll8);
            for i in 0..50u64 { s0.update(i); }
            let mut b = s0.serialize();
            let was = b[4];
            b[4] = 8;
            match HllSketch::deserialize(&b) {
                Err(e) => format!("lg_arr {was} -> 8: Err({e})"),
                Ok(mut s) => { for i in 0..20000u64 { s.update(i); } format!("lg_arr {was} -> 8: Ok, image after 20000 updates {} bytes (array mode would be 1064)", s.serialize().len()) }
            }
        }
        "hll_union_result_roundtrip" => {
            // C11: the result of a union (out of order, HIP accumulator carried over from the source) must survive serialize -> deserialize
            let mut out = String::new();
            for ty in [HllType::Hll8, HllType::Hll6, HllType::Hll4] {
                let mut s = HllSketch::new(10, ty);
                for i in 0..5000u64 { s.update(i); }
                let mut u = HllUnion::new(10);
                u.update(&s);
                let r = u.to_sketch(ty);
                let img = r.serialize();
                let d = HllSketch::deserialize(&img).unwrap();
                out += &format!("{:?}: equal={} same_bytes={} hip_bytes_r={:?} hip_bytes_d={:?}; ", ty, r == d, d.serialize() == img, &img[8..16], &d.serialize()[8..16]);
            }
            out
        }
        "hll_list_lgarr_200" => { let b = hll_hdr(2, 10, 200, 0, 1, 2 << 2); format!("{:?}", HllSketch::deserialize(&b).map(|s| s.estimate())) }
        "hll_list_lgarr_40" => { let b = hll_hdr(2, 10, 40, 0, 1, 2 << 2); format!("{:?}", HllSketch::deserialize(&b).map(|s| s.estimate())) }
        "hll_set_full" => {
            // compact set, lg_arr=2 (4 slots), 5 coupons
            let mut b = hll_hdr(3, 10, 2, 8, 0, 1 | (2 << 2));
            b.extend_from_slice(&5u32.to_le_bytes());
            for i in 1..=5u32 { b.extend_from_slice(&((1u32 << 26) | i).to_le_bytes()); }
            format!("{:?}", HllSketch::deserialize(&b).map(|s| s.estimate()))
        }
        "hll_list_compact_then_update" => {
            // F14: compact list image of 5 coupons, then one more update
            let mut s = HllSketch::new(10, HllType::Hll8);
            for i in 0..5 { s.update(i); }
            let b = s.serialize();
            let mut d = HllSketch::deserialize(&b).unwrap();
            d.update(1000);
            s.update(1000);
            format!("orig={} deser={}", s.estimate(), d.estimate())
        }
        "hll_arr_compact_flag" => {
            // F3: array image with the compact flag set must keep its registers
            let mut s = HllSketch::new(8, HllType::Hll8);
            for i in 0..5000 { s.update(i); }
            let mut b = s.serialize();
            b[5] |= 8;
            let d = HllSketch::deserialize(&b).unwrap();
            let mut u = HllUnion::new(8);
            u.update(&d);
            let mut u0 = HllUnion::new(8);
            u0.update(&s);
            format!("orig_union={} flagged_union={}", u0.estimate(), u.estimate())
        }
        "hll8_register_200" => {
            // an Hll8 image whose register byte exceeds 63 (no hash can produce it) is accepted; merging it rebuilds kxq with 1u64 << 200
            let mut s = HllSketch::new(8, HllType::Hll8);
            for i in 0..5000 { s.update(i); }
            let mut b = s.serialize();
            b[40 + 7] = 200;
            let d = HllSketch::deserialize(&b);
            match d {
                Err(e) => format!("rejected: {e}"),
                Ok(d) => {
                    let mut u = HllUnion::new(8);
                    u.update(&s);
                    u.update(&d);
                    let mut d2 = d.clone();
                    d2.update(12345678);
                    let h4 = u.to_sketch(HllType::Hll4);
                    let h6 = u.to_sketch(HllType::Hll6);
                    let h8 = u.to_sketch(HllType::Hll8);
                    let sizes = (h4.serialize().len(), h6.serialize().len(), h8.serialize().len());
                    let mut u2 = HllUnion::new(6);
                    u2.update(&d);
                    u2.update(&h4);
                    format!("accepted; union estimate={} updated estimate={} sizes={:?} est4={} est6={} down={}", u.estimate(), d2.estimate(), sizes, h4.estimate(), h6.estimate(), u2.estimate())
                }
            }
        }
        "hll4_token_without_aux" => {
            // an Hll4 image whose nibble is the aux token although no aux entry covers the slot: accepted, and a later update of
            // that slot with a larger value hits `expect("aux_map should be initialized ...")`
            let mut s = HllSketch::new(4, HllType::Hll4);
            for i in 0..40 { s.update(i); }
            let mut b = s.serialize();
            let auxc = u32::from_le_bytes([b[36], b[37], b[38], b[39]]);
            let cur_min = b[6];
            b[45] |= 0x0f; // slot 10 := AUX_TOKEN
            // an item whose coupon addresses slot 10 with a value above cur_min + 15 (coupon read from a one-item list image)
            let mut item = None;
            for i in 1_000u64..40_000_000 {
                let mut one = HllSketch::new(4, HllType::Hll4);
                one.update(i);
                let ob = one.serialize();
                let c = u32::from_le_bytes([ob[8], ob[9], ob[10], ob[11]]);
                if (c & 15) == 10 && (c >> 26) as u8 > cur_min + 15 { item = Some((i, c)); break; }
            }
            match HllSketch::deserialize(&b) {
                Err(e) => format!("rejected: {e}"),
                Ok(mut d) => {
                    let est = d.estimate();
                    let (i, c) = item.expect("no item found");
                    d.update(i);
                    format!("accepted (aux_count {auxc}, cur_min {cur_min}); item {i} coupon {c:#x}; estimate before {est} after {}", d.estimate())
                }
            }
        }
        "hll4_cur_min_250" => {
            // cur_min is the raw state byte of the image: 250 + nibble overflows u8 when the registers are read back
            let mut s = HllSketch::new(4, HllType::Hll4);
            for i in 0..40 { s.update(i); }
            let mut b = s.serialize();
            b[6] = 255;
            match HllSketch::deserialize(&b) {
                Err(e) => format!("rejected: {e}"),
                Ok(d) => {
                    let e0 = d.estimate();
                    let (lb, ub) = (d.lower_bound(NumStdDev::Two), d.upper_bound(NumStdDev::Two));
                    let mut d2 = d.clone();
                    for i in 0..5000u64 { d2.update(i); }
                    let mut u = HllUnion::new(4);
                    u.update(&d);
                    let mut u5 = HllUnion::new(5);
                    u5.update(&HllSketch::new(5, HllType::Hll8));
                    u5.update(&d);
                    format!("accepted; estimate {e0} [{lb}, {ub}] updated {} union {} {}", d2.estimate(), u.estimate(), u5.estimate())
                }
            }
        }
        "hll4_aux_below_cur_min" => {
            // an aux entry whose value is below cur_min: the next cur_min shift computes value - new_cur_min in u8
            let mut s = HllSketch::new(4, HllType::Hll4);
            for i in 0..4000 { s.update(i); }
            let mut b = s.serialize();
            let cur_min = b[6];
            b[45] |= 0x0f; // slot 10 := AUX_TOKEN
            b[36] = 1; b[37] = 0; b[38] = 0; b[39] = 0; // aux_count = 1
            b.truncate(40 + 8);
            b.extend_from_slice(&(10u32 | (1u32 << 26)).to_le_bytes()); // slot 10, value 1
            match HllSketch::deserialize(&b) {
                Err(e) => format!("rejected: {e}"),
                Ok(mut d) => {
                    for i in 0..3_000_000u64 { d.update(i); }
                    format!("accepted (cur_min {cur_min}); estimate after {}", d.estimate())
                }
            }
        }
        "hll4_updatable_aux_table" => {
            // the same Hll4 state in the two forms Java/C++ emit: compact (aux pairs back to back, COMPACT flag) and updatable
            // (the whole aux table of 2^lg_arr ints with empty cells, lg_arr in byte 4)
            let mut s = HllSketch::new(4, HllType::Hll4);
            for i in 0..40 { s.update(i); }
            let mut base = s.serialize();
            base.truncate(40 + 8);
            base[45] |= 0x0f; // slot 10 := AUX_TOKEN
            base[41] |= 0xf0; // slot 3 := AUX_TOKEN
            base[36] = 2; base[37] = 0; base[38] = 0; base[39] = 0; // aux_count = 2
            let (c1, c2) = (10u32 | (20u32 << 26), 3u32 | (17u32 << 26));
            let mut compact = base.clone();
            compact[5] |= 8;
            compact.extend_from_slice(&c1.to_le_bytes());
            compact.extend_from_slice(&c2.to_le_bytes());
            let mut updatable = base.clone();
            updatable[4] = 2;
            for c in [0u32, c1, 0u32, c2] { updatable.extend_from_slice(&c.to_le_bytes()); }
            let show = |b: &[u8]| match HllSketch::deserialize(b) {
                Err(e) => format!("rejected ({e})"),
                Ok(d) => { let mut u = HllUnion::new(4); u.update(&d); format!("{:?}", &u.to_sketch(HllType::Hll8).serialize()[40..]) }
            };
            format!("compact -> {} | updatable -> {}", show(&compact), show(&updatable))
        }
        "hll_num_zeros_0" => {
            // the zero-register count of an array image is taken from the image as is: with 0 announced while zero registers
            // exist, the next update of such a register decrements it below zero
            let mut out = vec![];
            for ty in [HllType::Hll4, HllType::Hll6, HllType::Hll8] {
                let mut s = HllSketch::new(6, ty);
                for i in 0..40 { s.update(i); }
                let mut b = s.serialize();
                b[32] = 0; b[33] = 0; b[34] = 0; b[35] = 0;
                let r = std::panic::catch_unwind(move || match HllSketch::deserialize(&b) {
                    Err(e) => format!("rejected: {e}"),
                    Ok(mut d) => { for i in 1000..3000u64 { d.update(i); } format!("accepted; estimate {}", d.estimate()) }
                });
                out.push(format!("{ty:?}: {}", match r { Ok(s) => s, Err(e) => format!("PANIC {:?}", e.downcast_ref::<String>().cloned().or(e.downcast_ref::<&str>().map(|x| x.to_string()))) }));
            }
            out.join(" | ")
        }
        "hll4_aux_dup" => {
            let mut s = HllSketch::new(4, HllType::Hll4);
            for i in 0..200000 { s.update(i); }
            let mut b = s.serialize();
            // set aux_count=2 and append two identical aux coupons
            b[36..40].copy_from_slice(&2u32.to_le_bytes());
            b.truncate(40 + 8);
            let c = ((20u32) << 26) | 3;
            b.extend_from_slice(&c.to_le_bytes());
            b.extend_from_slice(&c.to_le_bytes());
            format!("{:?}", HllSketch::deserialize(&b).map(|s| s.estimate()))
        }
        "hll4_curmin_shift_aux" => {
            // F11: lg_k=4 Hll4 streams; count how many of 2000 400-item streams panic
            let mut bad = 0;
            for seed in 0..2000u64 {
                let r = std::panic::catch_unwind(|| {
                    let mut s = HllSketch::new(4, HllType::Hll4);
                    for i in 0..400u64 { s.update(seed * 1_000_003 + i); }
                    s.estimate()
                });
                if r.is_err() { bad += 1; }
            }
            format!("panicking streams: {bad} of 2000")
        }
        "hll_union_ooo_hll4" | "hll_union_to_sketch_types" => {
            // build an out-of-order Hll4 sketch: union result converted to Hll4 is out of order
            let mut a = HllSketch::new(10, HllType::Hll4);
            let mut b = HllSketch::new(10, HllType::Hll4);
            for i in 0..3000 { a.update(i); }
            for i in 2000..5000 { b.update(i); }
            let mut u = HllUnion::new(10);
            u.update(&a); u.update(&b);
            if name == "hll_union_to_sketch_types" {
                let e: Vec<String> = [HllType::Hll4, HllType::Hll6, HllType::Hll8].iter().map(|t| { let s = u.to_sketch(*t); format!("{:.2}/{:.2}/{:.2}", s.lower_bound(NumStdDev::Two), s.estimate(), s.upper_bound(NumStdDev::Two)) }).collect();
                format!("{:?}", e)
            } else {
                let ooo4 = u.to_sketch(HllType::Hll4);
                let mut img = ooo4.serialize();
                img[5] |= 16; // what Java/C++ unions emit: out-of-order flag set
                let d = HllSketch::deserialize(&img).unwrap();
                let mut u2 = HllUnion::new(10);
                u2.update(&d);
                format!("src_est={:.1} flags={:#x} union_of_it_est={:.1}", d.estimate(), img[5], u2.estimate())
            }
        }
        // ---------------- theta
        "theta_v3_huge_count" => {
            let mut b = vec![2u8, 3, 3, 0, 0, 0x1a];
            let sh = CompactThetaSketch::deserialize(&ThetaSketch::builder().build().compact(true).serialize()).unwrap().seed_hash();
            b.extend_from_slice(&sh.to_le_bytes());
            b.extend_from_slice(&u32::MAX.to_le_bytes());
            b.extend_from_slice(&0u32.to_le_bytes());
            format!("{:?}", CompactThetaSketch::deserialize(&b).map(|s| s.estimate()))
        }
        "theta_v4_neb_200" | "theta_v4_bits_0" | "theta_v4_bits_64" | "theta_v4_count_2p40" | "theta_v4_delta_overflow" => {
            let mut t = ThetaSketch::builder().build();
            for i in 0..20 { t.update(i); }
            let mut b = t.compact(true).serialize_compressed();
            match name {
                "theta_v4_neb_200" => b[4] = 200,
                "theta_v4_bits_0" => b[3] = 0,
                "theta_v4_bits_64" => b[3] = 64,
                "theta_v4_count_2p40" => { b[4] = 6; let tail = b.split_off(9); b.truncate(8); b.extend_from_slice(&[0,0,0,0,0,1]); b.extend_from_slice(&tail); }
                _ => { b[3] = 63; let n = b.len(); for x in &mut b[9..n] { *x = 0xff; } b.extend_from_slice(&[0xff; 200]); }
            }
            format!("{:?}", CompactThetaSketch::deserialize(&b).map(|s| s.estimate()))
        }
        "theta_v2_precise" => {
            let sh = CompactThetaSketch::deserialize(&ThetaSketch::builder().build().compact(true).serialize()).unwrap().seed_hash();
            let mut b = vec![2u8, 2, 3, 0, 0, 0];
            b.extend_from_slice(&sh.to_le_bytes());
            b.extend_from_slice(&2u32.to_le_bytes());
            b.extend_from_slice(&0u32.to_le_bytes());
            b.extend_from_slice(&100u64.to_le_bytes());
            b.extend_from_slice(&200u64.to_le_bytes());
            format!("{:?}", CompactThetaSketch::deserialize(&b).map(|s| (s.is_empty(), s.num_retained(), s.estimate())))
        }
        "theta_sampling_all_screened" => {
            let mut t = ThetaSketch::builder().lg_k(12).sampling_probability(0.0001).build();
            for i in 0..1000 { t.update(i); }
            let c = t.compact(true);
            format!("retained={} is_empty={} est={} ub2={} | compact: empty={} theta64={} ub2={}", t.num_retained(), t.is_empty(), t.estimate(), t.upper_bound(NumStdDev::Two), c.is_empty(), c.theta64(), c.upper_bound(NumStdDev::Two))
        }
        // ---------------- tdigest
        "td_huge_centroids" => {
            let mut b = vec![2u8, 1, 20]; b.extend_from_slice(&100u16.to_le_bytes()); b.push(0); b.extend_from_slice(&0u16.to_le_bytes());
            b.extend_from_slice(&u32::MAX.to_le_bytes()); b.extend_from_slice(&0u32.to_le_bytes());
            b.extend_from_slice(&0f64.to_le_bytes()); b.extend_from_slice(&1f64.to_le_bytes());
            format!("{:?}", TDigestMut::deserialize(&b, false).map(|s| s.total_weight()))
        }
        "td_weight_overflow" => {
            let mut b = vec![2u8, 1, 20]; b.extend_from_slice(&100u16.to_le_bytes()); b.push(0); b.extend_from_slice(&0u16.to_le_bytes());
            b.extend_from_slice(&2u32.to_le_bytes()); b.extend_from_slice(&0u32.to_le_bytes());
            b.extend_from_slice(&0f64.to_le_bytes()); b.extend_from_slice(&1f64.to_le_bytes());
            for m in [0.0f64, 1.0] { b.extend_from_slice(&m.to_le_bytes()); b.extend_from_slice(&u64::MAX.to_le_bytes()); }
            format!("{:?}", TDigestMut::deserialize(&b, false).map(|s| s.total_weight()))
        }
        "td_rank_left_tail" | "td_quantile_heavy_last" => {
            // valid image: centroids (10.0,w=6) (50.0,w=1) (90.0,w=9), min 0, max 100
            let mut b = vec![2u8, 1, 20]; b.extend_from_slice(&100u16.to_le_bytes()); b.push(0); b.extend_from_slice(&0u16.to_le_bytes());
            b.extend_from_slice(&3u32.to_le_bytes()); b.extend_from_slice(&0u32.to_le_bytes());
            b.extend_from_slice(&0f64.to_le_bytes()); b.extend_from_slice(&100f64.to_le_bytes());
            for (m, w) in [(10.0f64, 6u64), (50.0, 1), (90.0, 9)] { b.extend_from_slice(&m.to_le_bytes()); b.extend_from_slice(&w.to_le_bytes()); }
            let mut t = TDigestMut::deserialize(&b, false).unwrap();
            if name == "td_rank_left_tail" { format!("rank(5.0)={:?} rank(0.0)={:?} rank(9.9)={:?}", t.rank(5.0), t.rank(0.0), t.rank(9.9)) }
            else { format!("q(0.8)={:?} q(0.9)={:?} q(0.95)={:?} max={:?}", t.quantile(0.8), t.quantile(0.9), t.quantile(0.95), t.max_value()) }
        }
        "td_quantile_monotone" => {
            let mut b = vec![2u8, 1, 20]; b.extend_from_slice(&100u16.to_le_bytes()); b.push(0); b.extend_from_slice(&0u16.to_le_bytes());
            b.extend_from_slice(&3u32.to_le_bytes()); b.extend_from_slice(&0u32.to_le_bytes());
            b.extend_from_slice(&0f64.to_le_bytes()); b.extend_from_slice(&100f64.to_le_bytes());
            for (m, w) in [(10.0f64, 6u64), (50.0, 4), (90.0, 10)] { b.extend_from_slice(&m.to_le_bytes()); b.extend_from_slice(&w.to_le_bytes()); }
            let mut t = TDigestMut::deserialize(&b, false).unwrap();
            let qs: Vec<String> = (0..=20).map(|i| format!("{:.1}", t.quantile(i as f64 / 20.0).unwrap())).collect();
            let mut u = TDigestMut::new(10);
            for i in 0..2000 { u.update(i as f64); }
            let mut bad = 0; let mut prev = f64::MIN;
            for i in 0..=1000 { let q = u.quantile(i as f64 / 1000.0).unwrap(); if q < prev { bad += 1; } prev = q; }
            format!("image quantiles: {} | streamed k=10 n=2000: {} decreasing steps of 1000", qs.join(" "), bad)
        }
        "td_quantile_nan" => {
            // image: centroids (1.0,w=2) (3.0,w=2), min 0, max 4: W=4, rank 0.75 -> weight 3 = W-1
            let mut b = vec![2u8, 1, 20]; b.extend_from_slice(&100u16.to_le_bytes()); b.push(0); b.extend_from_slice(&0u16.to_le_bytes());
            b.extend_from_slice(&2u32.to_le_bytes()); b.extend_from_slice(&0u32.to_le_bytes());
            b.extend_from_slice(&0f64.to_le_bytes()); b.extend_from_slice(&4f64.to_le_bytes());
            for (m, w) in [(1.0f64, 2u64), (3.0, 2)] { b.extend_from_slice(&m.to_le_bytes()); b.extend_from_slice(&w.to_le_bytes()); }
            let mut t = TDigestMut::deserialize(&b, false).unwrap();
            let img = t.quantile(0.75);
            // streamed: search k, n for a NaN quantile at rank (W-1)/W
            let mut found = String::from("none");
            'o: for k in [10u16, 12, 15, 20, 25, 30, 50, 100] {
                let mut u = TDigestMut::new(k);
                for n in 1..4000u64 {
                    u.update(n as f64);
                    let w = u.total_weight() as f64;
                    let q = u.quantile((w - 1.0) / w);
                    if let Some(q) = q { if q.is_nan() { found = format!("k={k} n={n} quantile(({w}-1)/{w})=NaN"); break 'o; } }
                }
            }
            let mut found2 = String::from("none");
            let mut x: u64 = 88172645463325252;
            'p: for k in [10u16, 20, 50, 100, 200] {
                for trial in 0..40 {
                    let mut u = TDigestMut::new(k);
                    let mut v = TDigestMut::new(k);
                    for n in 1..1500u64 {
                        x ^= x << 13; x ^= x >> 7; x ^= x << 17;
                        let val = if trial % 4 == 0 { (x % 7) as f64 } else if trial % 4 == 1 { -(n as f64) } else { (x % 1000) as f64 / 10.0 };
                        u.update(val);
                        if n % 3 == 0 { v.update(val); }
                        if n % 97 == 0 { u.merge(&v); }
                        if n % 5 != 0 { continue; }
                        let w = u.total_weight() as f64;
                        for j in [1.0, 2.0, 3.0] {
                            if let Some(q) = u.quantile((w - j) / w) { if q.is_nan() { found2 = format!("k={k} trial={trial} n={n} W={w} quantile((W-{j})/W)=NaN"); break 'p; } }
                        }
                    }
                }
            }
            format!("image q(0.75)={:?} | streamed: {} | random/merge: {}", img, found, found2)
        }
        "td_quantile_ulp" => {
            // many identical values: every quantile must be that value (min == max)
            let mut worst = String::from("none");
            let mut bad = 0;
            for &v in &[0.1f64, 19.99, 1e-7, 12345.678, -3.3] {
                for &k in &[10u16, 50, 100, 200] {
                    let mut t = TDigestMut::new(k);
                    for _ in 0..20000 { t.update(v); }
                    let (mn, mx) = (t.min_value().unwrap(), t.max_value().unwrap());
                    for i in 0..=1000 {
                        let q = t.quantile(i as f64 / 1000.0).unwrap();
                        if q < mn || q > mx { bad += 1; if worst == "none" { worst = format!("v={v} k={k} quantile({})={:e} outside [{:e},{:e}]", i as f64 / 1000.0, q, mn, mx); } }
                    }
                }
            }
            format!("{} of 20020 quantiles outside [min,max]; first: {}", bad, worst)
        }
        "td_huge_two" => {
            let mut t = TDigestMut::new(100);
            t.update(-1.7e308); t.update(1.7e308);
            let mut t2 = TDigestMut::new(100);
            for v in [-1.7e308, -1.0e308, -1.0e308, -1.0e308, 1.0e308, 1.0e308, 1.0e308, 1.7e308] { t2.update(v); }
            let _ = t2.serialize();
            format!("rank(5.9e307)={:?} quantile(0.4)={:?} | t2: rank(0)={:?} quantile(0.5)={:?} quantile(0.3)={:?}", t.rank(5.897521747121351e307), t.quantile(0.4), t2.rank(0.0), t2.quantile(0.5), t2.quantile(0.3))
        }
        "td_huge_range" => {
            // finite values of huge magnitude on both sides of zero: rank / quantile must stay in range and monotone
            let mut t = TDigestMut::new(100);
            for i in 0..2000 { let x = (i as f64 / 1999.0 - 0.5) * 3.4e307 * 10.0; t.update(x); }
            let min = t.min_value().unwrap(); let max = t.max_value().unwrap();
            let mut out = vec![];
            let mut prev = f64::NEG_INFINITY;
            for j in 0..=40 {
                let q = j as f64 / 40.0;
                let v = t.quantile(q).unwrap();
                if !(v >= min && v <= max) || !(v >= prev) { out.push(format!("quantile({q})={v}")); }
                if v.is_finite() { prev = v; }
            }
            let mut prevr = -1.0;
            for j in 0..=40 {
                let v = min / 1.0 + (j as f64 / 40.0) * (max / 2.0 - min / 2.0) * 2.0;
                let v = if v.is_finite() { v } else { (j as f64 / 40.0 - 0.5) * 3.4e307 * 10.0 };
                let r = t.rank(v).unwrap();
                if !(r >= 0.0 && r <= 1.0) || !(r >= prevr) { out.push(format!("rank({v})={r}")); }
                if r.is_finite() { prevr = r; }
            }
            format!("min={min} max={max} bad={:?}", out)
        }
        "td_cdf_empty" => {
            let mut t = TDigestMut::new(100);
            for i in 0..100 { t.update(i as f64); }
            format!("cdf={:?} pmf={:?}", t.cdf(&[]), t.pmf(&[]))
        }
        // ---------------- bloom
        "bloom_nonempty_huge" => {
            let mut b = vec![4u8, 1, 21, 0]; b.extend_from_slice(&3u16.to_le_bytes()); b.extend_from_slice(&0u16.to_le_bytes());
            b.extend_from_slice(&9001u64.to_le_bytes()); b.extend_from_slice(&(i32::MAX).to_le_bytes()); b.extend_from_slice(&0u32.to_le_bytes());
            b.extend_from_slice(&0u64.to_le_bytes());
            format!("{:?}", BloomFilter::deserialize(&b).map(|s| s.capacity()))
        }
        "bloom_empty_huge" => {
            let mut b = vec![3u8, 1, 21, 4]; b.extend_from_slice(&3u16.to_le_bytes()); b.extend_from_slice(&0u16.to_le_bytes());
            b.extend_from_slice(&9001u64.to_le_bytes()); b.extend_from_slice(&(1i32 << 27).to_le_bytes()); b.extend_from_slice(&0u32.to_le_bytes());
            format!("{:?} from {} bytes", BloomFilter::deserialize(&b).map(|s| s.capacity()), b.len())
        }
        "fi_lg_31" => { let b = vec![1u8, 1, 10, 31, 31, 5, 0, 0]; format!("{:?}", FrequentItemsSketch::<i64>::deserialize(&b).map(|s| s.total_weight())) }
        // ---------------- frequent items
        "fi_lg_200" => { let b = vec![1u8, 1, 10, 200, 200, 5, 0, 0]; format!("{:?}", FrequentItemsSketch::<i64>::deserialize(&b).map(|s| s.total_weight())) }
        "fi_lg_40" => { let b = vec![1u8, 1, 10, 40, 40, 5, 0, 0]; format!("{:?}", FrequentItemsSketch::<i64>::deserialize(&b).map(|s| s.total_weight())) }
        "fi_offset_max" => {
            // offset and stream_weight are stored from the image as they are: value + offset overflows in estimate()
            let mut s = FrequentItemsSketch::<i64>::new(8);
            s.update(1); s.update(2);
            let mut b = s.serialize();
            for x in &mut b[24..32] { *x = 0xff; }
            let r1 = std::panic::catch_unwind(|| match FrequentItemsSketch::<i64>::deserialize(&b) {
                Err(e) => format!("rejected: {e}"),
                Ok(d) => format!("accepted; estimate(1)={} ub={}", d.estimate(&1), d.upper_bound(&1)),
            });
            let mut b2 = s.serialize();
            for x in &mut b2[16..24] { *x = 0xff; }
            let r2 = std::panic::catch_unwind(|| match FrequentItemsSketch::<i64>::deserialize(&b2) {
                Err(e) => format!("rejected: {e}"),
                Ok(mut d) => { d.update(3); format!("accepted; total {}", d.total_weight()) }
            });
            let f = |r: std::thread::Result<String>| match r { Ok(s) => s, Err(e) => format!("PANIC {:?}", e.downcast_ref::<String>().cloned().or(e.downcast_ref::<&str>().map(|x| x.to_string()))) };
            format!("offset=MAX: {} | stream_weight=MAX: {}", f(r1), f(r2))
        }
        "fi_active_max" => {
            let mut b = vec![4u8, 1, 10, 10, 4, 0, 0, 0]; b.extend_from_slice(&u32::MAX.to_le_bytes()); b.extend_from_slice(&0u32.to_le_bytes());
            b.extend_from_slice(&5u64.to_le_bytes()); b.extend_from_slice(&0u64.to_le_bytes());
            format!("{:?}", FrequentItemsSketch::<i64>::deserialize(&b).map(|s| s.total_weight()))
        }
        "fi_string_len_max" => {
            let mut b = vec![4u8, 1, 10, 10, 4, 0, 0, 0]; b.extend_from_slice(&1u32.to_le_bytes()); b.extend_from_slice(&0u32.to_le_bytes());
            b.extend_from_slice(&5u64.to_le_bytes()); b.extend_from_slice(&0u64.to_le_bytes());
            b.extend_from_slice(&5u64.to_le_bytes());
            b.extend_from_slice(&u32::MAX.to_le_bytes());
            format!("{:?}", FrequentItemsSketch::<String>::deserialize(&b).map(|s| s.total_weight()))
        }
        "fi_merge_purged_empty" => {
            // 7 distinct items of weight 1 into map size 8 (capacity 6): the purge removes every counter
            let mut a = FrequentItemsSketch::<i64>::new(8);
            for i in 0..7 { a.update(i); }
            let mut b = FrequentItemsSketch::<i64>::new(8);
            b.update(100);
            let before = (a.num_active_items(), a.total_weight(), a.maximum_error());
            b.merge(&a);
            format!("a(active,weight,err)={:?} merged total_weight={} ub(0)={} max_err={}", before, b.total_weight(), b.upper_bound(&0), b.maximum_error())
        }
        "fi_empty_roundtrip" => {
            let a = FrequentItemsSketch::<i64>::new(8);
            let b = a.serialize();
            format!("len={} bytes={:?} -> {:?}", b.len(), b, FrequentItemsSketch::<i64>::deserialize(&b).map(|s| s.is_empty()))
        }
        "fi_weight_sum_overflow" => {
            let mut b = vec![4u8, 1, 10, 10, 4, 0, 0, 0]; b.extend_from_slice(&2u32.to_le_bytes()); b.extend_from_slice(&0u32.to_le_bytes());
            b.extend_from_slice(&5u64.to_le_bytes()); b.extend_from_slice(&0u64.to_le_bytes());
            b.extend_from_slice(&u64::MAX.to_le_bytes()); b.extend_from_slice(&u64::MAX.to_le_bytes());
            b.extend_from_slice(&1i64.to_le_bytes()); b.extend_from_slice(&2i64.to_le_bytes());
            format!("{:?}", FrequentItemsSketch::<i64>::deserialize(&b).map(|s| s.total_weight()))
        }
        // ---------------- cpc
        "cpc_lgk21_serialize" => {
            let mut s = CpcSketch::new(21);
            for i in 0..1_200_000u64 { s.update(i); }
            let b = s.serialize();
            format!("len={}", b.len())
        }
        _ => "unknown witness".to_string(),
    }
}

fn main() {
    let name = std::env::args().nth(1).unwrap();
    if name == "fuzz_cpc" { fuzz::cpc(); return; }
    let r = std::panic::catch_unwind(|| run(&name));
    match r {
        Ok(s) => println!("{name}: {s}"),
        Err(e) => {
            let m = e.downcast_ref::<String>().cloned().or_else(|| e.downcast_ref::<&str>().map(|s| s.to_string())).unwrap_or_default();
            println!("{name}: PANIC {m}");
        }
    }
    let _ = NumStdDev::One;
}

pub mod fuzz {
    use datasketches::cpc::CpcSketch;
    use std::collections::BTreeMap;
    use std::sync::Mutex;
    pub static LAST: Mutex<String> = Mutex::new(String::new());
    pub fn cpc() {
        std::panic::set_hook(Box::new(|info| {
            let loc = info.location().map(|l| format!("{}:{}", l.file(), l.line())).unwrap_or_default();
            let msg = info.payload().downcast_ref::<String>().cloned().or_else(|| info.payload().downcast_ref::<&str>().map(|s| s.to_string())).unwrap_or_default();
            *LAST.lock().unwrap() = format!("{loc} | {}", msg.chars().take(90).collect::<String>());
        }));
        let mut found: BTreeMap<String, String> = BTreeMap::new();
        for lgk in [4u8, 6, 10] {
            let k = 1u64 << lgk;
            for n in [1u64, 2, k / 16 + 1, k / 4, k / 2 + 3, k, 2 * k, 4 * k, 8 * k, 30 * k] {
                let mut s = CpcSketch::new(lgk);
                for i in 0..n { s.update(i); }
                let img = s.serialize();
                let vals = [0u8, 1, 2, 3, 7, 8, 0x10, 0x3f, 0x40, 0x7f, 0x80, 0xfe, 0xff];
                for pos in 0..img.len().min(64) {
                    for v in vals {
                        let mut b = img.clone();
                        b[pos] = v;
                        try_one(&b, &mut found, lgk, n, pos, v);
                        let mut b2 = img.clone();
                        b2[pos] = b2[pos].wrapping_add(v);
                        try_one(&b2, &mut found, lgk, n, pos, v);
                    }
                }
                // tail corruption
                for t in [4usize, 8, 20] {
                    let mut b = img.clone();
                    let l = b.len();
                    for x in &mut b[l.saturating_sub(t)..] { *x = 0xff; }
                    try_one(&b, &mut found, lgk, n, 9999, t as u8);
                }
                // multi-byte count fields
                for off in [8usize, 12, 16, 20, 24, 28, 32] {
                    for v in [0u32, 1, 2_000_000, u32::MAX, 1 << 20] {
                        if off + 4 <= img.len() {
                            let mut b = img.clone();
                            b[off..off + 4].copy_from_slice(&v.to_le_bytes());
                            try_one(&b, &mut found, lgk, n, off, 0);
                        }
                    }
                }
            }
        }
        for (k, v) in &found { println!("{k}  <=  {v}"); }
    }
    fn try_one(b: &[u8], found: &mut BTreeMap<String, String>, lgk: u8, n: u64, pos: usize, v: u8) {
        println!("TRY lgk={lgk} n={n} pos={pos} v={v}");
        let r = std::panic::catch_unwind(|| { let _ = CpcSketch::deserialize(b).map(|s| s.estimate()); });
        if r.is_err() {
            let key = LAST.lock().unwrap().clone();
            if !found.contains_key(&key) {
                let d = format!("lgk={lgk} n={n} pos={pos} v={v} hex={}", b.iter().take(80).map(|x| format!("{x:02x}")).collect::<String>());
                println!("{key}  <=  {d}");
                found.insert(key, d);
            }
        }
    }
}
